(* colander, the level header: Colander.update_cell_header applied to the text
   of a well-formed level header (print_cellh) yields the level header of the
   strained level - field count, byte offsets and the columns of the minima /
   maxima tables replaced, everything else copied.
   Standard library only, no axioms. *)
From AK Require Import Base.Prelude Bytes.Text Bytes.FabHeader Bytes.FabHeaderProofs
  Bytes.BinFile Reader.Select Reader.BoxRead Reader.Level
  Plotfile.TextHeader Plotfile.HeaderSpec Plotfile.HeaderProofs
  Reader.ReadSpec Taste.Taste Plotfile.Abstract Writers.Colander Writers.ColanderSpec.

(* ------------------------------------------------------------------ *)
(** * copying up to the first FabOnDisk line *)
Lemma copy_until_fod_spec : forall (pre : text) fl rest acc fuel,
  Forall (fun l => has_fod l = false) pre -> has_fod fl = true -> (length pre < fuel)%nat ->
  copy_until_fod fuel (pre ++ fl :: rest) acc = Some (acc ++ pre, fl, rest).
Proof.
  induction pre as [|l pre IH]; intros fl rest acc fuel Hpre Hfl Hfuel.
  - destruct fuel as [|fuel]; [cbn in Hfuel; lia|]. cbn [app copy_until_fod]. rewrite Hfl, app_nil_r. reflexivity.
  - destruct fuel as [|fuel]; [cbn in Hfuel; lia|]. inversion Hpre as [|? ? Hl Hpre']; subst.
    cbn [app copy_until_fod]. rewrite Hl. rewrite (IH fl rest (acc ++ [l]) fuel Hpre' Hfl) by (cbn [length] in Hfuel; lia).
    rewrite <- app_assoc. reflexivity.
Qed.

Lemma numch_not_colon c : numch c = true -> Ascii.eqb c ":"%char = false.
Proof.
  unfold numch, is_digit. intros H. destruct (Ascii.eqb c ":"%char) eqn:E; [|reflexivity].
  apply Ascii.eqb_eq in E. subst c. vm_compute in H. discriminate.
Qed.

Lemma str_not_fod z : bytes_eqb (str_of_Z z) fod = false.
Proof.
  destruct (bytes_eqb (str_of_Z z) fod) eqn:E; [|reflexivity].
  apply bytes_eqb_iff in E. pose proof (str_numch z) as H. rewrite E in H. vm_compute in H. discriminate.
Qed.

Lemma lp_not_fod s : bytes_eqb (bs "(" ++ s) fod = false.
Proof. reflexivity. Qed.

Lemma triple_no_fod lo hi : has_fod (triple lo hi) = false.
Proof.
  unfold has_fod, triple. cbn [existsb]. rewrite lp_not_fod.
  unfold paren. rewrite !lp_not_fod. reflexivity.
Qed.

(* ------------------------------------------------------------------ *)
(** * rewriting the remaining FabOnDisk lines *)
Definition fod_line (fo : bytes * Z) : line := [bs "FabOnDisk:"; fst fo; str_of_Z (snd fo)].

Lemma set_last_fod f o o' : set_last_token (fod_line (f, o)) (str_of_Z o') = fod_line (f, o').
Proof. reflexivity. Qed.

Lemma rewrite_fods_spec : forall (files : list bytes) (old new : list Z) tail,
  length files = length old -> length new = length old ->
  rewrite_fods new (map fod_line (combine files old) ++ tail)
  = Some (map fod_line (combine files new), tail).
Proof.
  induction files as [|f files IH]; intros [|o old] [|o' new] tail H1 H2; try discriminate.
  - reflexivity.
  - cbn [combine map app rewrite_fods]. cbn [length] in H1, H2.
    rewrite (IH old new tail) by lia. cbn [obind fst snd]. rewrite set_last_fod. reflexivity.
Qed.

(* ------------------------------------------------------------------ *)
(** * a minima / maxima block *)
Lemma project_row_spec kept row :
  Forall (fun i => 0 <= i < blen row) kept -> project_row kept row = Some (project kept row).
Proof.
  intros H. unfold project_row, project. apply omap_all_map. intros i Hi.
  rewrite Forall_forall in H. specialize (H i Hi).
  unfold norm_index. replace ((0 <=? i) && (i <? blen row)) with true by lia. cbn [obind].
  unfold znth. replace (i <? 0) with false by lia.
  apply nth_error_nth'. unfold blen in H. lia.
Qed.

Lemma row_token_w_nonempty r : r <> [] -> row_token_w r = row_token r.
Proof.
  intros H. unfold row_token_w, row_token.
  induction r as [|t r IH]; [congruence|].
  destruct r as [|t' r'].
  - cbn [join_with map concat]. rewrite app_nil_r. reflexivity.
  - change (join_with (bs ",") (t :: t' :: r')) with (t ++ bs "," ++ join_with (bs ",") (t' :: r')).
    change (concat (map (fun t0 : list ascii => t0 ++ bs ",") (t :: t' :: r')))
      with ((t ++ bs ",") ++ concat (map (fun t0 : list ascii => t0 ++ bs ",") (t' :: r'))).
    rewrite <- !app_assoc. f_equal. f_equal. apply IH. discriminate.
Qed.

Lemma count_line_split n nf :
  split_on ","%char (join_line [str_of_Z n ++ bs "," ++ str_of_Z nf]) = [str_of_Z n; str_of_Z nf].
Proof.
  change (join_line [str_of_Z n ++ bs "," ++ str_of_Z nf]) with (str_of_Z n ++ ","%char :: str_of_Z nf).
  assert (G : forall z, nochar ","%char (str_of_Z z) = true).
  { intros z. apply (forallb_imp numch); [|apply str_numch].
    intros c H. destruct (numch_props c H) as (_ & _ & _ & _ & _ & ->). reflexivity. }
  rewrite split_on_tok_sep by apply G. rewrite split_on_tok by apply G. reflexivity.
Qed.

Lemma row_parser kept (r : list token) t :
  Forall (fun i => 0 <= i < blen r) kept -> Forall (no_char ","%char) r ->
  (pdo l <- rline; of_opt (project_row kept (drop_last (split_on ","%char (join_line l)))))
    ([row_token r] :: t) = Some (project kept r, t).
Proof.
  intros Hk Hc. p_line. change (join_line [row_token r]) with (row_token r).
  rewrite (split_row_token r Hc), drop_last_snoc.
  apply of_opt_some. apply project_row_spec. exact Hk.
Qed.

Lemma rows_block kept nf : Forall (fun i => 0 <= i < nf) kept ->
  forall (rs : list (list token)) t,
  Forall (fun r => blen r = nf /\ Forall (no_char ","%char) r) rs ->
  prepeat (length rs)
    (pdo l <- rline; of_opt (project_row kept (drop_last (split_on ","%char (join_line l)))))
    (map (fun r : list token => [row_token r]) rs ++ t)
  = Some (map (project kept) rs, t).
Proof.
  intros Hkept. induction rs as [|r rs IHr]; intros t HF; [reflexivity|].
  apply Forall_cons_iff in HF. destruct HF as [[Hlen Hc] HF'].
  cbn [length prepeat map app].
  p_run ltac:(apply row_parser; [eapply Forall_impl; [|exact Hkept]; cbv beta; intros i Hi; exact (eq_rect nf (fun z => 0 <= i < z) Hi _ (eq_sym Hlen)) | exact Hc]).
  p_run ltac:(apply IHr; exact HF').
  reflexivity.
Qed.

Lemma minmax_block_spec : forall kept nf (rows : list (list token)) tail,
  kept <> [] ->
  Forall (fun r => blen r = nf /\ Forall (no_char ","%char) r) rows ->
  Forall (fun i => 0 <= i < nf) kept ->
  minmax_block kept ([] :: [str_of_Z (blen rows) ++ bs "," ++ str_of_Z nf] ::
                     map (fun r : list token => [row_token r]) rows ++ tail)
  = Some ([] :: [str_of_Z (blen rows) ++ bs "," ++ str_of_Z (blen kept)] ::
          map (fun r : list token => [row_token r]) (map (project kept) rows), tail).
Proof.
  intros kept nf rows tail Hne Hrows Hkept. unfold minmax_block.
  p_line. p_line. rewrite count_line_split.
  p_opt ltac:(apply py_int_str_of_Z).
  p_run ltac:(rewrite to_nat_blen; apply (rows_block kept nf Hkept); exact Hrows).
  unfold pret. cbn [app]. f_equal. f_equal. f_equal. f_equal.
  rewrite !map_map. apply map_ext. intros r. f_equal. apply row_token_w_nonempty.
  unfold project. destruct kept; [congruence | discriminate].
Qed.

Lemma minmax_block_spec_end : forall kept nf (rows : list (list token)),
  kept <> [] ->
  Forall (fun r => blen r = nf /\ Forall (no_char ","%char) r) rows ->
  Forall (fun i => 0 <= i < nf) kept ->
  minmax_block kept ([] :: [str_of_Z (blen rows) ++ bs "," ++ str_of_Z nf] ::
                     map (fun r : list token => [row_token r]) rows)
  = Some ([] :: [str_of_Z (blen rows) ++ bs "," ++ str_of_Z (blen kept)] ::
          map (fun r : list token => [row_token r]) (map (project kept) rows), []).
Proof.
  intros kept nf rows H1 H2 H3. rewrite <- (app_nil_r (map (fun r : list token => [row_token r]) rows)).
  apply minmax_block_spec; assumption.
Qed.

Lemma length_app_lt {A} (a : list A) x b : (length a < S (length (a ++ x :: b)))%nat.
Proof. rewrite app_length. cbn [length]. lia. Qed.

(* ------------------------------------------------------------------ *)
(** * the whole level header *)
Definition strained_cellh (c : cellh) (kept : list Z) (offs : list Z) : cellh :=
  {| c_indexes := c_indexes c; c_files := c_files c; c_offsets := offs;
     c_mins := map (project kept) (c_mins c); c_maxs := map (project kept) (c_maxs c) |}.

Theorem update_cell_header_print : forall nf c kept offs,
  wf_cellh true c -> c_indexes c <> [] ->
  Forall (fun r => blen r = nf) (c_mins c) -> Forall (fun r => blen r = nf) (c_maxs c) ->
  kept <> [] -> Forall (fun i => 0 <= i < nf) kept ->
  length offs = length (c_indexes c) ->
  update_cell_header (print_cellh nf c) kept offs = Some (print_cellh (blen kept) (strained_cellh c kept offs)).
Proof.
  intros nf c kept offs (Hidx & Hfl & Hol & Hmm) Hne Hmin Hmax Hk Hkept Hoffs.
  destruct (Hmm eq_refl) as (Hmn & Hmx & Hmnf & Hmxf).
  destruct c as [idx files olds mins maxs]. cbn [c_indexes c_files c_offsets c_mins c_maxs] in *.
  destruct idx as [|ix idx]; [congruence|].
  destruct files as [|f0 files]; [discriminate|]. destruct olds as [|o0 olds]; [discriminate|].
  destruct offs as [|n0 offs]; [discriminate|].
  cbn [length] in Hfl, Hol, Hoffs.
  set (n := blen (ix :: idx)).
  set (tail := [] :: [str_of_Z n ++ bs "," ++ str_of_Z nf] ::
               (map (fun r : list token => [row_token r]) mins ++
                [] :: [str_of_Z n ++ bs "," ++ str_of_Z nf] ::
                map (fun r : list token => [row_token r]) maxs)).
  set (pre := [bs "0"] :: [bs "(" ++ str_of_Z n; bs "0"] ::
              (map (fun ix0 : list Z * list Z => triple (fst ix0) (snd ix0)) (ix :: idx) ++ [[bs ")"]; [str_of_Z n]])).
  assert (Hshape : print_cellh nf {| c_indexes := ix :: idx; c_files := f0 :: files; c_offsets := o0 :: olds;
                                     c_mins := mins; c_maxs := maxs |}
                   = [bs "1"] :: [bs "1"] :: [str_of_Z nf] ::
                     (pre ++ fod_line (f0, o0) :: (map fod_line (combine files olds) ++ tail))).
  { rewrite <- (app_nil_r (print_cellh _ _)), print_cellh_shape.
    cbn [c_indexes c_files c_offsets c_mins c_maxs]. fold n. unfold pre, tail.
    cbn [combine map]. rewrite !app_nil_r.
    change (fod_line (f0, o0)) with [bs "FabOnDisk:"; f0; str_of_Z o0].
    cbn [app]. f_equal. f_equal. f_equal. f_equal. f_equal.
    rewrite <- app_assoc. cbn [app]. reflexivity. }
  rewrite Hshape. unfold update_cell_header.
  assert (Hpre : Forall (fun l => has_fod l = false) pre).
  { unfold pre. constructor; [reflexivity|]. constructor.
    { unfold has_fod. cbn [existsb]. rewrite lp_not_fod. reflexivity. }
    apply Forall_app. split.
    - apply Forall_forall. intros l Hl. apply in_map_iff in Hl. destruct Hl as (x & <- & _). apply triple_no_fod.
    - constructor; [reflexivity|]. constructor; [|constructor].
      unfold has_fod. cbn [existsb]. rewrite str_not_fod. reflexivity. }
  rewrite (copy_until_fod_spec pre (fod_line (f0, o0)) _ [] _ Hpre eq_refl)
    by (apply length_app_lt).
  cbn [obind app].
  rewrite (rewrite_fods_spec files olds offs tail) by (clear -Hfl Hol Hoffs; lia).
  cbn [obind fst snd]. unfold tail.
  assert (Hrows : forall rows : list (list token),
             Forall (fun r => blen r = nf) rows ->
             Forall (Forall (fun t => float_ok t = true /\ no_char ","%char t)) rows ->
             Forall (fun r => blen r = nf /\ Forall (no_char ","%char) r) rows).
  { intros rows H1 H2. apply Forall_forall. intros r Hr. rewrite Forall_forall in H1, H2.
    split; [apply H1; exact Hr|]. specialize (H2 r Hr). eapply Forall_impl; [|exact H2]. intros t [_ Ht]. exact Ht. }
  assert (En1 : n = blen mins) by (unfold n, blen; rewrite Hmn; reflexivity).
  assert (En2 : n = blen maxs) by (unfold n, blen; rewrite Hmx; reflexivity).
  rewrite En1 at 1.
  rewrite (minmax_block_spec kept nf mins _ Hk (Hrows mins Hmin Hmnf) Hkept).
  rewrite En2 at 1.
  rewrite (minmax_block_spec_end kept nf maxs Hk (Hrows maxs Hmax Hmxf) Hkept).
  rewrite <- En1, <- En2.
  f_equal. unfold print_cellh, strained_cellh. cbn [c_indexes c_files c_offsets c_mins c_maxs]. fold n. cbv zeta.
  unfold pre. cbn [combine map app]. rewrite set_last_fod.
  change (fod_line (f0, n0)) with [bs "FabOnDisk:"; f0; str_of_Z n0].
  f_equal. f_equal. f_equal. f_equal. f_equal.
  rewrite <- !app_assoc. cbn [app]. reflexivity.
Qed.

Print Assumptions update_cell_header_print.
