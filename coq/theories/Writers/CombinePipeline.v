(* combine outputs are good plotfiles again, and chains of colander and combine
   runs equal the composed pure operations with every intermediate directory
   the image of a good plotfile.
   Standard library only, no axioms. *)
From AK Require Import Base.Prelude Bytes.Text Bytes.FabHeader Bytes.FabHeaderProofs
  Bytes.BinFile Reader.Select Reader.BoxRead Reader.Level Reader.ReadSpec
  Reader.LayoutProofs Reader.ReadProofs Reader.IterProofs
  Plotfile.TextHeader Plotfile.HeaderSpec Plotfile.HeaderProofs
  Taste.Taste Taste.TasteSpec Plotfile.Abstract Taste.CompleteProofs Taste.DataProofs
  Writers.Colander Writers.ColanderSpec Writers.ColanderSpecProofs Writers.ColanderProofs
  Writers.ColanderLevelProofs Writers.ColanderHeaderProofs Writers.ColanderToolProofs Writers.Pipeline Writers.ColanderPipeline
  Writers.Combine Writers.CombineProofs Writers.RelayoutProofs Writers.CombineLevelProofs Writers.CombineHeaderProofs
  Writers.CombineToolProofs.

Lemma zip_rows_length v1 v2 : forall a b, length b = length a -> length (zip_rows v1 v2 a b) = length a.
Proof. induction a as [|x a IH]; intros [|y b] H; try discriminate; [reflexivity|]. cbn [zip_rows length]. rewrite IH; [reflexivity | cbn [length] in H; lia]. Qed.

Lemma zip_rows_in v1 v2 : forall a b r, In r (zip_rows v1 v2 a b) -> exists ra rb, In ra a /\ In rb b /\ r = merge_rows v1 v2 ra rb.
Proof.
  induction a as [|x a IH]; intros [|y b] r H; cbn [zip_rows] in H; try (destruct H; fail).
  destruct H as [<-|H]; [exists x, y; repeat split; left; reflexivity|].
  destruct (IH b r H) as (ra & rb & H1 & H2 & H3). exists ra, rb. repeat split; [right; exact H1 | right; exact H2 | exact H3].
Qed.

Section Good.
Variables (pf1 pf2 : plotfile) (v1 v2 : list Z) (names : list bytes).
Hypothesis Hg1 : good pf1.
Hypothesis Hg2 : good pf2.
Hypothesis Hmesh : same_mesh pf1 pf2.
Hypothesis Hv1 : Forall (fun i => 0 <= i < pf_nfields pf1) v1.
Hypothesis Hv2 : Forall (fun i => 0 <= i < pf_nfields pf2) v2.
Hypothesis Hnames : blen names = blen v1 + blen v2.

Let L := combine (pf_levels pf1) (pf_levels pf2).

Lemma levels_len : length (pf_levels pf2) = length (pf_levels pf1).
Proof. destruct Hmesh as [_ H]. symmetry. apply (Forall2_len _ _ _ H). Qed.

Lemma L_length : length L = length (pf_levels pf1).
Proof. unfold L. rewrite combine_length, levels_len. apply Nat.min_id. Qed.

Lemma L_in pp : In pp L -> In (fst pp) (pf_levels pf1) /\ In (snd pp) (pf_levels pf2) /\
  map (fun fb => (fab_lo fb, fab_hi fb)) (lv_fabs (pl_level (snd pp))) = map (fun fb => (fab_lo fb, fab_hi fb)) (lv_fabs (pl_level (fst pp))).
Proof.
  destruct Hmesh as [_ H]. unfold L. clear -H. induction H as [|a b l1 l2 Hab _ IH]; intros Hin; [destruct Hin|].
  cbn [combine] in Hin. destruct Hin as [<-|Hin].
  - cbn [fst snd]. repeat split; [left; reflexivity | left; reflexivity | exact Hab].
  - destruct (IH Hin) as (H1 & H2 & H3). repeat split; [right; exact H1 | right; exact H2 | exact H3].
Qed.

Theorem combine_spec_good : good (combine_spec v1 v2 names pf1 pf2).
Proof.
  destruct Hg1 as ((Hg & Hlen & Hnd & Hlv) & Hstd & (Hc1 & Hc2 & Hc3) & Hrows).
  destruct Hg2 as ((Hg' & Hlen' & Hnd' & Hlv') & _ & _ & Hrows').
  destruct Hg as (G1 & G2 & G3 & G4 & G5 & G6 & G7 & G8).
  unfold combine_spec. fold L.
  assert (HLlen : blen L = g_max_level (pf_g pf1) + 1) by (unfold blen; rewrite L_length; exact Hlen).
  split; [|split; [|split]].
  - (* wf_plotfile *)
    unfold wf_plotfile. cbn [pf_g pf_levels]. split; [|split; [|split]].
    + unfold wf_gheader, combined_gheader. cbn [g_ndims g_max_level g_time g_geo_low g_geo_high g_grid_hi g_dx].
      repeat split; try assumption; try lia.
      * apply Forall_firstn'. exact G6.
      * apply blen_firstn. lia.
      * apply Forall_firstn'. exact G8.
    + cbn [combined_gheader g_max_level]. unfold blen. rewrite map_length, combine_seq_length. exact HLlen.
    + rewrite map_map. cbn [combined_level pl_boxes lb_cell_dir].
      assert (G : forall (l : list (plevel * plevel)) s,
                 NoDup (map (fun x : nat * (plevel * plevel) => level_name (Z.of_nat (fst x))) (combine (seq s (length l)) l))).
      { induction l as [|a l IH]; intros s; [constructor|]. cbn [length seq combine map fst]. constructor; [|apply IH].
        intros Hin. apply in_map_iff in Hin. destruct Hin as ([k p] & E & Hkp). cbn [fst] in E.
        apply level_name_inj in E. apply in_combine_l in Hkp. apply in_seq in Hkp. lia. }
      apply G.
    + apply Forall_forall. intros pl' Hpl'. apply in_map_iff in Hpl'. destruct Hpl' as ([k pp] & <- & Hkpp).
      cbn [fst snd]. apply in_combine_r in Hkpp. destruct (L_in pp Hkpp) as (Hin1 & Hin2 & Hidx).
      rewrite Forall_forall in Hlv, Hlv'.
      destruct (Hlv _ Hin1) as (Hb & Hwl & Hne & Hncells & Hnc & Hmn & Hmx & Hmnf & Hmxf).
      destruct (Hlv' _ Hin2) as (Hb' & Hwl' & Hne' & Hncells' & Hnc' & Hmn' & Hmx' & Hmnf' & Hmxf').
      unfold wf_rows in Hrows, Hrows'. rewrite Forall_forall in Hrows, Hrows'.
      destruct (Hrows _ Hin1) as [Hr1 Hr2]. destruct (Hrows' _ Hin2) as [Hr1' Hr2'].
      destruct Hb as (B1 & B2 & B3).
      destruct (shapes_of_indexes _ _ Hidx) as [Hl Hshape].
      set (lvA := pl_level (fst pp)) in *. set (lvB := pl_level (snd pp)) in *.
      assert (HvA : forall i, (i < length (lv_fabs lvA))%nat -> Forall (fun j => 0 <= j < fab_nc (nth i (lv_fabs lvA) dummy_fab)) v1).
      { intros i Hi. rewrite Forall_forall in Hnc. rewrite (Hnc _ (nth_In _ _ Hi)). exact Hv1. }
      assert (HvB : forall i, (i < length (lv_fabs lvA))%nat -> Forall (fun j => 0 <= j < fab_nc (nth i (lv_fabs lvB) dummy_fab)) v2).
      { intros i Hi. rewrite Forall_forall in Hnc'. rewrite (Hnc' _ (nth_In _ _ ltac:(rewrite Hl; exact Hi))). exact Hv2. }
      unfold wf_plevel, combined_level. cbn [pl_boxes pl_level pl_mins pl_maxs combined_gheader g_ndims g_names fst snd].
      unfold pf_nfields at 1. cbn [pf_g combined_gheader g_names]. fold lvA lvB.
      change (merged_level lvA lvB v1 v2) with (merged_lv lvA lvB v1 v2).
      split; [|split; [|split; [|split; [|split; [|split; [|split; [|split]]]]]]].
      * unfold wf_lvboxes. cbn [lb_ncells lb_boxes lb_cell_dir]. split; [reflexivity|]. split; [exact B2 | apply level_name_no_slash].
      * exact (wf_merged lvA lvB Hwl Hwl' Hl v1 v2 HvA HvB Hshape).
      * unfold merged_lv, relaid, merged_fabs. cbn [lv_fabs]. destruct (lv_fabs lvA) as [|x l]; [congruence|]. cbn [length seq map]. discriminate.
      * cbn [lb_ncells]. rewrite <- B1, Hncells. unfold merged_lv, relaid, merged_fabs. cbn [lv_fabs]. rewrite blen_map. unfold blen. rewrite seq_length.
        reflexivity.
      * unfold merged_lv, relaid, merged_fabs. cbn [lv_fabs]. apply Forall_map. apply Forall_forall. intros i _.
        cbn [merge_fab fab_nc]. symmetry. exact Hnames.
      * rewrite zip_rows_length by (rewrite Hmn, Hmn'; exact Hl).
        unfold merged_lv, relaid, merged_fabs. cbn [lv_fabs]. rewrite map_length, seq_length. exact Hmn.
      * rewrite zip_rows_length by (rewrite Hmx, Hmx'; exact Hl).
        unfold merged_lv, relaid, merged_fabs. cbn [lv_fabs]. rewrite map_length, seq_length. exact Hmx.
      * apply Forall_forall. intros r Hr. destruct (zip_rows_in _ _ _ _ _ Hr) as (ra & rb & Ha & Hb2 & ->).
        unfold merge_rows. apply Forall_app. rewrite Forall_forall in Hmnf, Hmnf', Hr1, Hr1'. split; apply Forall_forall; intros t Ht.
        -- assert (Hin : In t ra).
           { apply (project_in v1 ra t); [|exact Ht]. eapply Forall_impl; [|exact Hv1]. cbv beta. intros i Hi.
             exact (eq_rect _ (fun z => 0 <= i < z) Hi _ (eq_sym (Hr1 ra Ha))). }
           specialize (Hmnf ra Ha). rewrite Forall_forall in Hmnf. apply Hmnf. exact Hin.
        -- assert (Hin : In t rb).
           { apply (project_in v2 rb t); [|exact Ht]. eapply Forall_impl; [|exact Hv2]. cbv beta. intros i Hi.
             exact (eq_rect _ (fun z => 0 <= i < z) Hi _ (eq_sym (Hr1' rb Hb2))). }
           specialize (Hmnf' rb Hb2). rewrite Forall_forall in Hmnf'. apply Hmnf'. exact Hin.
      * apply Forall_forall. intros r Hr. destruct (zip_rows_in _ _ _ _ _ Hr) as (ra & rb & Ha & Hb2 & ->).
        unfold merge_rows. apply Forall_app. rewrite Forall_forall in Hmxf, Hmxf', Hr2, Hr2'. split; apply Forall_forall; intros t Ht.
        -- assert (Hin : In t ra).
           { apply (project_in v1 ra t); [|exact Ht]. eapply Forall_impl; [|exact Hv1]. cbv beta. intros i Hi.
             exact (eq_rect _ (fun z => 0 <= i < z) Hi _ (eq_sym (Hr2 ra Ha))). }
           specialize (Hmxf ra Ha). rewrite Forall_forall in Hmxf. apply Hmxf. exact Hin.
        -- assert (Hin : In t rb).
           { apply (project_in v2 rb t); [|exact Ht]. eapply Forall_impl; [|exact Hv2]. cbv beta. intros i Hi.
             exact (eq_rect _ (fun z => 0 <= i < z) Hi _ (eq_sym (Hr2' rb Hb2))). }
           specialize (Hmxf' rb Hb2). rewrite Forall_forall in Hmxf'. apply Hmxf'. exact Hin.
  - (* std_dirs *)
    unfold std_dirs. cbn [pf_levels]. intros k pl' Hk'.
    rewrite nth_error_map in Hk'.
    destruct (nth_error (combine (seq 0 (length L)) L) k) as [[j pp]|] eqn:E; [|discriminate].
    injection Hk' as <-. destruct (nth_error_combine_seq' L 0%nat k (j, pp) E) as [Hj _]. cbn [fst snd] in *.
    subst j. reflexivity.
  - (* wf_counts *)
    unfold wf_counts. cbn [pf_g combined_gheader g_grid_hi g_max_level g_steps g_ndims].
    split; [|split; [|exact Hc3]].
    + apply blen_firstn. lia.
    + rewrite blen_firstn by lia. lia.
  - (* wf_rows *)
    unfold wf_rows. cbn [pf_levels]. apply Forall_forall. intros pl' Hpl'.
    apply in_map_iff in Hpl'. destruct Hpl' as ([k pp] & <- & _). cbn [fst snd combined_level pl_mins pl_maxs].
    unfold pf_nfields. cbn [pf_g combined_gheader g_names].
    split; apply Forall_forall; intros r Hr; destruct (zip_rows_in _ _ _ _ _ Hr) as (ra & rb & _ & _ & ->);
      unfold merge_rows, project; rewrite blen_app, !blen_map; symmetry; exact Hnames.
Qed.
End Good.

(* ------------------------------------------------------------------ *)
(** * chains of colander and combine runs *)
Inductive kop :=
| KStrain (vars : list bytes) (limit : option Z)
| KCombine (names1 names2 : list bytes) (other : plotfile).      (* the second input, itself a good plotfile *)

Definition kop_pure (o : kop) (pf : plotfile) : option plotfile :=
  match o with
  | KStrain vars limit => spec_step (vars, limit) pf
  | KCombine n1 n2 other => combine_pure n1 n2 pf other
  end.

Definition kop_tool (o : kop) (d : pdisk) : option pdisk :=
  match o with
  | KStrain vars limit => colander vars limit d
  | KCombine n1 n2 other => combine_tool n1 n2 d (pf_disk other)
  end.

Definition kop_ok (o : kop) : Prop := match o with KStrain _ _ => True | KCombine _ _ other => good other end.

Lemma kop_step o pf pf' : good pf -> kop_ok o -> kop_pure o pf = Some pf' ->
  kop_tool o (pf_disk pf) = Some (pf_disk pf') /\ good pf'.
Proof.
  intros Hg Hok H. destruct o as [vars limit | n1 n2 other]; cbn [kop_pure kop_tool kop_ok] in *.
  - exact (step_refines (vars, limit) pf pf' Hg H).
  - destruct Hg as (W1 & S1 & C1 & R1). destruct Hok as (W2 & S2 & C2 & R2). split.
    + exact (combine_pure_refines n1 n2 pf other pf' W1 W2 S1 R1 R2 H).
    + unfold combine_pure in H.
      destruct (same_mesh_b pf other) eqn:Em; cbn [obind] in H; [|discriminate].
      destruct ((3 <=? g_ndims (pf_g pf)) && (3 <=? g_ndims (pf_g other))) eqn:Ed; cbn [obind] in H; [|discriminate].
      destruct (negb (length n1 =? 0)%nat) eqn:E1; cbn [obind] in H; [|discriminate].
      destruct (negb (length n2 =? 0)%nat) eqn:E2; cbn [obind] in H; [|discriminate].
      destruct (omap_all (field_index (field_keys (g_names (pf_g pf)) [])) n1) as [v1|] eqn:Ev1; cbn [obind] in H; [|discriminate].
      destruct (omap_all (field_index (field_keys (g_names (pf_g other)) [])) n2) as [v2|] eqn:Ev2; cbn [obind] in H; [|discriminate].
      injection H as <-.
      destruct (omap_field_index_range _ _ _ Ev1) as [Hv1 Hl1]. destruct (omap_field_index_range _ _ _ Ev2) as [Hv2 Hl2].
      apply combine_spec_good.
      * exact (conj W1 (conj S1 (conj C1 R1))).
      * exact (conj W2 (conj S2 (conj C2 R2))).
      * apply same_mesh_b_spec. exact Em.
      * unfold pf_nfields. unfold blen in *. rewrite field_keys_length in Hv1. exact Hv1.
      * unfold pf_nfields. unfold blen in *. rewrite field_keys_length in Hv2. exact Hv2.
      * rewrite blen_app. unfold blen. rewrite Hl1, Hl2. reflexivity.
Qed.

Fixpoint kpure (ops : list kop) (pf : plotfile) : option plotfile :=
  match ops with
  | [] => Some pf
  | o :: ops' => match kop_pure o pf with Some pf' => kpure ops' pf' | None => None end
  end.

(* Every finite sequence of colander and combine runs whose pure counterpart is
   defined: the tool chain succeeds, ends on the directory image of the composed
   pure operations, and every intermediate directory is the image of a good
   plotfile. *)
Theorem strain_combine_pipeline : forall ops pf pf',
  good pf -> Forall kop_ok ops -> kpure ops pf = Some pf' ->
  run pdisk kop kop_tool ops (pf_disk pf) = Some (pf_disk pf') /\ good pf' /\
  Forall (fun d => exists p, good p /\ d = pf_disk p) (states pdisk kop kop_tool ops (pf_disk pf)).
Proof.
  induction ops as [|o ops IH]; intros pf pf' Hg Hok H; cbn [kpure run states] in *.
  - injection H as <-. split; [reflexivity|]. split; [exact Hg|].
    constructor; [exists pf; split; [exact Hg | reflexivity] | constructor].
  - apply Forall_cons_iff in Hok. destruct Hok as [Ho Hok].
    destruct (kop_pure o pf) as [pf1|] eqn:E; [|discriminate].
    destruct (kop_step o pf pf1 Hg Ho E) as [Ht Hg1]. rewrite Ht.
    destruct (IH pf1 pf' Hg1 Hok H) as (H1 & H2 & H3).
    split; [exact H1|]. split; [exact H2|]. constructor; [exists pf; split; [exact Hg | reflexivity] | exact H3].
Qed.

Print Assumptions strain_combine_pipeline.
