(* Pipelines over ALL THREE writers: every finite sequence of colander, combine
   and chef (user recipe) runs whose pure counterpart is defined succeeds on the
   directory image of a good plotfile, ends on the image of the composed pure
   operations, and every intermediate directory is the image of a good
   plotfile.  The new ingredient: a cooked plotfile is good (chef_spec_good) -
   its min/max tokens are float literals without commas (ChefTokenProofs).
   Standard library only, no axioms. *)
From AK Require Import Base.Prelude Bytes.Text Bytes.FabHeader Bytes.FabHeaderProofs
  Bytes.BinFile Bytes.Word Reader.Select Reader.BoxRead Reader.Level Reader.ReadSpec
  Reader.LayoutProofs Reader.ReadProofs Reader.IterProofs
  Plotfile.TextHeader Plotfile.HeaderSpec Plotfile.HeaderProofs
  Taste.Taste Taste.TasteSpec Plotfile.Abstract Taste.CompleteProofs Taste.DataProofs
  Writers.Colander Writers.ColanderSpec Writers.ColanderSpecProofs Writers.ColanderProofs
  Writers.ColanderLevelProofs Writers.ColanderHeaderProofs Writers.ColanderToolProofs Writers.Pipeline Writers.ColanderPipeline
  Writers.Combine Writers.CombineSpec Writers.CombineToolProofs Writers.CombinePipeline
  Writers.Chef Writers.ChefProofs Writers.ScatterProofs Writers.ChefLevelProofs Writers.RelistProofs
  Writers.ChefToolProofs Writers.ChefTokenProofs.

(* ------------------------------------------------------------------ *)
(** * the cooked plotfile of a good plotfile is good *)
Section ChefGood.
Variable recipe : nat -> list Z -> list Z -> bytes -> option (list bytes).
Variables (pf : plotfile) (keep : list Z) (outnames : list bytes).
Hypothesis Hgood : good pf.
Hypothesis Hkeep : Forall (fun i => 0 <= i < pf_nfields pf) keep.
Hypothesis Hfit : forall k pl, nth_error (pf_levels pf) k = Some pl -> recipe_fits recipe keep outnames k pl.

Let L := pf_levels pf.
Let lim := g_max_level (pf_g pf).

(* the facts about one level that the level theorems need *)
Lemma fits_facts k pl : nth_error L k = Some pl ->
  let lv := pl_level pl in let n := length (lv_fabs lv) in let new_of := new_of_lv recipe k lv in
  let fabi := fun i => nth i (lv_fabs lv) dummy_fab in
  wf_level lv = true /\
  (forall i, (i < n)%nat -> length (fab_lo (fabi i)) = 3%nat) /\
  (forall i, (i < n)%nat -> Forall (fun j => 0 <= j < fab_nc (fabi i)) keep) /\
  (forall i, (i < n)%nat -> recipe_ok recipe k (fabi i) (new_of i)) /\
  (forall i, (i < n)%nat -> new_of i <> [] \/ keep <> []) /\
  (forall i, (i < n)%nat -> blen (new_of i) + blen keep = blen outnames).
Proof.
  intros Hk lv n new_of fabi.
  destruct Hgood as ((_ & _ & _ & Hlv) & _). rewrite Forall_forall in Hlv.
  destruct (Hlv pl (nth_error_In _ _ Hk)) as (_ & Hwl & _ & _ & Hncs & _).
  pose proof (Hfit k pl Hk) as Hf.
  assert (Hfab : forall i, (i < n)%nat -> In (fabi i) (lv_fabs lv)) by (intros i Hi; apply nth_In; exact Hi).
  assert (Hnew : forall i, (i < n)%nat -> recipe k (fab_lo (fabi i)) (fab_hi (fabi i)) (fab_data (fabi i)) = Some (new_of i)).
  { intros i Hi. destruct (Hf _ (Hfab i Hi)) as (_ & new & Hr & _). unfold new_of, new_of_lv. cbv zeta. fold (fabi i). rewrite Hr. reflexivity. }
  split; [exact Hwl|]. split; [intros i Hi; exact (proj1 (Hf _ (Hfab i Hi)))|]. split.
  { intros i Hi. rewrite Forall_forall in Hncs. rewrite (Hncs _ (Hfab i Hi)). exact Hkeep. }
  split.
  { intros i Hi. split; [exact (Hnew i Hi)|]. destruct (Hf _ (Hfab i Hi)) as (_ & new & Hrec & Hsz & _).
    rewrite (Hnew i Hi) in Hrec. injection Hrec as <-. exact Hsz. }
  split.
  { intros i Hi. destruct (Hf _ (Hfab i Hi)) as (_ & new & Hrec & _ & Hn & _). rewrite (Hnew i Hi) in Hrec. injection Hrec as <-. exact Hn. }
  { intros i Hi. destruct (Hf _ (Hfab i Hi)) as (_ & new & Hrec & _ & _ & Hn). rewrite (Hnew i Hi) in Hrec. injection Hrec as <-. exact Hn. }
Qed.

Lemma comps_of_length k pl i : nth_error L k = Some pl -> (i < length (lv_fabs (pl_level pl)))%nat ->
  blen (comps_of (pl_level pl) keep (new_of_lv recipe k (pl_level pl)) i) = blen outnames.
Proof.
  intros Hk Hi. destruct (fits_facts k pl Hk) as (_ & _ & _ & _ & _ & Hno).
  unfold comps_of. rewrite blen_app, blen_map. rewrite <- (Hno i Hi). ring.
Qed.

Theorem chef_spec_good : good (chef_spec recipe keep outnames pf).
Proof.
  destruct Hgood as ((Hg & Hlen & Hnd & Hlv) & Hstd & (Hc1 & Hc2 & Hc3) & Hrows).
  destruct Hg as (G1 & G2 & G3 & G4 & G5 & G6 & G7 & G8).
  assert (Tok : forall rows : list (list bytes),
            Forall (Forall (fun t => float_ok t = true /\ no_char ","%char t)) (map (map word_token) rows)).
  { intros rows. apply Forall_map. apply Forall_forall. intros r _. apply Forall_map. apply Forall_forall. intros w _.
    split; [apply word_token_float_ok | apply word_token_no_comma]. }
  unfold good, chef_spec. fold L lim. split; [|split; [|split]].
  - (* wf_plotfile *)
    unfold wf_plotfile. cbn [pf_g pf_levels]. split; [|split; [|split]].
    + unfold wf_gheader, strained_gheader. cbn [g_ndims g_max_level g_time g_geo_low g_geo_high g_grid_hi g_dx].
      repeat split; try assumption; try (unfold lim; lia).
      * apply Forall_firstn'. exact G6.
      * apply blen_firstn. unfold lim. lia.
      * apply Forall_firstn'. exact G8.
    + cbn [strained_gheader g_max_level]. unfold blen. rewrite map_length, combine_seq_length. exact Hlen.
    + rewrite map_map. cbn [cooked_plevel strained_level pl_boxes lb_cell_dir].
      assert (G : forall (l : list plevel) s,
                 NoDup (map (fun x : nat * plevel => level_name (Z.of_nat (fst x))) (combine (seq s (length l)) l))).
      { induction l as [|a l IH]; intros s; [constructor|]. cbn [length seq combine map fst]. constructor; [|apply IH].
        intros Hin. apply in_map_iff in Hin. destruct Hin as ([k p] & E & Hkp). cbn [fst] in E.
        apply level_name_inj in E. apply in_combine_l in Hkp. apply in_seq in Hkp. lia. }
      apply G.
    + apply Forall_forall. intros pl' Hpl'. apply in_map_iff in Hpl'. destruct Hpl' as ([k pl] & <- & Hkpl).
      cbn [fst snd].
      destruct (In_nth_error _ _ Hkpl) as [q Hq]. destruct (nth_error_combine_seq' L 0%nat q (k, pl) Hq) as [Hkq Hnth].
      cbn [fst snd Nat.add] in Hkq, Hnth. subst q.
      destruct (fits_facts k pl Hnth) as (Hwl & H3 & Hk & Hr & Hne & Hno). cbv zeta in *.
      rewrite Forall_forall in Hlv. destruct (Hlv pl (nth_error_In _ _ Hnth)) as (Hb & _ & Hnefabs & Hncells & _).
      destruct Hb as (B1 & B2 & B3).
      set (lv := pl_level pl) in *. set (n := length (lv_fabs lv)) in *. set (new_of := new_of_lv recipe k lv) in *.
      assert (Hwc : wf_level (cooked_lv lv keep new_of) = true)
        by exact (wf_cooked recipe k lv Hwl keep (blen outnames) new_of H3 Hk Hr Hne Hno).
      unfold wf_plevel, cooked_plevel. cbv zeta. fold lv. fold n. fold new_of.
      cbn [pl_boxes pl_level pl_mins pl_maxs strained_level strained_gheader g_ndims].
      unfold pf_nfields at 1. cbn [pf_g strained_gheader g_names].
      assert (Hfabs : lv_fabs (sorted_lv (cooked_lv lv keep new_of)) = map (cooked_fab lv keep new_of) (seq 0 n)) by reflexivity.
      split; [|split; [|split; [|split; [|split; [|split; [|split; [|split]]]]]]].
      * unfold wf_lvboxes. cbn [lb_ncells lb_boxes lb_cell_dir]. split; [reflexivity|]. split; [exact B2 | apply level_name_no_slash].
      * exact (wf_sorted _ Hwc).
      * rewrite Hfabs. destruct n as [|n'] eqn:En; [|discriminate]. exfalso. apply Hnefabs. apply length_zero_iff_nil. exact En.
      * cbn [lb_ncells]. rewrite Hfabs. unfold blen at 2. rewrite map_length, seq_length. rewrite <- B1. exact Hncells.
      * rewrite Hfabs. apply Forall_map. apply Forall_forall. intros i Hi. apply in_seq in Hi.
        unfold cooked_fab. cbn [cooked fab_nc]. apply Hno. lia.
      * rewrite Hfabs, !map_length. reflexivity.
      * rewrite Hfabs, !map_length. reflexivity.
      * rewrite <- (map_map (fun i => map comp_min (comps_of lv keep new_of i)) (map word_token)). apply Tok.
      * rewrite <- (map_map (fun i => map comp_max (comps_of lv keep new_of i)) (map word_token)). apply Tok.
  - (* std_dirs *)
    unfold std_dirs. cbn [pf_levels]. intros k pl' Hk'.
    rewrite nth_error_map in Hk'.
    destruct (nth_error (combine (seq 0 (length L)) L) k) as [[j pl]|] eqn:E; [|discriminate].
    injection Hk' as <-. destruct (nth_error_combine_seq' L 0%nat k (j, pl) E) as [Hj _]. cbn [fst snd] in *.
    subst j. reflexivity.
  - (* wf_counts *)
    unfold wf_counts. cbn [pf_g strained_gheader g_grid_hi g_max_level g_steps g_ndims].
    split; [|split; [|exact Hc3]].
    + apply blen_firstn. unfold lim. lia.
    + rewrite blen_firstn by (unfold lim; lia). lia.
  - (* wf_rows *)
    unfold wf_rows. cbn [pf_levels]. apply Forall_forall. intros pl' Hpl'.
    apply in_map_iff in Hpl'. destruct Hpl' as ([k pl] & <- & Hkpl). cbn [fst snd cooked_plevel pl_mins pl_maxs].
    destruct (In_nth_error _ _ Hkpl) as [q Hq]. destruct (nth_error_combine_seq' L 0%nat q (k, pl) Hq) as [Hkq Hnth].
    cbn [fst snd Nat.add] in Hkq, Hnth. subst q.
    unfold pf_nfields. cbn [pf_g strained_gheader g_names].
    split; apply Forall_map; apply Forall_forall; intros i Hi; apply in_seq in Hi; rewrite !blen_map;
      apply (comps_of_length k pl i Hnth); lia.
Qed.
End ChefGood.

Print Assumptions chef_spec_good.

(* ------------------------------------------------------------------ *)
(** * sequences over the three writers *)
Inductive fop :=
| FStrain (vars : list bytes) (limit : option Z)
| FCombine (names1 names2 : list bytes) (other : plotfile)       (* the second input, itself a good plotfile *)
| FCook (recipe : nat -> list Z -> list Z -> bytes -> option (list bytes)) (keep : list Z) (outnames : list bytes).

(* when cooking is defined: a 3D plotfile, kept indices in range, and the recipe answers on every box with
   components of the box's size, kept + new components being as many as the output names *)
Definition cook_defined recipe keep outnames (pf : plotfile) : bool :=
  (g_ndims (pf_g pf) =? 3) &&
  forallb (fun i => (0 <=? i) && (i <? pf_nfields pf)) keep &&
  forallb (fun kl : nat * plevel => recipe_fitsb recipe keep outnames (fst kl) (snd kl))
          (combine (seq 0 (length (pf_levels pf))) (pf_levels pf)).

Definition fop_pure (o : fop) (pf : plotfile) : option plotfile :=
  match o with
  | FStrain vars limit => spec_step (vars, limit) pf
  | FCombine n1 n2 other => combine_pure n1 n2 pf other
  | FCook recipe keep outnames => if cook_defined recipe keep outnames pf then Some (chef_spec recipe keep outnames pf) else None
  end.

Definition fop_tool (o : fop) (d : pdisk) : option pdisk :=
  match o with
  | FStrain vars limit => colander vars limit d
  | FCombine n1 n2 other => combine_tool n1 n2 d (pf_disk other)
  | FCook recipe keep outnames => chef recipe keep outnames d
  end.

Definition fop_ok (o : fop) : Prop := match o with FCombine _ _ other => good other | _ => True end.

Lemma nth_error_combine_seq0 {A} : forall (l : list A) s k x, nth_error l k = Some x ->
  nth_error (combine (seq s (length l)) l) k = Some ((s + k)%nat, x).
Proof.
  induction l as [|a l IH]; intros s k x H; [destruct k; discriminate|].
  cbn [length seq combine]. destruct k as [|k]; cbn [nth_error] in *.
  - injection H as <-. rewrite Nat.add_0_r. reflexivity.
  - rewrite (IH (S s) k x H). f_equal. f_equal. lia.
Qed.

Lemma fop_step o pf pf' : good pf -> fop_ok o -> fop_pure o pf = Some pf' ->
  fop_tool o (pf_disk pf) = Some (pf_disk pf') /\ good pf'.
Proof.
  intros Hg Hok H. destruct o as [vars limit | n1 n2 other | recipe keep outnames]; cbn [fop_pure fop_tool fop_ok] in *.
  - exact (kop_step (KStrain vars limit) pf pf' Hg I H).
  - exact (kop_step (KCombine n1 n2 other) pf pf' Hg Hok H).
  - destruct (cook_defined recipe keep outnames pf) eqn:E; [|discriminate]. injection H as <-.
    unfold cook_defined in E. apply andb_true_iff in E. destruct E as [E Efit]. apply andb_true_iff in E. destruct E as [End Ekeep].
    apply Z.eqb_eq in End.
    assert (Hkeep : Forall (fun i => 0 <= i < pf_nfields pf) keep).
    { apply Forall_forall. intros i Hi. rewrite forallb_forall in Ekeep. specialize (Ekeep i Hi).
      apply andb_true_iff in Ekeep. destruct Ekeep as [E1 E2]. apply Z.leb_le in E1. apply Z.ltb_lt in E2. lia. }
    assert (Hfit : forall k pl, nth_error (pf_levels pf) k = Some pl -> recipe_fits recipe keep outnames k pl).
    { intros k pl Hk. apply recipe_fitsb_spec. rewrite forallb_forall in Efit.
      apply (Efit (k, pl)). apply (nth_error_In _ k). rewrite (nth_error_combine_seq0 _ 0%nat k pl Hk). reflexivity. }
    split.
    + destruct Hg as (W & S & _ & _). pose proof W as W'. destruct W' as ((_ & G2 & _) & _).
      exact (chef_refines recipe keep outnames pf W S End G2 Hkeep Hfit).
    + exact (chef_spec_good recipe pf keep outnames Hg Hkeep Hfit).
Qed.

Fixpoint fpure (ops : list fop) (pf : plotfile) : option plotfile :=
  match ops with
  | [] => Some pf
  | o :: ops' => match fop_pure o pf with Some pf' => fpure ops' pf' | None => None end
  end.

(* Every finite sequence of colander, combine and chef runs whose pure counterpart is defined: the tool chain succeeds,
   ends on the directory image of the composed pure operations, and every intermediate directory is the image of a
   good plotfile. *)
Theorem full_pipeline : forall ops pf pf',
  good pf -> Forall fop_ok ops -> fpure ops pf = Some pf' ->
  run pdisk fop fop_tool ops (pf_disk pf) = Some (pf_disk pf') /\ good pf' /\
  Forall (fun d => exists p, good p /\ d = pf_disk p) (states pdisk fop fop_tool ops (pf_disk pf)).
Proof.
  induction ops as [|o ops IH]; intros pf pf' Hg Hok H; cbn [fpure run states] in *.
  - injection H as <-. split; [reflexivity|]. split; [exact Hg|].
    constructor; [exists pf; split; [exact Hg | reflexivity] | constructor].
  - apply Forall_cons_iff in Hok. destruct Hok as [Ho Hok].
    destruct (fop_pure o pf) as [pf1|] eqn:E; [|discriminate].
    destruct (fop_step o pf pf1 Hg Ho E) as [Ht Hg1]. rewrite Ht.
    destruct (IH pf1 pf' Hg1 Hok H) as (H1 & H2 & H3).
    split; [exact H1|]. split; [exact H2|]. constructor; [exists pf; split; [exact Hg | reflexivity] | exact H3].
Qed.

(* ... and every one of these directories is accepted by the validator *)
Corollary full_outputs_taste_good : forall close ops pf pf' o limit lim,
  good pf -> Forall fop_ok ops -> fpure ops pf = Some pf' ->
  eff_limit (g_max_level (pf_g pf')) limit = Some lim -> 0 <= lim ->
  (t_data o && negb (t_headers o && t_shape o)) = false ->
  taste_good close o limit (pf_disk pf') = true.
Proof.
  intros close ops pf pf' o limit lim Hg Hok H Heff Hlim Ho.
  destruct (full_pipeline ops pf pf' Hg Hok H) as (_ & ((Hwf & _) & _)).
  apply (taste_complete_nodata close pf' o limit lim Hwf Heff Hlim Ho).
Qed.

Print Assumptions full_pipeline.
Print Assumptions full_outputs_taste_good.
