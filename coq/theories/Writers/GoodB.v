(* 'good' (the hypothesis of the tool-level theorems on a plotfile) as a
   boolean, sound with respect to the proposition: the correspondence check
   evaluates it on every generated plotfile, so that the theorem instances it
   compares are instances whose hypotheses hold.
   Standard library only, no axioms. *)
From AK Require Import Base.Prelude Bytes.Text Bytes.FabHeader Bytes.FabHeaderProofs
  Bytes.BinFile Reader.Select Reader.BoxRead Reader.Level Reader.ReadSpec Reader.IterProofs
  Plotfile.TextHeader Plotfile.HeaderSpec Plotfile.HeaderProofs Taste.Taste Plotfile.Abstract
  Writers.Colander Writers.ColanderSpec Writers.ColanderLevelProofs Writers.ColanderPipeline.

Lemma forallb_Forall {A} (f : A -> bool) (P : A -> Prop) (l : list A) :
  (forall x, f x = true -> P x) -> forallb f l = true -> Forall P l.
Proof.
  intros H Hl. apply Forall_forall. intros x Hx. rewrite forallb_forall in Hl. apply H. apply Hl. exact Hx.
Qed.

Definition no_charb (c : ascii) (s : bytes) : bool := forallb (fun x => negb (Ascii.eqb x c)) s.
Lemma no_charb_spec c s : no_charb c s = true -> no_char c s.
Proof.
  unfold no_charb, no_char. apply forallb_Forall. intros x Hx E. subst x. rewrite Ascii.eqb_refl in Hx. discriminate.
Qed.

Definition nonemptyb {A} (l : list A) : bool := negb (length l =? 0)%nat.
Lemma nonemptyb_spec {A} (l : list A) : nonemptyb l = true -> l <> [].
Proof. unfold nonemptyb. destruct l; [discriminate | intros _; discriminate]. Qed.

Definition wf_gheaderb (g : gheader) : bool :=
  (0 <=? g_ndims g) && (0 <=? g_max_level g) && float_ok (g_time g) &&
  forallb float_ok (g_geo_low g) && forallb float_ok (g_geo_high g) &&
  forallb nonemptyb (g_grid_hi g) && (blen (g_dx g) =? g_max_level g + 1) &&
  forallb (forallb float_ok) (g_dx g).

Lemma wf_gheaderb_spec g : wf_gheaderb g = true -> wf_gheader g.
Proof.
  unfold wf_gheaderb, wf_gheader. intros H.
  do 7 (apply andb_true_iff in H; destruct H as [H ?]).
  repeat split.
  - apply Z.leb_le. assumption.
  - apply Z.leb_le. assumption.
  - assumption.
  - eapply forallb_Forall; [|eassumption]. auto.
  - eapply forallb_Forall; [|eassumption]. auto.
  - eapply forallb_Forall; [|eassumption]. intros x. apply nonemptyb_spec.
  - apply Z.eqb_eq. assumption.
  - eapply forallb_Forall; [|eassumption]. intros x Hx. eapply forallb_Forall; [|exact Hx]. auto.
Qed.

Definition wf_lvboxesb (ndims : Z) (b : lvboxes) : bool :=
  (lb_ncells b =? blen (lb_boxes b)) &&
  forallb (fun box => (blen box =? ndims) && forallb (fun lh : token * token => float_ok (fst lh) && float_ok (snd lh)) box) (lb_boxes b) &&
  no_charb "/"%char (lb_cell_dir b).

Lemma wf_lvboxesb_spec nd b : wf_lvboxesb nd b = true -> wf_lvboxes nd b.
Proof.
  unfold wf_lvboxesb, wf_lvboxes. intros H.
  apply andb_true_iff in H. destruct H as [H H3]. apply andb_true_iff in H. destruct H as [H1 H2].
  split; [apply Z.eqb_eq; exact H1|]. split; [|apply no_charb_spec; exact H3].
  eapply forallb_Forall; [|exact H2]. intros box Hb. apply andb_true_iff in Hb. destruct Hb as [Hb1 Hb2].
  split; [apply Z.eqb_eq; exact Hb1|]. eapply forallb_Forall; [|exact Hb2]. intros lh Hlh. apply andb_true_iff in Hlh. exact Hlh.
Qed.

Definition tok_okb (t : token) : bool := float_ok t && no_charb ","%char t.

Definition wf_plevelb (ndims nf : Z) (pl : plevel) : bool :=
  wf_lvboxesb ndims (pl_boxes pl) && wf_level (pl_level pl) && nonemptyb (lv_fabs (pl_level pl)) &&
  (lb_ncells (pl_boxes pl) =? blen (lv_fabs (pl_level pl))) &&
  forallb (fun fb => fab_nc fb =? nf) (lv_fabs (pl_level pl)) &&
  (length (pl_mins pl) =? length (lv_fabs (pl_level pl)))%nat && (length (pl_maxs pl) =? length (lv_fabs (pl_level pl)))%nat &&
  forallb (forallb tok_okb) (pl_mins pl) && forallb (forallb tok_okb) (pl_maxs pl).

Lemma tok_rows_spec rows : forallb (forallb tok_okb) rows = true ->
  Forall (Forall (fun t => float_ok t = true /\ no_char ","%char t)) rows.
Proof.
  apply forallb_Forall. intros r Hr. eapply forallb_Forall; [|exact Hr]. intros t Ht.
  unfold tok_okb in Ht. apply andb_true_iff in Ht. destruct Ht as [H1 H2]. split; [exact H1 | apply no_charb_spec; exact H2].
Qed.

Lemma wf_plevelb_spec nd nf pl : wf_plevelb nd nf pl = true -> wf_plevel nd nf pl.
Proof.
  unfold wf_plevelb, wf_plevel. intros H.
  do 8 (apply andb_true_iff in H; destruct H as [H ?]).
  split; [apply wf_lvboxesb_spec; assumption|]. split; [assumption|]. split; [apply nonemptyb_spec; assumption|].
  split; [apply Z.eqb_eq; assumption|].
  split; [eapply forallb_Forall; [|eassumption]; intros fb Hfb; apply Z.eqb_eq; exact Hfb|].
  split; [apply Nat.eqb_eq; assumption|]. split; [apply Nat.eqb_eq; assumption|].
  split; apply tok_rows_spec; assumption.
Qed.

Definition wf_plotfileb (pf : plotfile) : bool :=
  wf_gheaderb (pf_g pf) && (blen (pf_levels pf) =? g_max_level (pf_g pf) + 1) &&
  distinct_names (map (fun pl => lb_cell_dir (pl_boxes pl)) (pf_levels pf)) &&
  forallb (wf_plevelb (g_ndims (pf_g pf)) (pf_nfields pf)) (pf_levels pf).

Lemma wf_plotfileb_spec pf : wf_plotfileb pf = true -> wf_plotfile pf.
Proof.
  unfold wf_plotfileb, wf_plotfile. intros H.
  do 3 (apply andb_true_iff in H; destruct H as [H ?]).
  split; [apply wf_gheaderb_spec; assumption|]. split; [apply Z.eqb_eq; assumption|].
  split; [apply distinct_names_NoDup; assumption|].
  eapply forallb_Forall; [|eassumption]. intros pl. apply wf_plevelb_spec.
Qed.

Definition std_dirsb (pf : plotfile) : bool :=
  forallb (fun kl : nat * plevel => bytes_eqb (lb_cell_dir (pl_boxes (snd kl))) (level_name (Z.of_nat (fst kl))))
          (combine (seq 0 (length (pf_levels pf))) (pf_levels pf)).

Lemma nth_error_combine_seq_in {A} : forall (l : list A) s k x, nth_error l k = Some x ->
  In ((s + k)%nat, x) (combine (seq s (length l)) l).
Proof.
  induction l as [|a l IH]; intros s k x H; [destruct k; discriminate|].
  cbn [length seq combine]. destruct k as [|k]; cbn [nth_error] in H.
  - injection H as <-. left. rewrite Nat.add_0_r. reflexivity.
  - right. replace (s + S k)%nat with (S s + k)%nat by lia. apply IH. exact H.
Qed.

Lemma std_dirsb_spec pf : std_dirsb pf = true -> std_dirs pf.
Proof.
  unfold std_dirsb, std_dirs. intros H k pl Hk. rewrite forallb_forall in H.
  specialize (H (k, pl) (nth_error_combine_seq_in _ 0%nat k pl Hk)). cbn [fst snd] in H.
  apply bytes_eqb_iff. exact H.
Qed.

Definition wf_countsb (pf : plotfile) : bool :=
  let g := pf_g pf in
  (blen (g_grid_hi g) =? g_max_level g + 1) && (g_max_level g + 1 <=? blen (g_steps g)) &&
  ((g_ndims g =? 2) || (g_ndims g =? 3)).

Lemma wf_countsb_spec pf : wf_countsb pf = true -> wf_counts pf.
Proof.
  unfold wf_countsb, wf_counts. cbv zeta. intros H.
  apply andb_true_iff in H. destruct H as [H H3]. apply andb_true_iff in H. destruct H as [H1 H2].
  split; [apply Z.eqb_eq; exact H1|]. split; [apply Z.leb_le; exact H2|].
  apply orb_true_iff in H3. destruct H3 as [H3|H3]; apply Z.eqb_eq in H3; [left | right]; exact H3.
Qed.

Definition wf_rowsb (pf : plotfile) : bool :=
  forallb (fun pl => forallb (fun r : list token => blen r =? pf_nfields pf) (pl_mins pl) &&
                     forallb (fun r : list token => blen r =? pf_nfields pf) (pl_maxs pl)) (pf_levels pf).

Lemma wf_rowsb_spec pf : wf_rowsb pf = true -> wf_rows pf.
Proof.
  unfold wf_rowsb, wf_rows. apply forallb_Forall. intros pl H. apply andb_true_iff in H. destruct H as [H1 H2].
  split; (eapply forallb_Forall; [|eassumption]); intros r Hr; apply Z.eqb_eq; exact Hr.
Qed.

Definition goodb (pf : plotfile) : bool := wf_plotfileb pf && std_dirsb pf && wf_countsb pf && wf_rowsb pf.

Theorem goodb_sound pf : goodb pf = true -> good pf.
Proof.
  unfold goodb, good. intros H. do 3 (apply andb_true_iff in H; destruct H as [H ?]).
  split; [apply wf_plotfileb_spec; assumption|]. split; [apply std_dirsb_spec; assumption|].
  split; [apply wf_countsb_spec; assumption | apply wf_rowsb_spec; assumption].
Qed.

Print Assumptions goodb_sound.
