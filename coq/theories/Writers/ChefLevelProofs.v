(* chef, one level: Chef.cook's per-file tasks (each binary file scanned front
   to back) and the mapping of the per-box results back to box order, on the
   binary files of ANY well-formed 3D level (any box -> file distribution, any
   on-disk order): the new files are the images of the cooked boxes in the same
   layout, and the offsets, minima and maxima tables are those of the cooked
   boxes IN BOX ORDER.
   Standard library only, no axioms. *)
From AK Require Import Base.Prelude Bytes.Text Bytes.FabHeader Bytes.FabHeaderProofs
  Bytes.BinFile Bytes.Word Bytes.WordProofs Reader.Select Reader.BoxRead Reader.Level Reader.ReadSpec
  Reader.LayoutProofs Reader.ReadProofs Reader.IterProofs
  Plotfile.TextHeader Plotfile.HeaderSpec Plotfile.HeaderProofs
  Taste.Taste Taste.TasteSpec Plotfile.Abstract Taste.CompleteProofs Taste.DataProofs
  Writers.Colander Writers.ColanderSpec Writers.ColanderSpecProofs Writers.ColanderProofs
  Writers.ColanderLevelProofs Writers.ColanderToolProofs Writers.Chef Writers.ChefProofs Writers.ScatterProofs.
From Coq Require Import Permutation Sorted.

(* ------------------------------------------------------------------ *)
(** * a cooked box is a well-formed box *)
Lemma cooked_ok keep new fb : fab_ok fb = true ->
  Forall (fun i => 0 <= i < fab_nc fb) keep -> Forall (fun c => blen c = 8 * fab_cells fb) new ->
  fab_ok (cooked keep new fb) = true.
Proof.
  intros Hok Hk Hn.
  assert (Hlen : blen (fab_data (cooked keep new fb)) = 8 * fab_cells fb * (blen new + blen keep)).
  { cbn [cooked fab_data]. rewrite (blen_concat_const _ (8 * fab_cells fb)).
    - rewrite blen_app, blen_map. ring.
    - apply Forall_app. split; [|exact Hn]. apply Forall_map. revert Hk. apply Forall_impl. intros i Hi.
      apply blen_fab_comp; assumption. }
  pose proof Hok as H. unfold fab_ok in H.
  apply andb_true_iff in H. destruct H as [H H5].
  apply andb_true_iff in H. destruct H as [H H4].
  apply andb_true_iff in H. destruct H as [H H3].
  apply andb_true_iff in H. destruct H as [H1 H2].
  unfold fab_ok. change (fab_cells (cooked keep new fb)) with (fab_cells fb).
  change (fab_shape (cooked keep new fb)) with (fab_shape fb). rewrite Hlen.
  cbn [cooked fab_lo fab_hi fab_nc]. rewrite H1, H2, H3. cbn [andb].
  pose proof (blen_nonneg keep) as Bk. pose proof (blen_nonneg new) as Bn.
  apply andb_true_iff. split; [apply Z.leb_le; apply Z.add_nonneg_nonneg; assumption | apply Z.eqb_refl].
Qed.

Lemma count_nat_perm x : forall l l', Permutation l l' -> count_nat x l = count_nat x l'.
Proof. induction 1; cbn [count_nat]; lia. Qed.

(* ------------------------------------------------------------------ *)
Section ChefLevel.
Variable recipe : nat -> list Z -> list Z -> bytes -> option (list bytes).
Variable k : nat.                       (* the level number handed to the recipe *)
Variable lv : level.
Hypothesis Hwf : wf_level lv = true.
Variable keep : list Z.
Variable nout : Z.
Variable new_of : nat -> list bytes.    (* what the recipe returns for box i *)

Let n := length (lv_fabs lv).
Let cells := cells_or_nil lv.
Let fabi (i : nat) : fab := nth i (lv_fabs lv) dummy_fab.

Hypothesis H3 : forall i, (i < n)%nat -> length (fab_lo (fabi i)) = 3%nat.
Hypothesis Hkeep : forall i, (i < n)%nat -> Forall (fun j => 0 <= j < fab_nc (fabi i)) keep.
Hypothesis Hrec : forall i, (i < n)%nat -> recipe_ok recipe k (fabi i) (new_of i).
Hypothesis Hne : forall i, (i < n)%nat -> new_of i <> [] \/ keep <> [].
Hypothesis Hnout : forall i, (i < n)%nat -> blen (new_of i) + blen keep = nout.

Variable c : cellh.
Hypothesis Hidx : c_indexes c = map (fun fb => (fab_lo fb, fab_hi fb)) (lv_fabs lv).
Hypothesis Hfiles : c_files c = map fst cells.
Hypothesis Hoffs : c_offsets c = map snd cells.

Definition cooked_fab (i : nat) : fab := cooked keep (new_of i) (fabi i).
Definition cooked_lv : level := {| lv_fabs := map cooked_fab (seq 0 n); lv_files := lv_files lv |}.

Lemma cooked_length : length (lv_fabs cooked_lv) = n.
Proof. cbn [cooked_lv lv_fabs]. rewrite map_length, seq_length. reflexivity. Qed.

Lemma fabi_ok i : (i < n)%nat -> fab_ok (fabi i) = true.
Proof.
  intros Hi. pose proof (wf_level_fabs_ok lv Hwf) as H. rewrite forallb_forall in H. apply H. apply nth_In. exact Hi.
Qed.

Theorem wf_cooked : wf_level cooked_lv = true.
Proof.
  pose proof Hwf as H. unfold wf_level in H |- *.
  apply andb_true_iff in H. destruct H as [H H5].
  apply andb_true_iff in H. destruct H as [H H4].
  apply andb_true_iff in H. destruct H as [H H3'].
  apply andb_true_iff in H. destruct H as [H1 H2].
  rewrite cooked_length. cbn [cooked_lv lv_files]. fold n in H4, H5. rewrite H2, H3', H4, H5, !andb_true_r.
  cbn [lv_fabs]. apply forallb_forall. intros fb Hfb. apply in_map_iff in Hfb. destruct Hfb as (i & <- & Hi).
  apply in_seq in Hi. destruct (Hrec i ltac:(lia)) as [_ Hsz].
  apply cooked_ok; [apply fabi_ok; lia | apply Hkeep; lia | exact Hsz].
Qed.

Lemma nth_cooked i : (i < n)%nat -> nth i (lv_fabs cooked_lv) dummy_fab = cooked_fab i.
Proof.
  intros Hi. cbn [cooked_lv lv_fabs]. rewrite (nth_indep _ dummy_fab (cooked_fab 0%nat)) by (rewrite map_length, seq_length; exact Hi).
  rewrite (map_nth cooked_fab), seq_nth by exact Hi. reflexivity.
Qed.

(* the cooked boxes of a file, in its on-disk order *)
Lemma file_fabs_cooked ids : Forall (fun i => (i < n)%nat) ids ->
  file_fabs cooked_lv ids
  = map (fun fn => cooked keep (snd fn) (fst fn)) (combine (file_fabs lv ids) (map new_of ids)).
Proof.
  induction ids as [|i ids IH]; intros H; [reflexivity|].
  apply Forall_cons_iff in H. destruct H as [Hi H].
  unfold file_fabs in *. cbn [map combine fst snd]. rewrite (nth_cooked i Hi). unfold cooked_fab, fabi.
  f_equal. apply IH. exact H.
Qed.

Lemma ids_lt name ids : In (name, ids) (lv_files lv) -> Forall (fun i => (i < n)%nat) ids.
Proof.
  intros Hin. destruct (wf_level_parts lv Hwf) as (_ & Hlt & _). apply Forall_forall. intros i Hi.
  apply Hlt. apply (ids_in_concat lv name ids Hin). exact Hi.
Qed.

(* ---- one file ---- *)
Definition recs_of (ids : list nat) : list (Z * list bytes * list bytes) :=
  map (fun j => (fab_offset (file_fabs cooked_lv ids) j,
                 map comp_min (map (fab_comp (fabi (nth j ids 0%nat))) keep ++ new_of (nth j ids 0%nat)),
                 map comp_max (map (fab_comp (fabi (nth j ids 0%nat))) keep ++ new_of (nth j ids 0%nat))))
      (seq 0 (length ids)).

Lemma scan_hyps : forall l, (forall i, In i l -> (i < n)%nat) ->
  Forall2 (fun fb new => fab_ok fb = true /\ length (fab_lo fb) = 3%nat /\
                         Forall (fun i => 0 <= i < fab_nc fb) keep /\
                         recipe_ok recipe k fb new /\ (new <> [] \/ keep <> []))
          (map (fun i => nth i (lv_fabs lv) dummy_fab) l) (map new_of l).
Proof.
  induction l as [|i l IH]; intros Hlt; [constructor|]. cbn [map]. constructor.
  - assert (Hi : (i < n)%nat) by (apply Hlt; left; reflexivity).
    fold (fabi i). destruct (Hrec i Hi) as [R1 R2].
    split; [apply fabi_ok; exact Hi|]. split; [apply H3; exact Hi|]. split; [apply Hkeep; exact Hi|].
    split; [split; [exact R1 | exact R2] | apply Hne; exact Hi].
  - apply IH. intros x Hx. apply Hlt. right. exact Hx.
Qed.

Theorem scan_one_file : forall name ids, In (name, ids) (lv_files lv) ->
  knife_scan recipe k (S (length (encode_file (file_fabs lv ids)))) (encode_file (file_fabs lv ids)) 0 keep []
  = Some (encode_file (file_fabs cooked_lv ids), recs_of ids).
Proof.
  intros name ids Hin. pose proof (ids_lt name ids Hin) as Hlt. rewrite Forall_forall in Hlt.
  set (fs := file_fabs lv ids). set (news := map new_of ids).
  assert (HF : Forall2 (fun fb new => fab_ok fb = true /\ length (fab_lo fb) = 3%nat /\
                          Forall (fun i => 0 <= i < fab_nc fb) keep /\
                          recipe_ok recipe k fb new /\ (new <> [] \/ keep <> [])) fs news).
  { unfold fs, news, file_fabs. apply scan_hyps. exact Hlt. }
  assert (Hfuel : (length fs < S (length (encode_file fs)))%nat).
  { assert (G : forall l : list fab, (length l <= length (encode_file l))%nat).
    { induction l as [|fb l IHl]; [cbn; lia|]. rewrite encode_file_cons, app_length. cbn [length].
      pose proof (fab_size_pos fb) as Hp. unfold fab_size, blen in Hp. lia. }
    specialize (G fs). lia. }
  pose proof (knife_scan_spec recipe k fs news keep _ [] [] HF Hfuel) as Hs. cbv zeta in Hs.
  cbn [app] in Hs. change (blen []) with 0 in Hs. rewrite Hs.
  unfold recs_of. rewrite (file_fabs_cooked ids (ids_lt name ids Hin)). fold fs news.
  f_equal. f_equal.
  assert (Hl : length fs = length ids) by apply file_fabs_length.
  rewrite Hl.
  assert (Hcomb : forall l0 : list nat, combine (seq 0 (length l0)) (combine (map (fun i => nth i (lv_fabs lv) dummy_fab) l0) (map new_of l0))
                  = map (fun j => (j, (fabi (nth j l0 0%nat), new_of (nth j l0 0%nat)))) (seq 0 (length l0))).
  { intros l0. rewrite combine_map_both.
    rewrite (map_via_seq 0%nat (fun x => (nth x (lv_fabs lv) dummy_fab, new_of x)) l0).
    generalize (seq 0 (length l0)). intros sq. rewrite <- (map_id sq) at 1. rewrite combine_map_both. reflexivity. }
  unfold fs at 2, news at 2, file_fabs. rewrite Hcomb, map_map. apply map_ext. intros j. cbn [fst snd].
  rewrite Z.add_0_l. reflexivity.
Qed.

(* ---- the whole level ---- *)
Lemma cooked_loc i : (i < n)%nat ->
  loc_of cooked_lv i = (fst (loc_of lv i), fab_offset (file_fabs cooked_lv (ids_of lv (fst (loc_of lv i)))) (posn (ids_of lv (fst (loc_of lv i))) i)).
Proof.
  intros Hi.
  destruct (locate_total lv i Hwf Hi) as [c1 H1].
  assert (Hi' : (i < length (lv_fabs cooked_lv))%nat) by (rewrite cooked_length; exact Hi).
  destruct (locate_total cooked_lv i wf_cooked Hi') as [c2 H2].
  pose proof (locate_name_indep lv cooked_lv i (lv_files lv)) as Hn. cbn [cooked_lv lv_files] in H2.
  rewrite H1, H2 in Hn. cbn [option_map] in Hn. injection Hn as Hn.
  assert (Hf1 : fst (loc_of lv i) = fst c1) by (unfold loc_of; rewrite H1; reflexivity).
  destruct (locate_in lv i _ _ H1) as (ids & _ & Hin & _).
  assert (Hf2 : fst (loc_of cooked_lv i) = fst c1) by (unfold loc_of; cbn [cooked_lv lv_files]; rewrite H2; symmetry; exact Hn).
  rewrite Hf1, (ids_of_in lv Hwf _ ids Hin).
  destruct (loc_in_file cooked_lv wf_cooked (fst c1) ids i Hin Hi' Hf2) as (_ & _ & Hoff).
  rewrite (surjective_pairing (loc_of cooked_lv i)), Hf2, Hoff. reflexivity.
Qed.

Definition comps_of (i : nat) : list bytes := map (fab_comp (fabi i)) keep ++ new_of i.
Definition result_of (name : bytes) : bytes * bytes * list nat * list (Z * list bytes * list bytes) :=
  (name, encode_file (file_fabs cooked_lv (ids_of lv name)), ids_of lv name, recs_of (ids_of lv name)).

Lemma recs_length ids : length (recs_of ids) = length ids.
Proof. unfold recs_of. rewrite map_length, seq_length. reflexivity. Qed.

Theorem cook_level_spec :
  cook_level recipe k (lv_disk lv) c keep nout
  = Some (map (fun name => (name, encode_file (file_fabs cooked_lv (ids_of lv name)))) (np_unique (map fst cells)),
          map snd (cells_or_nil cooked_lv),
          map (fun i => map comp_min (comps_of i)) (seq 0 n),
          map (fun i => map comp_max (comps_of i)) (seq 0 n)).
Proof.
  unfold cook_level. cbv zeta.
  replace (np_unique (c_files c)) with (np_unique (map fst cells)) by (rewrite Hfiles; reflexivity).
  rewrite (omap_all_map _ result_of).
  2:{ intros name Hname. destruct (name_has_file lv Hwf name Hname) as [ids Hin].
      rewrite (lookup_lv_disk lv name ids Hwf Hin). cbn [obind].
      rewrite (disk_order_ids lv Hwf c Hidx Hfiles Hoffs name ids Hin).
      rewrite (scan_one_file name ids Hin). cbn [obind fst snd].
      rewrite recs_length, Nat.eqb_refl. cbn [obind].
      replace (forallb _ (recs_of ids)) with true.
      - cbn [obind]. unfold result_of. rewrite (ids_of_in lv Hwf name ids Hin). reflexivity.
      - symmetry. apply forallb_forall. intros b Hb. unfold recs_of in Hb. apply in_map_iff in Hb.
        destruct Hb as (j & <- & Hj). apply in_seq in Hj. cbn [fst snd].
        assert (Hlt : (nth j ids 0%nat < n)%nat).
        { pose proof (ids_lt name ids Hin) as HF. rewrite Forall_forall in HF. apply HF. apply nth_In. lia. }
        pose proof (Hnout _ Hlt) as Hno.
        assert (E : forall f : bytes -> bytes, blen (map f (map (fab_comp (fabi (nth j ids 0%nat))) keep ++ new_of (nth j ids 0%nat))) = nout).
        { intros f. rewrite blen_map, blen_app, blen_map. rewrite <- Hno. ring. }
        rewrite !E, Z.eqb_refl. reflexivity. }
  cbn [obind]. rewrite Hidx, map_length. fold n.
  f_equal. f_equal; [f_equal; [f_equal|]|].
  - rewrite map_map. reflexivity.
  - (* offsets *)
    rewrite fold_left_map. cbn [result_of fst snd].
    rewrite (fold_left_ext _ (fun a name => scatter_rows (ids_of lv name) (map (fun b : Z * list bytes * list bytes => fst (fst b)) (recs_of (ids_of lv name))) a)
               (fun a name => scatter_is_rows _ _ a)).
    rewrite (proj2 (cells_or_nil_spec cooked_lv wf_cooked)), cooked_length, map_map.
    apply (nth_ext _ _ 0 0).
    + rewrite fold_scatter_rows_length, repeat_length, map_length, seq_length. reflexivity.
    + intros i Hi. rewrite fold_scatter_rows_length, repeat_length in Hi.
      rewrite (fold_scatter_rows 0 n (fun i => fst (loc_of lv i)) (ids_of lv) _ (ids_of_spec lv Hwf) (ids_of_nodup lv Hwf)) ;
        [| intros name; rewrite map_length; apply recs_length | exact Hi | apply np_unique_NoDup | apply repeat_length].
      replace (existsb (bytes_eqb (fst (loc_of lv i))) (np_unique (map fst cells))) with true.
      2:{ symmetry. apply existsb_exists. exists (fst (loc_of lv i)). split; [|apply bytes_eqb_refl].
          apply np_unique_In. unfold cells. rewrite (names_eq lv Hwf). apply in_map_iff. exists i. split; [reflexivity | apply in_seq; fold n; lia]. }
      rewrite (nth_indep (map (fun x => snd (loc_of cooked_lv x)) (seq 0 n)) 0 (snd (loc_of cooked_lv 0%nat))) by (rewrite map_length, seq_length; exact Hi).
      rewrite (map_nth (fun x => snd (loc_of cooked_lv x))), seq_nth by exact Hi. cbn [Nat.add].
      rewrite (cooked_loc i Hi). cbn [snd].
      set (ids := ids_of lv (fst (loc_of lv i))).
      assert (Hin : In i ids) by (apply (ids_of_spec lv Hwf); split; [exact Hi | reflexivity]).
      destruct (pos_in_complete i _ 0%nat Hin) as [kk Hk]. destruct (pos_in_spec _ _ _ Hk) as [Hnth Hkl].
      unfold posn. rewrite Hk. unfold recs_of. rewrite map_map. cbn [fst].
      rewrite (nth_indep _ 0 (fab_offset (file_fabs cooked_lv ids) 0%nat)) by (rewrite map_length, seq_length; exact Hkl).
      rewrite (map_nth (fun j => fab_offset (file_fabs cooked_lv ids) j)), seq_nth by exact Hkl. reflexivity.
  - (* minima *)
    rewrite fold_left_map. cbn [result_of fst snd].
    apply (nth_ext _ _ [] []).
    + rewrite fold_scatter_rows_length, repeat_length, map_length, seq_length. reflexivity.
    + intros i Hi. rewrite fold_scatter_rows_length, repeat_length in Hi.
      rewrite (fold_scatter_rows [] n (fun i => fst (loc_of lv i)) (ids_of lv) _ (ids_of_spec lv Hwf) (ids_of_nodup lv Hwf)) ;
        [| intros name; rewrite map_length; apply recs_length | exact Hi | apply np_unique_NoDup | apply repeat_length].
      replace (existsb (bytes_eqb (fst (loc_of lv i))) (np_unique (map fst cells))) with true.
      2:{ symmetry. apply existsb_exists. exists (fst (loc_of lv i)). split; [|apply bytes_eqb_refl].
          apply np_unique_In. unfold cells. rewrite (names_eq lv Hwf). apply in_map_iff. exists i. split; [reflexivity | apply in_seq; fold n; lia]. }
      rewrite (nth_indep (map (fun x => map comp_min (comps_of x)) (seq 0 n)) [] (map comp_min (comps_of 0%nat))) by (rewrite map_length, seq_length; exact Hi).
      rewrite (map_nth (fun x => map comp_min (comps_of x))), seq_nth by exact Hi. cbn [Nat.add].
      set (ids := ids_of lv (fst (loc_of lv i))).
      assert (Hin : In i ids) by (apply (ids_of_spec lv Hwf); split; [exact Hi | reflexivity]).
      destruct (pos_in_complete i _ 0%nat Hin) as [kk Hk]. destruct (pos_in_spec _ _ _ Hk) as [Hnth Hkl].
      unfold posn. rewrite Hk. unfold recs_of. rewrite map_map. cbn [fst snd].
      unfold comps_of.
      rewrite (nth_indep _ [] ((fun j => map comp_min (map (fab_comp (fabi (nth j ids 0%nat))) keep ++ new_of (nth j ids 0%nat))) 0%nat)) by (rewrite map_length, seq_length; exact Hkl).
      rewrite (map_nth (fun j => map comp_min (map (fab_comp (fabi (nth j ids 0%nat))) keep ++ new_of (nth j ids 0%nat)))), seq_nth by exact Hkl.
      cbn [Nat.add]. rewrite Hnth. reflexivity.
  - (* maxima *)
    rewrite fold_left_map. cbn [result_of fst snd].
    apply (nth_ext _ _ [] []).
    + rewrite fold_scatter_rows_length, repeat_length, map_length, seq_length. reflexivity.
    + intros i Hi. rewrite fold_scatter_rows_length, repeat_length in Hi.
      rewrite (fold_scatter_rows [] n (fun i => fst (loc_of lv i)) (ids_of lv) _ (ids_of_spec lv Hwf) (ids_of_nodup lv Hwf)) ;
        [| intros name; rewrite map_length; apply recs_length | exact Hi | apply np_unique_NoDup | apply repeat_length].
      replace (existsb (bytes_eqb (fst (loc_of lv i))) (np_unique (map fst cells))) with true.
      2:{ symmetry. apply existsb_exists. exists (fst (loc_of lv i)). split; [|apply bytes_eqb_refl].
          apply np_unique_In. unfold cells. rewrite (names_eq lv Hwf). apply in_map_iff. exists i. split; [reflexivity | apply in_seq; fold n; lia]. }
      rewrite (nth_indep (map (fun x => map comp_max (comps_of x)) (seq 0 n)) [] (map comp_max (comps_of 0%nat))) by (rewrite map_length, seq_length; exact Hi).
      rewrite (map_nth (fun x => map comp_max (comps_of x))), seq_nth by exact Hi. cbn [Nat.add].
      set (ids := ids_of lv (fst (loc_of lv i))).
      assert (Hin : In i ids) by (apply (ids_of_spec lv Hwf); split; [exact Hi | reflexivity]).
      destruct (pos_in_complete i _ 0%nat Hin) as [kk Hk]. destruct (pos_in_spec _ _ _ Hk) as [Hnth Hkl].
      unfold posn. rewrite Hk. unfold recs_of. rewrite map_map. cbn [fst snd].
      unfold comps_of.
      rewrite (nth_indep _ [] ((fun j => map comp_max (map (fab_comp (fabi (nth j ids 0%nat))) keep ++ new_of (nth j ids 0%nat))) 0%nat)) by (rewrite map_length, seq_length; exact Hkl).
      rewrite (map_nth (fun j => map comp_max (map (fab_comp (fabi (nth j ids 0%nat))) keep ++ new_of (nth j ids 0%nat)))), seq_nth by exact Hkl.
      cbn [Nat.add]. rewrite Hnth. reflexivity.
Qed.
End ChefLevel.

Print Assumptions cook_level_spec.
Print Assumptions wf_cooked.

