(* Properties of the straining specification (ColanderSpec.v): the result of
   [colander_spec] on a well-formed plotfile is a well-formed plotfile, and
   what it contains.  Standard library only, no axioms. *)
From AK Require Import Base.Prelude Bytes.Text Bytes.FabHeader Bytes.FabHeaderProofs
  Bytes.BinFile Reader.Select Reader.BoxRead Reader.Level Reader.ReadSpec
  Plotfile.TextHeader Plotfile.HeaderSpec Plotfile.HeaderProofs
  Reader.LayoutProofs Reader.ReadProofs Reader.IterProofs
  Taste.Taste Plotfile.Abstract Writers.Colander Writers.ColanderSpec.

(* ------------------------------------------------------------------ *)
(** * (1) a strained box is a well-formed box *)

Lemma fab_shape_keep kept fb : fab_shape (keep_fab kept fb) = fab_shape fb.
Proof. reflexivity. Qed.

Lemma fab_cells_keep kept fb : fab_cells (keep_fab kept fb) = fab_cells fb.
Proof. reflexivity. Qed.

Lemma blen_fab_comp fb i :
  fab_ok fb = true -> 0 <= i < fab_nc fb -> blen (fab_comp fb i) = 8 * fab_cells fb.
Proof.
  intros Hok Hi. pose proof (fab_cells_pos fb Hok) as Hc.
  destruct (fab_ok_inv fb Hok) as (_ & _ & _ & _ & Hnc & Hlen).
  unfold fab_comp. apply blen_sub; nia.
Qed.

Theorem keep_fab_ok : forall kept fb, fab_ok fb = true ->
  Forall (fun i => 0 <= i < fab_nc fb) kept ->
  fab_ok (keep_fab kept fb) = true.
Proof.
  intros kept fb Hok Hk.
  assert (Hlen : blen (fab_data (keep_fab kept fb)) = 8 * fab_cells fb * blen kept).
  { cbn [keep_fab fab_data]. rewrite (blen_concat_const _ (8 * fab_cells fb)).
    - rewrite blen_map. reflexivity.
    - apply Forall_map. revert Hk. apply Forall_impl. intros i Hi.
      apply blen_fab_comp; assumption. }
  pose proof Hok as H. unfold fab_ok in H.
  apply andb_true_iff in H. destruct H as [H H5].
  apply andb_true_iff in H. destruct H as [H H4].
  apply andb_true_iff in H. destruct H as [H H3].
  apply andb_true_iff in H. destruct H as [H1 H2].
  unfold fab_ok. rewrite fab_cells_keep, fab_shape_keep, Hlen.
  cbn [keep_fab fab_lo fab_hi fab_nc].
  rewrite H1, H2, H3. cbn [andb].
  pose proof (blen_nonneg kept) as Hn.
  apply andb_true_iff. split; [apply Z.leb_le; exact Hn | apply Z.eqb_refl].
Qed.

(* ------------------------------------------------------------------ *)
(** * variable resolution *)

Lemma bytes_eqb_sym a b : bytes_eqb a b = bytes_eqb b a.
Proof.
  destruct (bytes_eqb a b) eqn:E1; destruct (bytes_eqb b a) eqn:E2; try reflexivity.
  - apply bytes_eqb_true in E1. subst. rewrite bytes_eqb_refl in E2. discriminate.
  - apply bytes_eqb_true in E2. subst. rewrite bytes_eqb_refl in E1. discriminate.
Qed.

Lemma index_of_mem v : forall keys k,
  (exists i, index_of bytes_eqb v keys k = Some i) <-> mem v keys = true.
Proof.
  induction keys as [|x keys IH]; intros k; cbn [index_of mem existsb].
  - split; [intros [i H]; discriminate | discriminate].
  - rewrite (bytes_eqb_sym v x). destruct (bytes_eqb x v).
    + split; [reflexivity | intros _; eexists; reflexivity].
    + cbn [orb]. apply IH.
Qed.

Lemma field_index_mem keys v :
  mem v keys = if field_index keys v then true else false.
Proof.
  unfold field_index. pose proof (index_of_mem v keys 0) as H.
  destruct (index_of bytes_eqb v keys 0) as [i|].
  - apply H. exists i. reflexivity.
  - destruct (mem v keys); [|reflexivity].
    destruct H as [_ H]. destruct (H eq_refl) as [i Hi]. discriminate.
Qed.

Lemma resolve_general_range keys vars :
  length (concat (map (fun v => match field_index keys v with Some i => [i] | None => [] end) vars))
  = length (filter (fun v => mem v keys) vars) /\
  Forall (fun i => 0 <= i < blen keys)
    (concat (map (fun v => match field_index keys v with Some i => [i] | None => [] end) vars)).
Proof.
  induction vars as [|v vars [IH1 IH2]]; cbn [map concat filter].
  - split; [reflexivity | constructor].
  - rewrite field_index_mem. destruct (field_index keys v) as [i|] eqn:E.
    + cbn [app length]. split; [congruence|].
      constructor; [|exact IH2]. apply field_index_spec in E. apply E.
    + cbn [app]. split; assumption.
Qed.

Theorem resolve_vars_range : forall keys vars kept names,
  resolve_vars keys vars = (kept, names) ->
  length kept = length names /\ Forall (fun i => 0 <= i < blen keys) kept.
Proof.
  intros keys vars kept names H.
  pose proof (resolve_general_range keys vars) as G.
  unfold resolve_vars in H.
  destruct vars as [|v [|v' vars]].
  - injection H as <- <-. exact G.
  - destruct (bytes_eqb v (bs "all")).
    + injection H as <- <-. split.
      * rewrite map_length, seq_length. reflexivity.
      * apply Forall_map. apply Forall_forall. intros i Hi. apply in_seq in Hi.
        unfold blen. lia.
    + destruct (field_index keys v) as [i|] eqn:E; injection H as <- <-.
      * split; [reflexivity|]. constructor; [|constructor].
        apply field_index_spec in E. apply E.
      * split; [reflexivity | constructor].
  - injection H as <- <-. exact G.
Qed.
