(* combine, one level: for two well-formed levels on the same boxes stored in
   ANY two layouts, the per-file tasks of combine and the scattering of their
   results back to box order produce the binary files of the level of merged
   boxes (file names of the first input, inside a file the boxes in box order)
   and the offsets table of that layout - in the box-by-box mode always, in the
   by-offset mode when the two inputs store every box in a file of the same
   name, in the file-by-file mode when in addition both store the boxes of every
   file in box order (the conditions under which validate_combine_input picks
   these modes).
   Standard library only, no axioms. *)
From AK Require Import Base.Prelude Bytes.Text Bytes.FabHeader Bytes.FabHeaderProofs
  Bytes.BinFile Reader.Select Reader.BoxRead Reader.Level Reader.ReadSpec
  Reader.LayoutProofs Reader.ReadProofs Reader.IterProofs
  Plotfile.TextHeader Plotfile.HeaderSpec Plotfile.HeaderProofs
  Taste.Taste Taste.TasteSpec Plotfile.Abstract Taste.CompleteProofs Taste.DataProofs
  Writers.Colander Writers.ColanderSpec Writers.ColanderLevelProofs Writers.ColanderToolProofs
  Writers.Combine Writers.CombineProofs Writers.Chef Writers.ScatterProofs Writers.ChefLevelProofs
  Writers.RelayoutProofs.
From Coq Require Import Permutation Sorted.

Section CombineLevel.
Variables lv1 lv2 : level.
Hypothesis Hwf1 : wf_level lv1 = true.
Hypothesis Hwf2 : wf_level lv2 = true.
Hypothesis Hn : length (lv_fabs lv2) = length (lv_fabs lv1).
Variables v1 v2 : list Z.

Let n := length (lv_fabs lv1).
Let f1 (i : nat) : fab := nth i (lv_fabs lv1) dummy_fab.
Let f2 (i : nat) : fab := nth i (lv_fabs lv2) dummy_fab.

Hypothesis Hv1 : forall i, (i < n)%nat -> Forall (fun j => 0 <= j < fab_nc (f1 i)) v1.
Hypothesis Hv2 : forall i, (i < n)%nat -> Forall (fun j => 0 <= j < fab_nc (f2 i)) v2.
Hypothesis Hshape : forall i, (i < n)%nat -> fab_shape (f2 i) = fab_shape (f1 i).

Variables c1 c2 : cellh.
Hypothesis Hidx1 : c_indexes c1 = map (fun fb => (fab_lo fb, fab_hi fb)) (lv_fabs lv1).
Hypothesis Hfiles1 : c_files c1 = map fst (cells_or_nil lv1).
Hypothesis Hoffs1 : c_offsets c1 = map snd (cells_or_nil lv1).
Hypothesis Hfiles2 : c_files c2 = map fst (cells_or_nil lv2).
Hypothesis Hoffs2 : c_offsets c2 = map snd (cells_or_nil lv2).

Definition merged_fab (i : nat) : fab := merge_fab v1 v2 (f1 i) (f2 i).
Definition merged_fabs : list fab := map merged_fab (seq 0 n).
Definition merged_lv : level := relaid lv1 merged_fabs.

Lemma merged_length : length merged_fabs = length (lv_fabs lv1).
Proof. unfold merged_fabs. rewrite map_length, seq_length. reflexivity. Qed.

Lemma f1_ok i : (i < n)%nat -> fab_ok (f1 i) = true.
Proof. intros Hi. pose proof (wf_level_fabs_ok lv1 Hwf1) as H. rewrite forallb_forall in H. apply H. apply nth_In. exact Hi. Qed.
Lemma f2_ok i : (i < n)%nat -> fab_ok (f2 i) = true.
Proof. intros Hi. pose proof (wf_level_fabs_ok lv2 Hwf2) as H. rewrite forallb_forall in H. apply H. apply nth_In. rewrite Hn. exact Hi. Qed.

Lemma merged_ok : forallb fab_ok merged_fabs = true.
Proof.
  apply forallb_forall. intros fb Hfb. unfold merged_fabs in Hfb. apply in_map_iff in Hfb. destruct Hfb as (i & <- & Hi).
  apply in_seq in Hi. apply merge_fab_ok; [apply f1_ok | apply f2_ok | apply Hshape | apply Hv1 | apply Hv2]; lia.
Qed.

Theorem wf_merged : wf_level merged_lv = true.
Proof. exact (wf_relaid lv1 Hwf1 merged_fabs merged_length merged_ok). Qed.

Lemma nth_merged i : (i < n)%nat -> nth i merged_fabs dummy_fab = merged_fab i.
Proof.
  intros Hi. unfold merged_fabs. rewrite (nth_indep _ dummy_fab (merged_fab 0%nat)) by (rewrite map_length, seq_length; exact Hi).
  rewrite (map_nth merged_fab), seq_nth by exact Hi. reflexivity.
Qed.

Lemma file_fabs_merged ids : Forall (fun i => (i < n)%nat) ids ->
  file_fabs merged_lv ids = map merged_fab ids.
Proof.
  intros H. unfold file_fabs, merged_lv, relaid. cbn [lv_fabs]. apply map_ext_in. intros i Hi.
  rewrite Forall_forall in H. apply nth_merged. apply H. exact Hi.
Qed.

(* ---- where box i lies in each input ---- *)
Lemma cell1 i : (i < n)%nat -> nth i (c_offsets c1) 0 = snd (loc_of lv1 i).
Proof.
  intros Hi. rewrite Hoffs1, (proj2 (cells_or_nil_spec lv1 Hwf1)), map_map. fold n.
  rewrite (nth_indep _ 0 (snd (loc_of lv1 0%nat))) by (rewrite map_length, seq_length; exact Hi).
  rewrite (map_nth (fun x => snd (loc_of lv1 x))), seq_nth by exact Hi. reflexivity.
Qed.
Lemma cell2 i : (i < n)%nat -> nth i (c_offsets c2) 0 = snd (loc_of lv2 i) /\ nth_bytes (c_files c2) i = fst (loc_of lv2 i).
Proof.
  intros Hi. rewrite Hoffs2, Hfiles2, (proj2 (cells_or_nil_spec lv2 Hwf2)), !map_map, Hn. fold n. unfold nth_bytes. split.
  - rewrite (nth_indep _ 0 (snd (loc_of lv2 0%nat))) by (rewrite map_length, seq_length; exact Hi).
    rewrite (map_nth (fun x => snd (loc_of lv2 x))), seq_nth by exact Hi. reflexivity.
  - rewrite (nth_indep _ [] (fst (loc_of lv2 0%nat))) by (rewrite map_length, seq_length; exact Hi).
    rewrite (map_nth (fun x => fst (loc_of lv2 x))), seq_nth by exact Hi. reflexivity.
Qed.

(* a box inside the image of its file *)
Lemma box_in_file (lv : level) (Hwf : wf_level lv = true) name ids i :
  In (name, ids) (lv_files lv) -> (i < length (lv_fabs lv))%nat -> fst (loc_of lv i) = name ->
  exists pre post, encode_file (file_fabs lv ids) = pre ++ encode_fab (nth i (lv_fabs lv) dummy_fab) ++ post
                   /\ snd (loc_of lv i) = blen pre.
Proof.
  intros Hin Hi Hname.
  destruct (loc_in_file lv Hwf name ids i Hin Hi Hname) as (Hp & Hnth & Hoff).
  destruct (encode_file_split (file_fabs lv ids) (posn ids i)) as [Hs Hl]; [rewrite file_fabs_length; exact Hp|].
  rewrite (nth_file_fabs lv ids _ Hp), Hnth in Hs.
  eexists. eexists. split; [exact Hs|]. rewrite Hoff, Hl. reflexivity.
Qed.

(* the second input's file of box i *)
Definition file2 (i : nat) : bytes := encode_file (file_fabs lv2 (ids_of lv2 (fst (loc_of lv2 i)))).

Lemma lookup2 i : (i < n)%nat -> lookup (fst (loc_of lv2 i)) (lv_disk lv2) = Some (file2 i).
Proof.
  intros Hi. assert (Hi2 : (i < length (lv_fabs lv2))%nat) by (rewrite Hn; exact Hi).
  destruct (locate_total lv2 i Hwf2 Hi2) as [cc Hloc].
  destruct (locate_in lv2 i _ _ Hloc) as (ids & _ & Hin & _).
  assert (E : fst (loc_of lv2 i) = fst cc) by (unfold loc_of; rewrite Hloc; reflexivity).
  unfold file2. rewrite E, (ids_of_in lv2 Hwf2 _ ids Hin). apply (lookup_lv_disk lv2 _ ids Hwf2 Hin).
Qed.

Lemma job_ok name ids i : In (name, ids) (lv_files lv1) -> (i < n)%nat -> fst (loc_of lv1 i) = name ->
  job_of (encode_file (file_fabs lv1 ids)) (f1 i) (f2 i) (snd (loc_of lv1 i), file2 i, snd (loc_of lv2 i)).
Proof.
  intros Hin Hi Hname. unfold job_of. split.
  - destruct (box_in_file lv1 Hwf1 name ids i Hin Hi Hname) as (pre & post & H1 & H2). exists pre, post. split; assumption.
  - assert (Hi2 : (i < length (lv_fabs lv2))%nat) by (rewrite Hn; exact Hi).
    destruct (locate_total lv2 i Hwf2 Hi2) as [cc Hloc].
    destruct (locate_in lv2 i _ _ Hloc) as (ids2 & _ & Hin2 & _).
    assert (E : fst (loc_of lv2 i) = fst cc) by (unfold loc_of; rewrite Hloc; reflexivity).
    destruct (box_in_file lv2 Hwf2 (fst cc) ids2 i Hin2 Hi2 E) as (pre & post & H1 & H2).
    exists pre, post. unfold file2. rewrite E, (ids_of_in lv2 Hwf2 _ ids2 Hin2). split; assumption.
Qed.

(* ---- the worker of one file, box-by-box ---- *)
Theorem at_on_file : forall name ids, In (name, ids) (lv_files lv1) ->
  combine_at (encode_file (file_fabs lv1 ids))
             (map (fun i => (snd (loc_of lv1 i), file2 i, snd (loc_of lv2 i))) (asc lv1 name)) v1 v2 []
  = Some (encode_file (file_fabs merged_lv (asc lv1 name)), file_offsets lv1 merged_fabs name).
Proof.
  intros name ids Hin.
  assert (Hasc : forall i, In i (asc lv1 name) -> (i < n)%nat /\ fst (loc_of lv1 i) = name)
    by (intros i Hi; apply (asc_spec lv1 Hwf1); exact Hi).
  set (pairs := map (fun i => (f1 i, f2 i)) (asc lv1 name)).
  assert (HF : Forall2 (fun job p => job_of (encode_file (file_fabs lv1 ids)) (fst p) (snd p) job /\
                          fab_ok (fst p) = true /\ fab_ok (snd p) = true /\
                          Forall (fun i => 0 <= i < fab_nc (fst p)) v1 /\
                          Forall (fun i => 0 <= i < fab_nc (snd p)) v2)
                       (map (fun i => (snd (loc_of lv1 i), file2 i, snd (loc_of lv2 i))) (asc lv1 name)) pairs).
  { unfold pairs. generalize (asc lv1 name) Hasc. intros l Hl. induction l as [|i l IH]; [constructor|].
    cbn [map]. constructor.
    - destruct (Hl i (or_introl eq_refl)) as [Hi Hname]. cbn [fst snd].
      split; [exact (job_ok name ids i Hin Hi Hname)|].
      split; [apply f1_ok; exact Hi|]. split; [apply f2_ok; exact Hi|]. split; [apply Hv1 | apply Hv2]; exact Hi.
    - apply IH. intros x Hx. apply Hl. right. exact Hx. }
  rewrite (combine_at_spec _ v1 v2 _ pairs [] HF). cbv zeta. cbn [app]. change (blen []) with 0.
  assert (Hlt : Forall (fun i => (i < n)%nat) (asc lv1 name)) by (apply Forall_forall; intros i Hi; apply Hasc; exact Hi).
  assert (E : map (fun p => merge_fab v1 v2 (fst p) (snd p)) pairs = file_fabs merged_lv (asc lv1 name)).
  { rewrite (file_fabs_merged _ Hlt). unfold pairs. rewrite map_map. reflexivity. }
  rewrite E. unfold file_offsets, pairs. rewrite map_length. f_equal.
Qed.

(* ---- the whole level ---- *)
Definition result_of (name : bytes) : bytes * bytes * list nat * list Z :=
  (name, encode_file (file_fabs merged_lv (asc lv1 name)), asc lv1 name, file_offsets lv1 merged_fabs name).

Lemma ids_of_file name :
  map fst (boxes_of_file name (zip_boxes (c_indexes c1) (c_files c1) (c_offsets c1)) 0) = asc lv1 name.
Proof.
  rewrite (all_boxes lv1 Hwf1 c1 Hidx1 Hfiles1 Hoffs1), (boxes_of_file_map lv1 name), map_map. cbn [fst]. rewrite map_id.
  unfold asc. rewrite (ids_in_file_eq lv1 Hwf1). reflexivity.
Qed.

Lemma jobs_of_file name :
  omap_all (fun i => do g2 <- lookup (nth_bytes (c_files c2) i) (lv_disk lv2);
                     Some (nth i (c_offsets c1) 0, g2, nth i (c_offsets c2) 0)) (asc lv1 name)
  = Some (map (fun i => (snd (loc_of lv1 i), file2 i, snd (loc_of lv2 i))) (asc lv1 name)).
Proof.
  apply omap_all_map. intros i Hi. apply (asc_spec lv1 Hwf1) in Hi. destruct Hi as [Hi _].
  destruct (cell2 i Hi) as [E1 E2]. rewrite E2, (lookup2 i Hi), (cell1 i Hi), E1. reflexivity.
Qed.

Lemma finish_level (results : list (bytes * bytes * list nat * list Z)) :
  results = map result_of (np_unique (map fst (cells_or_nil lv1))) ->
  Some (map (fun r : bytes * bytes * list nat * list Z => (fst (fst (fst r)), snd (fst (fst r)))) results,
        fold_left (fun acc (r : bytes * bytes * list nat * list Z) => scatter (snd (fst r)) (snd r) acc) results
                  (map (fun _ => 0) (c_indexes c1)))
  = Some (lv_disk merged_lv, map snd (cells_or_nil merged_lv)).
Proof.
  intros ->. f_equal. f_equal.
  - rewrite map_map. unfold merged_lv. rewrite (relaid_disk lv1 merged_fabs). reflexivity.
  - rewrite fold_left_map. cbn [result_of fst snd].
    apply (scatter_offsets lv1 Hwf1 merged_fabs merged_length merged_ok).
    rewrite map_length, Hidx1, map_length. reflexivity.
Qed.

Theorem combine_level_bybox :
  combine_level ByBox (lv_disk lv1) (lv_disk lv2) c1 c2 v1 v2
  = Some (lv_disk merged_lv, map snd (cells_or_nil merged_lv)).
Proof.
  unfold combine_level. cbv zeta.
  replace (np_unique (c_files c1)) with (np_unique (map fst (cells_or_nil lv1))) by (rewrite Hfiles1; reflexivity).
  rewrite (omap_all_map _ result_of).
  2:{ intros name Hname. destruct (name_has_file lv1 Hwf1 name Hname) as [ids Hin].
      rewrite (lookup_lv_disk lv1 name ids Hwf1 Hin). cbn [obind].
      rewrite (ids_of_file name), (jobs_of_file name). cbn [obind].
      rewrite (at_on_file name ids Hin). cbn [obind fst snd].
      unfold file_offsets at 1. rewrite map_length, seq_length, Nat.eqb_refl. reflexivity. }
  cbn [obind]. apply finish_level. reflexivity.
Qed.

(* ---- by-offset mode: every box lies in a file of the same name in both inputs ---- *)
Section SameFiles.
Hypothesis Hsame : map fst (cells_or_nil lv2) = map fst (cells_or_nil lv1).

Lemma same_name i : (i < n)%nat -> fst (loc_of lv2 i) = fst (loc_of lv1 i).
Proof.
  intros Hi. pose proof (f_equal (fun l => nth i l []) Hsame) as E. cbv beta in E.
  rewrite (proj2 (cells_or_nil_spec lv1 Hwf1)), (proj2 (cells_or_nil_spec lv2 Hwf2)), !map_map, Hn in E. fold n in E.
  rewrite (nth_indep _ [] (fst (loc_of lv2 0%nat))) in E by (rewrite map_length, seq_length; exact Hi).
  rewrite (map_nth (fun x => fst (loc_of lv2 x))), seq_nth in E by exact Hi.
  rewrite (nth_indep _ [] (fst (loc_of lv1 0%nat))) in E by (rewrite map_length, seq_length; exact Hi).
  rewrite (map_nth (fun x => fst (loc_of lv1 x))), seq_nth in E by exact Hi. exact E.
Qed.

Lemma file2_const name i : In i (asc lv1 name) -> file2 i = encode_file (file_fabs lv2 (ids_of lv2 name)).
Proof.
  intros Hi. apply (asc_spec lv1 Hwf1) in Hi. destruct Hi as [Hi Hname].
  unfold file2. rewrite (same_name i Hi), Hname. reflexivity.
Qed.

Lemma asc_nonempty name : In name (np_unique (map fst (cells_or_nil lv1))) -> asc lv1 name <> [].
Proof.
  intros Hname Hnil. apply (proj1 (np_unique_In _ _)) in Hname. rewrite (names_eq lv1 Hwf1) in Hname.
  apply in_map_iff in Hname. destruct Hname as (i & Hi & Hin). apply in_seq in Hin.
  assert (H : In i (asc lv1 name)) by (apply (asc_spec lv1 Hwf1); split; [lia | exact Hi]).
  rewrite Hnil in H. destruct H.
Qed.

Theorem combine_level_byoffset :
  combine_level ByOffset (lv_disk lv1) (lv_disk lv2) c1 c2 v1 v2
  = Some (lv_disk merged_lv, map snd (cells_or_nil merged_lv)).
Proof.
  unfold combine_level. cbv zeta.
  replace (np_unique (c_files c1)) with (np_unique (map fst (cells_or_nil lv1))) by (rewrite Hfiles1; reflexivity).
  rewrite (omap_all_map _ result_of).
  2:{ intros name Hname. destruct (name_has_file lv1 Hwf1 name Hname) as [ids Hin].
      rewrite (lookup_lv_disk lv1 name ids Hwf1 Hin). cbn [obind].
      rewrite (ids_of_file name).
      pose proof (asc_nonempty name Hname) as Hne.
      destruct (asc lv1 name) as [|i0 rest] eqn:Easc; [congruence|].
      assert (Hi0 : In i0 (asc lv1 name)) by (rewrite Easc; left; reflexivity).
      pose proof Hi0 as Hi0'. apply (asc_spec lv1 Hwf1) in Hi0'. destruct Hi0' as [Hi0n _].
      destruct (cell2 i0 Hi0n) as [_ E2]. rewrite E2, (lookup2 i0 Hi0n). cbn [obind].
      rewrite <- Easc.
      rewrite (map_ext_in _ (fun i => (snd (loc_of lv1 i), file2 i, snd (loc_of lv2 i)))).
      2:{ intros i Hi. pose proof Hi as Hi'. apply (asc_spec lv1 Hwf1) in Hi'. destruct Hi' as [Hin' _].
          destruct (cell2 i Hin') as [E1 _]. rewrite (cell1 i Hin'), E1, (file2_const name i0 Hi0), (file2_const name i Hi). reflexivity. }
      rewrite (at_on_file name ids Hin). cbn [obind fst snd].
      unfold file_offsets at 1. rewrite map_length, seq_length, Nat.eqb_refl. reflexivity. }
  cbn [obind]. apply finish_level. reflexivity.
Qed.

(* ---- file-by-file mode: in addition both inputs store the boxes of every file in box order ---- *)
Lemma increasing_sorted : forall l, increasing l = true -> StronglySorted Z.lt l.
Proof.
  induction l as [|a l IH]; intros H; [constructor|]. destruct l as [|b l]; [constructor; constructor|].
  cbn [increasing] in H. apply andb_true_iff in H. destruct H as [Hab H]. apply Z.ltb_lt in Hab.
  specialize (IH H). constructor; [exact IH|].
  inversion IH as [|? ? _ Hall]; subst. constructor; [exact Hab|].
  eapply Forall_impl; [|exact Hall]. intros x Hx. lia.
Qed.

Lemma sorted_map {A} (key : A -> Z) : forall l, StronglySorted Z.lt (map key l) -> StronglySorted (key_lt key) l.
Proof.
  induction l as [|a l IH]; intros H; [constructor|]. cbn [map] in H. inversion H as [|? ? Hs Hall]; subst.
  constructor; [apply IH; exact Hs|]. apply Forall_forall. intros x Hx. rewrite Forall_forall in Hall.
  unfold key_lt. apply Hall. apply in_map. exact Hx.
Qed.

Lemma offsets_in_asc (lv : level) (Hwf : wf_level lv = true) (c : cellh) name :
  c_files c = map fst (cells_or_nil lv) -> c_offsets c = map snd (cells_or_nil lv) ->
  offsets_in c name = map (fun i => snd (loc_of lv i)) (asc lv name).
Proof.
  intros Hf Ho. unfold offsets_in. rewrite Hf, Ho, (proj2 (cells_or_nil_spec lv Hwf)), !map_map.
  rewrite combine_map_both, filter_map_comm, map_map. cbn [fst snd].
  unfold asc. rewrite (ids_in_file_eq lv Hwf). reflexivity.
Qed.

(* when the recorded offsets of a file's boxes increase with the box index, the file stores them in box order *)
Lemma disk_order_is_box_order (lv : level) (Hwf : wf_level lv = true) (c : cellh) name ids :
  c_files c = map fst (cells_or_nil lv) -> c_offsets c = map snd (cells_or_nil lv) ->
  In (name, ids) (lv_files lv) -> increasing (offsets_in c name) = true -> ids = asc lv name.
Proof.
  intros Hf Ho Hin Hinc.
  rewrite (offsets_in_asc lv Hwf c name Hf Ho) in Hinc. apply increasing_sorted, sorted_map in Hinc.
  set (key := fun i => snd (loc_of lv i)) in *.
  assert (E1 : sort_by key (asc lv name) = asc lv name) by (apply sort_by_unique; [apply Permutation_refl | exact Hinc]).
  assert (E2 : sort_by key (asc lv name) = ids).
  { apply sort_by_unique.
    - unfold asc. rewrite (ids_in_file_eq lv Hwf). exact (filter_file_perm lv Hwf name ids Hin).
    - match goal with |- StronglySorted ?R ids =>
        cut (StronglySorted R (map (fun i => nth i ids 0%nat) (seq 0 (length ids)))); [rewrite (map_nth_seq 0%nat ids); trivial|] end.
      apply StronglySorted_map_seq. intros i j Hij Hj. unfold key_lt, key, loc_of.
      rewrite !(locate_nth lv Hwf name ids Hin) by lia. cbn [snd].
      apply fab_offset_lt. rewrite file_fabs_length. lia. }
  congruence.
Qed.

Hypothesis Hinc1 : forall name, In name (np_unique (map fst (cells_or_nil lv1))) -> increasing (offsets_in c1 name) = true.
Hypothesis Hinc2 : forall name, In name (np_unique (map fst (cells_or_nil lv1))) -> increasing (offsets_in c2 name) = true.

Lemma asc_same name : asc lv2 name = asc lv1 name.
Proof.
  unfold asc. rewrite (ids_in_file_eq lv1 Hwf1), (ids_in_file_eq lv2 Hwf2), Hn. fold n.
  apply filter_ext_in. intros i Hi. apply in_seq in Hi. rewrite (same_name i ltac:(lia)). reflexivity.
Qed.

Theorem combine_level_byfile :
  combine_level ByFile (lv_disk lv1) (lv_disk lv2) c1 c2 v1 v2
  = Some (lv_disk merged_lv, map snd (cells_or_nil merged_lv)).
Proof.
  unfold combine_level. cbv zeta.
  replace (np_unique (c_files c1)) with (np_unique (map fst (cells_or_nil lv1))) by (rewrite Hfiles1; reflexivity).
  rewrite (omap_all_map _ result_of).
  2:{ intros name Hname. destruct (name_has_file lv1 Hwf1 name Hname) as [ids Hin].
      rewrite (lookup_lv_disk lv1 name ids Hwf1 Hin). cbn [obind].
      rewrite (ids_of_file name).
      pose proof (asc_nonempty name Hname) as Hne.
      destruct (asc lv1 name) as [|i0 rest] eqn:Easc; [congruence|].
      assert (Hi0 : In i0 (asc lv1 name)) by (rewrite Easc; left; reflexivity).
      pose proof Hi0 as Hi0'. apply (asc_spec lv1 Hwf1) in Hi0'. destruct Hi0' as [Hi0n Hi0name].
      destruct (cell2 i0 Hi0n) as [_ E2]. rewrite E2, (lookup2 i0 Hi0n). cbn [obind].
      rewrite <- Easc.
      (* both files hold the boxes of [asc name], in that order *)
      assert (Eids1 : ids = asc lv1 name) by (apply (disk_order_is_box_order lv1 Hwf1 c1 name ids Hfiles1 Hoffs1 Hin (Hinc1 name Hname))).
      assert (Hi02 : (i0 < length (lv_fabs lv2))%nat) by (rewrite Hn; exact Hi0n).
      destruct (locate_total lv2 i0 Hwf2 Hi02) as [cc Hloc].
      destruct (locate_in lv2 i0 _ _ Hloc) as (ids2 & _ & Hin2 & _).
      assert (Ename2 : fst cc = name).
      { assert (E : fst (loc_of lv2 i0) = fst cc) by (unfold loc_of; rewrite Hloc; reflexivity).
        rewrite <- E, (same_name i0 Hi0n). exact Hi0name. }
      rewrite Ename2 in Hin2.
      assert (Eids2 : ids2 = asc lv2 name) by (apply (disk_order_is_box_order lv2 Hwf2 c2 name ids2 Hfiles2 Hoffs2 Hin2 (Hinc2 name Hname))).
      rewrite (asc_same name) in Eids2.
      rewrite (file2_const name i0 Hi0), (ids_of_in lv2 Hwf2 name ids2 Hin2), Eids1, Eids2.
      set (pairs := map (fun i => (f1 i, f2 i)) (asc lv1 name)).
      assert (Ef1 : file_fabs lv1 (asc lv1 name) = map fst pairs) by (unfold pairs, file_fabs; rewrite map_map; reflexivity).
      assert (Ef2 : file_fabs lv2 (asc lv1 name) = map snd pairs) by (unfold pairs, file_fabs; rewrite map_map; reflexivity).
      assert (Hasc : forall i, In i (asc lv1 name) -> (i < n)%nat) by (intros i Hi; apply (asc_spec lv1 Hwf1) in Hi; tauto).
      assert (HF : Forall (fun p => fab_ok (fst p) = true /\ fab_ok (snd p) = true /\
                                    Forall (fun i => 0 <= i < fab_nc (fst p)) v1 /\
                                    Forall (fun i => 0 <= i < fab_nc (snd p)) v2) pairs).
      { unfold pairs. apply Forall_forall. intros p Hp. apply in_map_iff in Hp. destruct Hp as (i & <- & Hi). cbn [fst snd].
        pose proof (Hasc i Hi) as Hin'. split; [apply f1_ok; exact Hin'|]. split; [apply f2_ok; exact Hin'|].
        split; [apply Hv1 | apply Hv2]; exact Hin'. }
      rewrite Ef1, Ef2.
      assert (Hfuel : (length pairs < S (length (encode_file (map fst pairs))))%nat).
      { assert (G : forall l : list fab, (length l <= length (encode_file l))%nat).
        { induction l as [|fb l IHl]; [cbn; lia|]. rewrite encode_file_cons, app_length. cbn [length].
          pose proof (fab_size_pos fb) as Hp. unfold fab_size, blen in Hp. lia. }
        specialize (G (map fst pairs)). rewrite map_length in G. lia. }
      pose proof (combine_scan_spec pairs v1 v2 _ [] [] [] HF Hfuel) as Hs. cbv zeta in Hs. cbn [app] in Hs.
      change (blen []) with 0 in Hs. rewrite Hs. cbn [obind fst snd].
      assert (Hlt : Forall (fun i => (i < n)%nat) (asc lv1 name)) by (apply Forall_forall; exact Hasc).
      assert (E : map (fun p => merge_fab v1 v2 (fst p) (snd p)) pairs = file_fabs merged_lv (asc lv1 name)).
      { rewrite (file_fabs_merged _ Hlt). unfold pairs. rewrite map_map. reflexivity. }
      rewrite E.
      assert (Hlp : length pairs = length (asc lv1 name)) by (unfold pairs; apply map_length).
      rewrite Hlp. rewrite map_length, seq_length, Nat.eqb_refl. cbn [obind].
      unfold result_of, file_offsets. reflexivity. }
  cbn [obind]. apply finish_level. reflexivity.
Qed.
End SameFiles.
End CombineLevel.

Print Assumptions combine_level_bybox.
Print Assumptions combine_level_byoffset.
Print Assumptions combine_level_byfile.


(* ------------------------------------------------------------------ *)
(** * the mode validate_combine_input picks implies the condition its workers need *)
Lemma list_bytes_eqb_eq : forall a b, list_bytes_eqb a b = true -> a = b.
Proof.
  induction a as [|x a IH]; intros [|y b] H; cbn [list_bytes_eqb] in H; try discriminate; [reflexivity|].
  apply andb_true_iff in H. destruct H as [H1 H2]. apply bytes_eqb_true in H1. subst y. f_equal. apply IH. exact H2.
Qed.

Definition level_same_files (cc : cellh * cellh) : Prop := c_files (fst cc) = c_files (snd cc).
Definition level_box_order (cc : cellh * cellh) : Prop :=
  forall name, In name (np_unique (c_files (fst cc))) ->
    increasing (offsets_in (fst cc) name) = true /\ increasing (offsets_in (snd cc) name) = true.

Theorem choose_mode_same_files : forall cs m, m <> ByBox -> choose_mode cs m <> ByBox -> Forall level_same_files cs.
Proof.
  induction cs as [|[c1 c2] cs IH]; intros m Hm H; [constructor|]. cbn [choose_mode] in H.
  destruct (list_bytes_eqb (c_files c1) (c_files c2)) eqn:E; cbn [negb] in H; [|congruence].
  constructor; [apply list_bytes_eqb_eq; exact E|].
  eapply IH; [|exact H]. destruct (forallb _ _); [exact Hm | discriminate].
Qed.

Theorem choose_mode_byfile : forall cs, choose_mode cs ByFile = ByFile -> Forall level_box_order cs.
Proof.
  assert (G : forall cs, choose_mode cs ByOffset <> ByFile).
  { induction cs as [|[c1 c2] cs IH]; [discriminate|]. cbn [choose_mode].
    destruct (negb (list_bytes_eqb (c_files c1) (c_files c2))); [discriminate|].
    destruct (forallb _ _); exact IH. }
  induction cs as [|[c1 c2] cs IH]; intros H; [constructor|]. cbn [choose_mode] in H.
  destruct (negb (list_bytes_eqb (c_files c1) (c_files c2))); [discriminate|].
  destruct (forallb (fun name => increasing (offsets_in c1 name) && increasing (offsets_in c2 name)) (np_unique (c_files c1))) eqn:E.
  - constructor; [|apply IH; exact H]. intros name Hname. cbn [fst snd] in *. rewrite forallb_forall in E.
    specialize (E name Hname). apply andb_true_iff in E. exact E.
  - exfalso. exact (G cs H).
Qed.

Print Assumptions choose_mode_byfile.
