(* Listing the binary files of a level in another order (a directory has no
   order; the writers list them by sorted name) changes nothing: the level stays
   well-formed and every box keeps its (file, offset).
   Standard library only, no axioms. *)
From AK Require Import Base.Prelude Bytes.Text Bytes.FabHeader Bytes.FabHeaderProofs
  Bytes.BinFile Reader.Select Reader.BoxRead Reader.Level Reader.ReadSpec
  Reader.LayoutProofs Reader.ReadProofs Reader.IterProofs
  Plotfile.TextHeader Plotfile.HeaderSpec Plotfile.HeaderProofs
  Taste.Taste Taste.TasteSpec Plotfile.Abstract Taste.CompleteProofs Taste.DataProofs
  Writers.Colander Writers.ColanderSpec Writers.ColanderLevelProofs Writers.Chef Writers.ScatterProofs.
From Coq Require Import Permutation Sorted.

Lemma forallb_perm {A} (f : A -> bool) : forall l l', Permutation l l' -> forallb f l = forallb f l'.
Proof.
  induction 1 as [| x l l' _ IH | x y l | l l' l'' _ IH1 _ IH2]; cbn [forallb].
  - reflexivity.
  - rewrite IH. reflexivity.
  - destruct (f x), (f y); reflexivity.
  - rewrite IH1. exact IH2.
Qed.

Lemma concat_perm {A} : forall (l l' : list (list A)), Permutation l l' -> Permutation (concat l) (concat l').
Proof.
  induction 1 as [| x l l' _ IH | x y l | l l' l'' _ IH1 _ IH2]; cbn [concat].
  - constructor.
  - apply Permutation_app_head. exact IH.
  - rewrite !app_assoc. apply Permutation_app_tail. apply Permutation_app_comm.
  - exact (Permutation_trans IH1 IH2).
Qed.

Lemma count_nat_perm' x : forall l l', Permutation l l' -> count_nat x l = count_nat x l'.
Proof. induction 1; cbn [count_nat]; lia. Qed.

Section Relist.
Variable lv : level.
Hypothesis Hwf : wf_level lv = true.
Variable files' : list (bytes * list nat).
Hypothesis Hperm : Permutation (lv_files lv) files'.

Let n := length (lv_fabs lv).

Definition relisted : level := {| lv_fabs := lv_fabs lv; lv_files := files' |}.

Theorem wf_relisted : wf_level relisted = true.
Proof.
  pose proof Hwf as H. unfold wf_level in H |- *.
  apply andb_true_iff in H. destruct H as [H H5].
  apply andb_true_iff in H. destruct H as [H H4].
  apply andb_true_iff in H. destruct H as [H H3].
  apply andb_true_iff in H. destruct H as [H1 H2].
  cbn [relisted lv_fabs lv_files].
  pose proof (Permutation_map snd Hperm) as Ps.
  pose proof (concat_perm _ _ Ps) as Pc.
  rewrite H1. cbn [andb].
  rewrite <- (forallb_perm _ _ _ Ps), H3.
  rewrite <- (forallb_perm _ _ _ Pc), H4.
  replace (forallb (fun b => (count_nat b (concat (map snd files')) =? 1)%nat) (seq 0 (length (lv_fabs lv))))
    with (forallb (fun b => (count_nat b (concat (map snd (lv_files lv))) =? 1)%nat) (seq 0 (length (lv_fabs lv)))).
  2:{ generalize (seq 0 (length (lv_fabs lv))). intros sq. induction sq as [|b sq IHs]; [reflexivity|].
      cbn [forallb]. rewrite IHs, (count_nat_perm' b _ _ Pc). reflexivity. }
  rewrite H5, !andb_true_r.
  apply NoDup_distinct_names. apply (Permutation_NoDup (Permutation_map fst Hperm)).
  apply distinct_names_NoDup. exact H2.
Qed.

Lemma relisted_loc i : (i < n)%nat -> loc_of relisted i = loc_of lv i.
Proof.
  intros Hi. destruct (locate_total lv i Hwf Hi) as [c Hc].
  destruct (locate_in lv i _ _ Hc) as (ids & k & Hin & Hp & Hoff).
  destruct (pos_in_spec _ _ _ Hp) as [Hnth Hkl].
  pose proof (Permutation_in _ Hperm Hin) as Hin'.
  pose proof (locate_nth relisted wf_relisted (fst c) ids Hin' k Hkl) as Hl.
  rewrite Hnth in Hl. unfold loc_of. rewrite Hc. cbn [relisted lv_files] in Hl |- *. rewrite Hl.
  destruct c as [nm off]. cbn [fst snd] in *. rewrite Hoff. reflexivity.
Qed.

Lemma relisted_cells : cells_or_nil relisted = cells_or_nil lv.
Proof.
  rewrite (proj2 (cells_or_nil_spec relisted wf_relisted)), (proj2 (cells_or_nil_spec lv Hwf)).
  cbn [relisted lv_fabs]. apply map_ext_in. intros i Hi. apply in_seq in Hi. apply relisted_loc. unfold n. lia.
Qed.
End Relist.

(* ---- the files listed by sorted name, as the writers list them ---- *)
Section Sorted.
Variable lv : level.
Hypothesis Hwf : wf_level lv = true.

Definition sorted_files : list (bytes * list nat) :=
  map (fun name => (name, ids_of lv name)) (np_unique (map fst (cells_or_nil lv))).

Lemma sorted_perm : Permutation (lv_files lv) sorted_files.
Proof.
  assert (E : lv_files lv = map (fun name => (name, ids_of lv name)) (map fst (lv_files lv))).
  { rewrite map_map. rewrite <- (map_id (lv_files lv)) at 1. apply map_ext_in. intros [nm ids] Hin.
    cbn [fst]. rewrite (ids_of_in lv Hwf nm ids Hin). reflexivity. }
  rewrite E at 1. unfold sorted_files. apply Permutation_map. apply Permutation_sym.
  destruct (cells_or_nil_spec lv Hwf) as [Hc _].
  exact (level_names_perm lv _ Hwf Hc).
Qed.

Definition sorted_lv : level := relisted lv sorted_files.

Lemma wf_sorted : wf_level sorted_lv = true.
Proof. exact (wf_relisted lv Hwf _ sorted_perm). Qed.

Lemma sorted_cells : cells_or_nil sorted_lv = cells_or_nil lv.
Proof. exact (relisted_cells lv Hwf _ sorted_perm). Qed.

Lemma sorted_disk :
  lv_disk sorted_lv = map (fun name => (name, encode_file (file_fabs lv (ids_of lv name)))) (np_unique (map fst (cells_or_nil lv))).
Proof. unfold lv_disk, sorted_lv, relisted, sorted_files. cbn [lv_files]. rewrite map_map. reflexivity. Qed.
End Sorted.

Print Assumptions wf_sorted.
Print Assumptions sorted_cells.
