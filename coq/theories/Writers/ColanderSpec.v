(* What straining must produce, on the abstract plotfile. *)
From AK Require Import Base.Prelude Bytes.Text Bytes.FabHeader Bytes.BinFile
  Reader.Select Reader.BoxRead Reader.Level Reader.ReadSpec
  Plotfile.TextHeader Plotfile.HeaderSpec Taste.Taste Plotfile.Abstract Writers.Colander.

(* a box restricted to the kept components, in the requested order *)
Definition keep_fab (kept : list Z) (fb : fab) : fab :=
  {| fab_lo := fab_lo fb; fab_hi := fab_hi fb; fab_nc := blen kept;
     fab_data := concat (map (fab_comp fb) kept) |}.

(* ids of the boxes stored in file [name], ascending *)
Definition ids_in_file (cells : list (bytes * Z)) (name : bytes) : list nat :=
  filter (fun i => bytes_eqb (fst (nth i cells ([], 0))) name) (seq 0 (length cells)).

(* output layout: same file names, sorted; inside a file the boxes in box order *)
Definition strained_files (lv : level) : list (bytes * list nat) :=
  let cells := cells_or_nil lv in
  map (fun name => (name, ids_in_file cells name)) (np_unique (map fst cells)).

Definition project (kept : list Z) (row : list token) : list token :=
  map (fun i => nth (Z.to_nat i) row []) kept.

Definition strained_level (g : gheader) (kept : list Z) (k : nat) (pl : plevel) : plevel :=
  {| pl_boxes := {| lb_ncells := blen (lb_boxes (pl_boxes pl));
                    lb_step_line := [str_of_Z (nth k (g_steps g) 0)];
                    lb_boxes := lb_boxes (pl_boxes pl);
                    lb_cell_dir := level_name (Z.of_nat k);
                    lb_time_tok := g_time g |};
     pl_level := {| lv_fabs := map (keep_fab kept) (lv_fabs (pl_level pl));
                    lv_files := strained_files (pl_level pl) |};
     pl_mins := map (project kept) (pl_mins pl);
     pl_maxs := map (project kept) (pl_maxs pl) |}.

Definition strained_gheader (g : gheader) (lim : Z) (names : list bytes) : gheader :=
  let n := Z.to_nat (lim + 1) in
  {| g_version := g_version g; g_names := names; g_ndims := g_ndims g;
     g_time := g_time g; g_max_level := lim;
     g_geo_low := g_geo_low g; g_geo_high := g_geo_high g;
     g_factors := if 0 <? lim then firstn n (g_factors g) else [];
     g_grid_hi := firstn n (g_grid_hi g);
     g_steps := firstn n (g_steps g);
     g_dx := firstn n (g_dx g);
     g_sys_coord := g_sys_coord g |}.

Definition colander_spec (vars : list bytes) (lim : Z) (pf : plotfile) : plotfile :=
  let keys := field_keys (g_names (pf_g pf)) [] in
  let '(kept, names) := resolve_vars keys vars in
  let lvs := firstn (Z.to_nat (lim + 1)) (pf_levels pf) in
  {| pf_g := strained_gheader (pf_g pf) lim names;
     pf_levels := map (fun kl => strained_level (pf_g pf) kept (fst kl) (snd kl))
                      (combine (seq 0 (length lvs)) lvs) |}.

(* the input stores level k under "Level_k" (what AMReX writes) *)
Definition std_dirs (pf : plotfile) : Prop :=
  forall k pl, nth_error (pf_levels pf) k = Some pl ->
               lb_cell_dir (pl_boxes pl) = level_name (Z.of_nat k).

(* header lists hold at least one entry per level *)
Definition wf_counts (pf : plotfile) : Prop :=
  let g := pf_g pf in
  blen (g_grid_hi g) = g_max_level g + 1 /\ g_max_level g + 1 <= blen (g_steps g) /\
  (g_ndims g = 2 \/ g_ndims g = 3).

(* every min/max row has one entry per field *)
Definition wf_rows (pf : plotfile) : Prop :=
  Forall (fun pl => Forall (fun r => blen r = pf_nfields pf) (pl_mins pl) /\
                    Forall (fun r => blen r = pf_nfields pf) (pl_maxs pl)) (pf_levels pf).

(* ---- the pure operation, and sequences of it ---- *)
Definition col_op : Type := (list bytes * option Z)%type.

(* the pure operation on plotfiles: defined when the level limit is admissible
   and at least one requested field exists *)
Definition spec_step (o : col_op) (pf : plotfile) : option plotfile :=
  match eff_limit (g_max_level (pf_g pf)) (snd o) with
  | Some lim =>
      if (0 <=? lim) && negb (length (fst (resolve_vars (field_keys (g_names (pf_g pf)) []) (fst o))) =? 0)%nat
      then Some (colander_spec (fst o) lim pf) else None
  | None => None
  end.

Fixpoint spec_run (ops : list col_op) (pf : plotfile) : option plotfile :=
  match ops with
  | [] => Some pf
  | o :: ops' => match spec_step o pf with Some pf' => spec_run ops' pf' | None => None end
  end.

