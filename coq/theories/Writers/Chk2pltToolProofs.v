(* chk2plt as a whole refines a pure conversion of abstract checkpoints to
   abstract plotfiles: the directory it writes is pf_disk of the converted
   plotfile (the statement of the colander / combine / chef tool theorems).
   Standard library only, no axioms. *)
From AK Require Import Base.Prelude Bytes.Text Bytes.FabHeader Bytes.BinFile
  Reader.Select Reader.BoxRead Reader.Level Reader.ReadSpec Plotfile.TextHeader Plotfile.HeaderSpec Plotfile.HeaderProofs
  Plotfile.Abstract Taste.Taste Taste.CompleteProofs
  Writers.Colander Writers.Chef Writers.Chk2plt Writers.Chk2pltProofs Writers.ScatterProofs Writers.Chk2pltLevelProofs
  Writers.ColanderToolProofs Writers.ChefToolProofs Writers.ChkHeader Writers.ChkHeaderProofs Writers.Chk2pltTool.

(* one level of an abstract checkpoint: the state level (ghosted FABs and their file layout), the other two data
   subsets as the tool reads them, and what each box converts to *)
Record chk_alevel := {
  al_state : level;
  al_gradp_files : list (bytes * bytes);  al_gradp_cells : list (bytes * Z);
  al_ir_files : list (bytes * bytes);     al_ir_cells : list (bytes * Z);
  al_comps : nat -> list bytes
}.

Record achk := { ac_h : chk_header; ac_levels : list chk_alevel }.

Definition al_disk (al : chk_alevel) : chk_ldisk :=
  {| cd_state_files := lv_disk (al_state al); cd_state_cells := cells_or_nil (al_state al);
     cd_gradp_files := al_gradp_files al; cd_gradp_cells := al_gradp_cells al;
     cd_ir_files := al_ir_files al; cd_ir_cells := al_ir_cells al |}.

Definition achk_disk (c : achk) : chk_disk :=
  {| cdk_header := print_chk (ac_h c); cdk_levels := map al_disk (ac_levels c) |}.

Section Tool.
Variable whole : token -> bool.
Variable to_int : token -> Z.
Variable frepr : token -> token.
Variable dx_row : Z -> list token.
Variable bounds : Z -> list (list (token * token)).
Variable species : list bytes.
Variable do_gradp do_ir : bool.
Variable floored : nat -> option (list (list bytes)).
Variable y_start nspecies : Z.
Variable n_state n_gradp n_ir : Z.

Let fields := chk_fields species do_gradp do_ir.
Let nout := chk_nfields_out n_state n_gradp n_ir do_gradp do_ir.

Definition boxes_at (c : achk) (k : nat) : list (list Z * list Z) := nth k (ch_boxes (ac_h c)) [].

(* the pure conversion *)
Definition conv_level (c : achk) (k : nat) (al : chk_alevel) : plevel :=
  conv_plevel (al_gradp_cells al) (al_ir_cells al) (al_state al) (boxes_at c k) (al_comps al)
              (chk_lb frepr bounds (ac_h c) (Z.of_nat k)).

Definition conv_pf (c : achk) : plotfile :=
  {| pf_g := chk_g frepr dx_row (ac_h c) fields;
     pf_levels := map (fun kl => conv_level c (fst kl) (snd kl)) (combine (seq 0 (length (ac_levels c))) (ac_levels c)) |}.

(* per level: the hypotheses of the level theorem (C17_level_directory) *)
Definition level_ok (c : achk) (k : nat) (al : chk_alevel) : Prop :=
  let slv := al_state al in
  let boxes := boxes_at c k in
  let n := length (lv_fabs slv) in
  let sf := fun i => nth i (lv_fabs slv) dummy_fab in
  wf_level slv = true /\
  length boxes = n /\
  (forall i, (i < n)%nat ->
     box_comps (al_gradp_files al) (al_ir_files al) do_gradp do_ir (floored k) y_start nspecies
               (fab_nc (sf i)) (fab_shape (sf i)) (fab_data (sf i)) (jobi (al_gradp_cells al) (al_ir_cells al) boxes i)
     = Some (al_comps al i)) /\
  NoDup (map (fun nf : bytes * list nat => cell_name (fst nf)) (lv_files slv)) /\
  (forall i, (i < n)%nat -> fab_ok (conv_i (al_gradp_cells al) (al_ir_cells al) boxes (al_comps al) i) = true).

Lemma chk_lvs_combine (c : achk) : forall (l : list chk_alevel) s,
  map (chk_lb frepr bounds (ac_h c)) (map Z.of_nat (seq s (length l)))
  = map (fun x : nat * chk_alevel => pl_boxes (conv_level c (fst x) (snd x))) (combine (seq s (length l)) l).
Proof.
  induction l as [|a l IH]; intros s; [reflexivity|].
  cbn [length seq map combine fst snd]. f_equal. apply IH.
Qed.

Theorem chk2plt_refines : forall c,
  wf_chk whole to_int (ac_h c) ->
  nout = blen fields ->
  length (grid0 (hd [] (ch_boxes (ac_h c)))) = 3%nat ->
  length (ac_levels c) = Z.to_nat (ch_max_level (ac_h c) + 1) ->
  (forall k al, nth_error (ac_levels c) k = Some al -> level_ok c k al) ->
  chk2plt_tool whole to_int frepr dx_row bounds species do_gradp do_ir floored y_start nspecies n_state n_gradp n_ir (achk_disk c)
  = Some (pf_disk (conv_pf c)).
Proof.
  intros c Hwf Hn Hg Hlen Hlv.
  unfold chk2plt_tool. cbn [achk_disk cdk_header cdk_levels].
  rewrite (p_chk_print whole to_int (ac_h c) Hwf). cbn [obind fst].
  fold fields. fold nout. rewrite Hn, Z.eqb_refl. cbn [obind].
  assert (Hg2 : (length (map al_disk (ac_levels c)) =? Z.to_nat (ch_max_level (ac_h c) + 1))%nat = true)
    by (rewrite map_length, Hlen; apply Nat.eqb_refl).
  rewrite Hg2. cbn [obind]. clear Hg2.
  (* the level directories *)
  assert (Hdirs :
    omap_all (fun kl : nat * chk_ldisk =>
                 do dir <- convert_level_dir (blen fields) (nth (fst kl) (ch_boxes (ac_h c)) [])
                             (cd_state_files (snd kl)) (cd_state_cells (snd kl))
                             (cd_gradp_files (snd kl)) (cd_gradp_cells (snd kl))
                             (cd_ir_files (snd kl)) (cd_ir_cells (snd kl))
                             do_gradp do_ir (floored (fst kl)) y_start nspecies;
                 Some (level_name (Z.of_nat (fst kl)), dir))
             (combine (seq 0 (length (map al_disk (ac_levels c)))) (map al_disk (ac_levels c)))
    = Some (map (pl_dir (blen fields)) (pf_levels (conv_pf c)))).
  { rewrite (combine_seq_map al_disk (ac_levels c) 0). rewrite omap_all_map_pre.
    cbn [conv_pf pf_levels]. rewrite map_map.
    apply (omap_all_combine_seq _ (fun k al => pl_dir (blen fields) (conv_level c k al))).
    intros k al Hk. cbn [fst snd Nat.add al_disk cd_state_files cd_state_cells cd_gradp_files cd_gradp_cells cd_ir_files cd_ir_cells].
    destruct (Hlv k al Hk) as (Hw & Hb & Hconv & Hnames & Hok).
    pose proof (convert_level_dir_spec (al_gradp_files al) (al_ir_files al) (al_gradp_cells al) (al_ir_cells al) do_gradp do_ir
                  (floored k) y_start nspecies (al_state al) Hw (boxes_at c k) Hb (al_comps al) Hconv Hnames Hok
                  (blen fields) (chk_lb frepr bounds (ac_h c) (Z.of_nat k))) as [Hd _].
    unfold boxes_at in Hd. rewrite Hd. cbn [obind].
    unfold conv_level, pl_dir. cbn [fst snd]. reflexivity. }
  rewrite Hdirs. cbn [obind].
  unfold pf_disk. f_equal. f_equal.
  - rewrite (write_global_header_print frepr dx_row bounds (ac_h c) fields (blen fields) eq_refl Hg).
    f_equal. f_equal. cbn [conv_pf pf_g pf_levels]. rewrite map_map.
    unfold chk_lvs, levels_upto. rewrite <- Hlen. apply chk_lvs_combine.
Qed.
End Tool.
