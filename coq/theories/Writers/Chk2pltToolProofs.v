(* chk2plt as a whole refines a pure conversion of abstract checkpoints to
   abstract plotfiles: the directory it writes is pf_disk of the converted
   plotfile (the statement of the colander / combine / chef tool theorems).
   Standard library only, no axioms. *)
From AK Require Import Base.Prelude Bytes.Text Bytes.FabHeader Bytes.BinFile
  Reader.Select Reader.BoxRead Reader.Level Reader.ReadSpec Plotfile.TextHeader Plotfile.HeaderSpec Plotfile.HeaderProofs
  Plotfile.Abstract Taste.Taste Taste.CompleteProofs
  Writers.Colander Writers.Chef Writers.Chk2plt Writers.Chk2pltProofs Writers.ScatterProofs Writers.Chk2pltLevelProofs
  Writers.ColanderToolProofs Writers.ChefToolProofs Writers.ChkHeader Writers.ChkHeaderProofs Writers.Chk2pltTool.

(* one level of an abstract checkpoint: the state level (ghosted FABs and their file layout), the other two data
   subsets as the tool reads them, and what each box converts to *)
Record chk_alevel := {
  al_state : level;
  al_gradp_files : list (bytes * bytes);  al_gradp_cells : list (bytes * Z);
  al_ir_files : list (bytes * bytes);     al_ir_cells : list (bytes * Z);
  al_comps : nat -> list bytes
}.

Record achk := { ac_h : chk_header; ac_levels : list chk_alevel }.

Definition al_disk (al : chk_alevel) : chk_ldisk :=
  {| cd_state_files := lv_disk (al_state al); cd_state_cells := cells_or_nil (al_state al);
     cd_gradp_files := al_gradp_files al; cd_gradp_cells := al_gradp_cells al;
     cd_ir_files := al_ir_files al; cd_ir_cells := al_ir_cells al |}.

Definition achk_disk (c : achk) : chk_disk :=
  {| cdk_header := print_chk (ac_h c); cdk_levels := map al_disk (ac_levels c) |}.

Section Tool.
Variable whole : token -> bool.
Variable to_int : token -> Z.
Variable frepr : token -> token.
Variable dx_row : Z -> list token.
Variable bounds : Z -> list (list (token * token)).
Variable species : list bytes.
Variable do_gradp do_ir : bool.
Variable floored : nat -> option (list (list bytes)).
Variable y_start nspecies : Z.
Variable n_state n_gradp n_ir : Z.

Let fields := chk_fields species do_gradp do_ir.
Let nout := chk_nfields_out n_state n_gradp n_ir do_gradp do_ir.

Definition boxes_at (c : achk) (k : nat) : list (list Z * list Z) := nth k (ch_boxes (ac_h c)) [].

(* the pure conversion *)
Definition conv_level (c : achk) (k : nat) (al : chk_alevel) : plevel :=
  conv_plevel (al_gradp_cells al) (al_ir_cells al) (al_state al) (boxes_at c k) (al_comps al)
              (chk_lb frepr bounds (ac_h c) (Z.of_nat k)).

Definition conv_pf (c : achk) : plotfile :=
  {| pf_g := chk_g frepr dx_row (ac_h c) fields;
     pf_levels := map (fun kl => conv_level c (fst kl) (snd kl)) (combine (seq 0 (length (ac_levels c))) (ac_levels c)) |}.

(* per level: the hypotheses of the level theorem (C17_level_directory) *)
Definition level_ok (c : achk) (k : nat) (al : chk_alevel) : Prop :=
  let slv := al_state al in
  let boxes := boxes_at c k in
  let n := length (lv_fabs slv) in
  let sf := fun i => nth i (lv_fabs slv) dummy_fab in
  wf_level slv = true /\
  length boxes = n /\
  (forall i, (i < n)%nat ->
     box_comps (al_gradp_files al) (al_ir_files al) do_gradp do_ir (floored k) y_start nspecies
               (fab_nc (sf i)) (fab_shape (sf i)) (fab_data (sf i)) (jobi (al_gradp_cells al) (al_ir_cells al) boxes i)
     = Some (al_comps al i)) /\
  NoDup (map (fun nf : bytes * list nat => cell_name (fst nf)) (lv_files slv)) /\
  (forall i, (i < n)%nat -> fab_ok (conv_i (al_gradp_cells al) (al_ir_cells al) boxes (al_comps al) i) = true).

Lemma chk_lvs_combine (c : achk) : forall (l : list chk_alevel) s,
  map (chk_lb frepr bounds (ac_h c)) (map Z.of_nat (seq s (length l)))
  = map (fun x : nat * chk_alevel => pl_boxes (conv_level c (fst x) (snd x))) (combine (seq s (length l)) l).
Proof.
  induction l as [|a l IH]; intros s; [reflexivity|].
  cbn [length seq map combine fst snd]. f_equal. apply IH.
Qed.

Theorem chk2plt_refines : forall c,
  wf_chk whole to_int (ac_h c) ->
  nout = blen fields ->
  length (grid0 (hd [] (ch_boxes (ac_h c)))) = 3%nat ->
  length (ac_levels c) = Z.to_nat (ch_max_level (ac_h c) + 1) ->
  (forall k al, nth_error (ac_levels c) k = Some al -> level_ok c k al) ->
  chk2plt_tool whole to_int frepr dx_row bounds species do_gradp do_ir floored y_start nspecies n_state n_gradp n_ir (achk_disk c)
  = Some (pf_disk (conv_pf c)).
Proof.
  intros c Hwf Hn Hg Hlen Hlv.
  unfold chk2plt_tool. cbn [achk_disk cdk_header cdk_levels].
  rewrite (p_chk_print whole to_int (ac_h c) Hwf). cbn [obind fst].
  fold fields. fold nout. rewrite Hn, Z.eqb_refl. cbn [obind].
  assert (Hg2 : (length (map al_disk (ac_levels c)) =? Z.to_nat (ch_max_level (ac_h c) + 1))%nat = true)
    by (rewrite map_length, Hlen; apply Nat.eqb_refl).
  rewrite Hg2. cbn [obind]. clear Hg2.
  (* the level directories *)
  assert (Hdirs :
    omap_all (fun kl : nat * chk_ldisk =>
                 do dir <- convert_level_dir (blen fields) (nth (fst kl) (ch_boxes (ac_h c)) [])
                             (cd_state_files (snd kl)) (cd_state_cells (snd kl))
                             (cd_gradp_files (snd kl)) (cd_gradp_cells (snd kl))
                             (cd_ir_files (snd kl)) (cd_ir_cells (snd kl))
                             do_gradp do_ir (floored (fst kl)) y_start nspecies;
                 Some (level_name (Z.of_nat (fst kl)), dir))
             (combine (seq 0 (length (map al_disk (ac_levels c)))) (map al_disk (ac_levels c)))
    = Some (map (pl_dir (blen fields)) (pf_levels (conv_pf c)))).
  { rewrite (combine_seq_map al_disk (ac_levels c) 0). rewrite omap_all_map_pre.
    cbn [conv_pf pf_levels]. rewrite map_map.
    apply (omap_all_combine_seq _ (fun k al => pl_dir (blen fields) (conv_level c k al))).
    intros k al Hk. cbn [fst snd Nat.add al_disk cd_state_files cd_state_cells cd_gradp_files cd_gradp_cells cd_ir_files cd_ir_cells].
    destruct (Hlv k al Hk) as (Hw & Hb & Hconv & Hnames & Hok).
    pose proof (convert_level_dir_spec (al_gradp_files al) (al_ir_files al) (al_gradp_cells al) (al_ir_cells al) do_gradp do_ir
                  (floored k) y_start nspecies (al_state al) Hw (boxes_at c k) Hb (al_comps al) Hconv Hnames Hok
                  (blen fields) (chk_lb frepr bounds (ac_h c) (Z.of_nat k))) as [Hd _].
    unfold boxes_at in Hd. rewrite Hd. cbn [obind].
    unfold conv_level, pl_dir. cbn [fst snd]. reflexivity. }
  rewrite Hdirs. cbn [obind].
  unfold pf_disk. f_equal. f_equal.
  - rewrite (write_global_header_print frepr dx_row bounds (ac_h c) fields (blen fields) eq_refl Hg).
    f_equal. f_equal. cbn [conv_pf pf_g pf_levels]. rewrite map_map.
    unfold chk_lvs, levels_upto. rewrite <- Hlen. apply chk_lvs_combine.
Qed.
End Tool.

(* ------------------------------------------------------------------ *)
(** * The converted plotfile is an admissible input of the other tool theorems *)
From AK Require Import Writers.ColanderSpec Writers.ColanderPipeline Writers.ColanderToolProofs Writers.ChefTokenProofs Writers.RelistProofs.

Section Good.
Variable frepr : token -> token.
Variable dx_row : Z -> list token.
Variable bounds : Z -> list (list (token * token)).
Variable species : list bytes.
Variable do_gradp do_ir : bool.
Variable floored : nat -> option (list (list bytes)).
Variable y_start nspecies : Z.

Let fields := chk_fields species do_gradp do_ir.

Lemma word_rows_ok (rows : list (list bytes)) :
  Forall (Forall (fun t => float_ok t = true /\ no_char ","%char t)) (map (map word_token) rows).
Proof.
  apply Forall_map. apply Forall_forall. intros r _. apply Forall_map. apply Forall_forall. intros w _.
  split; [apply word_token_float_ok | apply word_token_no_comma].
Qed.

Lemma combine_seq_nth_error {A} : forall (l : list A) s kl,
  In kl (combine (seq s (length l)) l) -> nth_error l (fst kl - s) = Some (snd kl) /\ (s <= fst kl)%nat.
Proof.
  induction l as [|a l IH]; intros s kl H; [destruct H|].
  cbn [length seq combine] in H. destruct H as [<- | H].
  - cbn [fst snd]. rewrite Nat.sub_diag. split; [reflexivity|lia].
  - destruct (IH (S s) kl H) as [E Hle]. split; [|lia].
    replace (fst kl - s)%nat with (S (fst kl - S s))%nat by lia. exact E.
Qed.

(* every converted box holds one component per output field, every level has a box *)
Definition counts_ok (c : achk) : Prop :=
  forall k al, nth_error (ac_levels c) k = Some al ->
    lv_fabs (al_state al) <> [] /\
    forall i, (i < length (lv_fabs (al_state al)))%nat -> blen (al_comps al i) = blen fields.

Theorem conv_pf_good : forall c,
  wf_written frepr dx_row bounds (ac_h c) ->
  length (ac_levels c) = Z.to_nat (ch_max_level (ac_h c) + 1) ->
  (forall k al, nth_error (ac_levels c) k = Some al -> level_ok do_gradp do_ir floored y_start nspecies c k al) ->
  counts_ok c ->
  good (conv_pf frepr dx_row bounds species do_gradp do_ir c).
Proof.
  intros c Hw Hlen Hlv Hcnt.
  pose proof Hw as (Hml & Hnd & Hg & _).
  unfold good. split; [|split; [|split]].
  - (* wf_plotfile *)
    unfold wf_plotfile. cbn [conv_pf pf_g pf_levels]. split; [|split; [|split]].
    + apply (chk_g_wf frepr dx_row bounds). exact Hw.
    + unfold blen. rewrite map_length, combine_length, seq_length, Nat.min_id, Hlen. cbn [chk_g g_max_level]. lia.
    + rewrite map_map. cbn [conv_level conv_plevel pl_boxes chk_lb lb_cell_dir].
      assert (E : forall (l : list chk_alevel) s,
                 NoDup (map (fun x : nat * chk_alevel => bs "Level_" ++ str_of_Z (Z.of_nat (fst x))) (combine (seq s (length l)) l))).
      { induction l as [|a l IH]; intros s; [constructor|].
        cbn [length seq combine map fst]. constructor; [|apply IH].
        intros Hin. apply in_map_iff in Hin. destruct Hin as (kl & Hk & Hin).
        apply (level_name_inj (Z.of_nat (fst kl)) (Z.of_nat s)) in Hk.
        destruct (combine_seq_nth_error l (S s) kl Hin) as [_ Hle]. lia. }
      apply E.
    + apply Forall_map. apply Forall_forall. intros kl Hin.
      destruct (combine_seq_nth_error (ac_levels c) 0 kl Hin) as [Hk _]. rewrite Nat.sub_0_r in Hk.
      destruct (Hlv _ _ Hk) as (Hwf & Hb & Hconv & Hnames & Hok).
      destruct (Hcnt _ _ Hk) as (Hne & Hnc).
      assert (Hlt : (fst kl < length (ac_levels c))%nat) by (apply nth_error_Some; rewrite Hk; discriminate).
      assert (Hkl : 0 <= Z.of_nat (fst kl) <= ch_max_level (ac_h c)) by lia.
      unfold wf_plevel, conv_level. cbn [conv_plevel pl_boxes pl_level pl_mins pl_maxs].
      cbn [chk_g g_ndims]. rewrite Hnd.
      split.
      { pose proof (chk_lvs_wf frepr dx_row bounds (ac_h c) Hw) as HF. unfold chk_lvs in HF.
        rewrite Forall_map, Forall_forall in HF. apply HF. unfold levels_upto. apply in_map.
        apply in_seq. lia. }
      split.
      { exact (proj2 (convert_level_dir_spec (al_gradp_files (snd kl)) (al_ir_files (snd kl)) (al_gradp_cells (snd kl))
                        (al_ir_cells (snd kl)) do_gradp do_ir (floored (fst kl)) y_start nspecies (al_state (snd kl)) Hwf
                        (boxes_at c (fst kl)) Hb (al_comps (snd kl)) Hconv Hnames Hok 0
                        (chk_lb frepr bounds (ac_h c) (Z.of_nat (fst kl))))). }
      cbn [conv_listed relisted conv_lv renamed lv_fabs].
      split.
      { intros E. apply (f_equal (@length fab)) in E. rewrite map_length, seq_length in E.
        destruct (lv_fabs (al_state (snd kl))); [congruence|discriminate E]. }
      split.
      { cbn [chk_lb lb_ncells]. unfold blen. rewrite map_length, seq_length. unfold boxes_at in Hb.
        rewrite Nat2Z.id, Hb. reflexivity. }
      split.
      { apply Forall_map. apply Forall_forall. intros i Hi. apply in_seq in Hi.
        unfold conv_i, conv_fab. cbn [fab_nc]. unfold pf_nfields. cbn [conv_pf pf_g chk_g g_names]. apply Hnc. lia. }
      split; [rewrite !map_length; reflexivity|]. split; [rewrite !map_length; reflexivity|].
      split; [rewrite <- map_map; apply word_rows_ok | rewrite <- map_map; apply word_rows_ok].
  - (* std_dirs *)
    intros k pl Hk. cbn [conv_pf pf_levels] in Hk.
    rewrite nth_error_map in Hk. destruct (nth_error (combine (seq 0 (length (ac_levels c))) (ac_levels c)) k) as [kl|] eqn:E; [|discriminate].
    cbn [option_map] in Hk. injection Hk as <-.
    cbn [conv_level conv_plevel pl_boxes chk_lb lb_cell_dir].
    pose proof (nth_error_combine_seq' (ac_levels c) 0 k kl E) as [Hf _]. rewrite Hf. reflexivity.
  - (* wf_counts *)
    unfold wf_counts. cbv zeta. cbn [conv_pf pf_g chk_g g_grid_hi g_max_level g_steps g_ndims].
    unfold blen, levels_upto. rewrite !map_length, seq_length. split; [lia|]. split; [lia|]. right. exact Hnd.
  - (* wf_rows *)
    unfold wf_rows. cbn [conv_pf pf_levels]. apply Forall_map. apply Forall_forall. intros kl Hin.
    destruct (combine_seq_nth_error (ac_levels c) 0 kl Hin) as [Hk _]. rewrite Nat.sub_0_r in Hk.
    destruct (Hcnt _ _ Hk) as (_ & Hnc).
    cbn [conv_level conv_plevel pl_mins pl_maxs]. unfold pf_nfields. cbn [conv_pf pf_g chk_g g_names].
    split; apply Forall_map; apply Forall_forall; intros i Hi; apply in_seq in Hi;
      unfold blen; rewrite !map_length; apply Hnc; lia.
Qed.
End Good.

(* a conversion followed by a strain *)
Theorem chk2plt_then_colander : forall whole to_int frepr dx_row bounds species do_gradp do_ir floored y_start nspecies
    n_state n_gradp n_ir c vars limit lim d,
  wf_chk whole to_int (ac_h c) -> wf_written frepr dx_row bounds (ac_h c) ->
  chk_nfields_out n_state n_gradp n_ir do_gradp do_ir = blen (chk_fields species do_gradp do_ir) ->
  length (ac_levels c) = Z.to_nat (ch_max_level (ac_h c) + 1) ->
  (forall k al, nth_error (ac_levels c) k = Some al -> level_ok do_gradp do_ir floored y_start nspecies c k al) ->
  counts_ok species do_gradp do_ir c ->
  chk2plt_tool whole to_int frepr dx_row bounds species do_gradp do_ir floored y_start nspecies n_state n_gradp n_ir (achk_disk c) = Some d ->
  eff_limit (ch_max_level (ac_h c)) limit = Some lim -> 0 <= lim ->
  fst (resolve_vars (field_keys (chk_fields species do_gradp do_ir) []) vars) <> [] ->
  colander vars limit d = Some (pf_disk (colander_spec vars lim (conv_pf frepr dx_row bounds species do_gradp do_ir c))).
Proof.
  intros whole to_int frepr dx_row bounds species dg di fl ys ns n1 n2 n3 c vars limit lim d
         Hwf Hw Hn Hlen Hlv Hcnt Htool Heff Hlim Hvars.
  pose proof Hw as (_ & _ & Hg & _).
  rewrite (chk2plt_refines whole to_int frepr dx_row bounds species dg di fl ys ns n1 n2 n3 c Hwf Hn Hg Hlen Hlv) in Htool.
  injection Htool as <-.
  destruct (conv_pf_good frepr dx_row bounds species dg di fl ys ns c Hw Hlen Hlv Hcnt) as (G1 & G2 & G3 & G4).
  apply colander_refines; assumption.
Qed.
