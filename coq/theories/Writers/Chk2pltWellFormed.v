(* Well-formed abstract checkpoints are convertible: the per-level hypotheses
   of the tool theorem (level_ok) follow from STRUCTURE - state boxes stored with
   ghost cells, the gradp / I_R subsets levels of their own on the interiors,
   the flooring table of the right shape - in every mode.
   Standard library only, no axioms. *)
From AK Require Import Base.Prelude Bytes.Text Bytes.FabHeader Bytes.BinFile
  Reader.Select Reader.BoxRead Reader.Level Reader.ReadSpec Reader.IterProofs Plotfile.TextHeader Plotfile.HeaderSpec Plotfile.Abstract
  Taste.Taste Writers.Colander Writers.Chk2plt Writers.Chk2pltLevelProofs Writers.Chk2pltFullProofs
  Writers.ChkHeader Writers.ChkHeaderProofs Writers.Chk2pltTool Writers.Chk2pltToolProofs Writers.Chk2pltPipeline.

(* one level of a well-formed checkpoint *)
Record wlevel := {
  wl_state : level;                       (* state FABs with ghost cells, their file layout *)
  wl_gradp : option level;                (* the pressure-gradient subset, when it is converted *)
  wl_ir : option level;                   (* the reaction-rate subset, when it is converted *)
  wl_floor : option (list (list bytes))   (* with flooring: per box the rescaled species components *)
}.

Section WellFormed.
Variable g : Z.                           (* ghost cells of the state *)
Variable ys ns : Z.                       (* first species component, number of species *)

Definition alevel_of (wl : wlevel) : chk_alevel :=
  {| al_state := wl_state wl;
     al_gradp_files := sub_files (wl_gradp wl); al_gradp_cells := sub_cells (wl_gradp wl);
     al_ir_files := sub_files (wl_ir wl); al_ir_cells := sub_cells (wl_ir wl);
     al_comps := full_of g (wl_state wl) (wl_gradp wl) (wl_ir wl) (wl_floor wl) ys |}.

Definition achk_of (h : chk_header) (wls : list wlevel) : achk := {| ac_h := h; ac_levels := map alevel_of wls |}.

(* what "well-formed" means for level k with index ranges [boxes] *)
Definition wlevel_ok (do_gradp do_ir : bool) (boxes : list (list Z * list Z)) (wl : wlevel) : Prop :=
  let slv := wl_state wl in
  wf_level slv = true /\
  length boxes = length (lv_fabs slv) /\
  (forall i, (i < length (lv_fabs slv))%nat -> ghosted g (nth i (lv_fabs slv) dummy_fab) (nth i boxes ([], []))) /\
  NoDup (map (fun nf : bytes * list nat => cell_name (fst nf)) (lv_files slv)) /\
  sub_on (wl_gradp wl) = do_gradp /\ sub_on (wl_ir wl) = do_ir /\
  subset_ok slv boxes (wl_gradp wl) /\ subset_ok slv boxes (wl_ir wl) /\
  (forall i, (i < length (lv_fabs slv))%nat ->
     match wl_floor wl with
     | Some tbl => exists new, nth_error tbl i = Some new /\ Z.of_nat (length new) = ns /\
                               Forall (fun c => blen c = 8 * interior_cells (nth i boxes ([], []))) new
     | None => True end).

Theorem wlevel_level_ok : forall do_gradp do_ir h wls k wl,
  1 <= g ->
  nth_error wls k = Some wl ->
  wlevel_ok do_gradp do_ir (nth k (ch_boxes h) []) wl ->
  level_ok do_gradp do_ir (fun j => match nth_error wls j with Some w => wl_floor w | None => None end) ys ns
           (achk_of h wls) k (alevel_of wl).
Proof.
  intros dg di h wls k wl Hg Hk (Hwf & Hb & Hgh & Hn & Hdg & Hdi & Hgl & Hrl & Hfl).
  unfold level_ok. cbv zeta. cbn [alevel_of al_state al_gradp_files al_gradp_cells al_ir_files al_ir_cells al_comps].
  unfold boxes_at. cbn [achk_of ac_h]. rewrite Hk.
  assert (Hfok : forall i, (i < length (lv_fabs (wl_state wl)))%nat -> fab_ok (nth i (lv_fabs (wl_state wl)) dummy_fab) = true).
  { intros i Hi. pose proof (wf_level_fabs_ok _ Hwf) as H. rewrite forallb_forall in H. apply H. apply nth_In. exact Hi. }
  assert (Hbox : forall i, (i < length (lv_fabs (wl_state wl)))%nat ->
     box_comps (sub_files (wl_gradp wl)) (sub_files (wl_ir wl)) dg di (wl_floor wl) ys ns
               (fab_nc (nth i (lv_fabs (wl_state wl)) dummy_fab)) (fab_shape (nth i (lv_fabs (wl_state wl)) dummy_fab))
               (fab_data (nth i (lv_fabs (wl_state wl)) dummy_fab))
               (jobi (sub_cells (wl_gradp wl)) (sub_cells (wl_ir wl)) (nth k (ch_boxes h) []) i)
     = Some (full_of g (wl_state wl) (wl_gradp wl) (wl_ir wl) (wl_floor wl) ys i)
     /\ fab_ok (conv_fab (jobi (sub_cells (wl_gradp wl)) (sub_cells (wl_ir wl)) (nth k (ch_boxes h) []) i)
                         (full_of g (wl_state wl) (wl_gradp wl) (wl_ir wl) (wl_floor wl) ys i)) = true).
  { intros i Hi. unfold jobi, full_of. rewrite <- Hdg, <- Hdi.
    pose proof (full_box g (nth i (lv_fabs (wl_state wl)) dummy_fab) (nth i (nth k (ch_boxes h) []) ([], [])) i
                  (sub_files (wl_gradp wl)) (sub_files (wl_ir wl))
                  (nth i (sub_cells (wl_gradp wl)) ([], 0)) (nth i (sub_cells (wl_ir wl)) ([], 0))
                  (sub_fab (wl_gradp wl) i) (sub_fab (wl_ir wl) i) (wl_floor wl) ys ns
                  Hg (Hfok i Hi) (Hgh i Hi) (Hfl i Hi)
                  (subset_read (wl_state wl) (nth k (ch_boxes h) []) (wl_gradp wl) i Hgl Hi)
                  (subset_read (wl_state wl) (nth k (ch_boxes h) []) (wl_ir wl) i Hrl Hi)) as H.
    replace (match sub_fab (wl_gradp wl) i with Some _ => true | None => false end) with (sub_on (wl_gradp wl)) in H
      by (destruct (wl_gradp wl); reflexivity).
    replace (match sub_fab (wl_ir wl) i with Some _ => true | None => false end) with (sub_on (wl_ir wl)) in H
      by (destruct (wl_ir wl); reflexivity).
    exact H. }
  split; [exact Hwf|]. split; [exact Hb|]. split.
  - intros i Hi. exact (proj1 (Hbox i Hi)).
  - split; [exact Hn|]. intros i Hi. unfold conv_i. exact (proj2 (Hbox i Hi)).
Qed.

(* a well-formed abstract checkpoint is convertible *)
Theorem wellformed_convertible : forall whole to_int frepr dx_row bounds species do_gradp do_ir n_state n_gradp n_ir h wls,
  1 <= g ->
  wf_chk whole to_int h -> wf_written frepr dx_row bounds h ->
  chk_nfields_out n_state n_gradp n_ir do_gradp do_ir = blen (chk_fields species do_gradp do_ir) ->
  length wls = Z.to_nat (ch_max_level h + 1) ->
  (forall k wl, nth_error wls k = Some wl -> wlevel_ok do_gradp do_ir (nth k (ch_boxes h) []) wl) ->
  counts_ok species do_gradp do_ir (achk_of h wls) ->
  convertible whole to_int frepr dx_row bounds species do_gradp do_ir
              (fun j => match nth_error wls j with Some w => wl_floor w | None => None end) ys ns n_state n_gradp n_ir
              (achk_of h wls).
Proof.
  intros whole to_int frepr dx_row bounds species dg di n1 n2 n3 h wls Hg Hwf Hw Hn Hlen Hlv Hcnt.
  unfold convertible. cbn [achk_of ac_h ac_levels].
  split; [exact Hwf|]. split; [exact Hw|]. split; [exact Hn|]. split; [rewrite map_length; exact Hlen|]. split; [|exact Hcnt].
  intros k al Hk. rewrite nth_error_map in Hk.
  destruct (nth_error wls k) as [wl|] eqn:E; [|discriminate]. cbn [option_map] in Hk. injection Hk as <-.
  apply wlevel_level_ok; [exact Hg | exact E | exact (Hlv k wl E)].
Qed.
(* the component counts the level headers of the checkpoint announce hold for every box *)
Definition wcounts_ok (n_state n_gradp n_ir : Z) (wl : wlevel) : Prop :=
  lv_fabs (wl_state wl) <> [] /\
  Forall (fun f => fab_nc f = n_state) (lv_fabs (wl_state wl)) /\
  match wl_gradp wl with Some lv => Forall (fun f => fab_nc f = n_gradp) (lv_fabs lv) | None => True end /\
  match wl_ir wl with Some lv => Forall (fun f => fab_nc f = n_ir) (lv_fabs lv) | None => True end /\
  match wl_floor wl with Some _ => 0 <= ys /\ ys + ns <= n_state | None => True end.

Theorem wellformed_counts : forall species do_gradp do_ir n_state n_gradp n_ir h wls,
  1 <= g ->
  chk_nfields_out n_state n_gradp n_ir do_gradp do_ir = blen (chk_fields species do_gradp do_ir) ->
  (forall k wl, nth_error wls k = Some wl ->
     wlevel_ok do_gradp do_ir (nth k (ch_boxes h) []) wl /\ wcounts_ok n_state n_gradp n_ir wl) ->
  counts_ok species do_gradp do_ir (achk_of h wls).
Proof.
  intros species dg di n1 n2 n3 h wls Hg Hn Hlv k al Hk.
  cbn [achk_of ac_levels] in Hk. rewrite nth_error_map in Hk.
  destruct (nth_error wls k) as [wl|] eqn:E; [|discriminate]. cbn [option_map] in Hk. injection Hk as <-.
  destruct (Hlv k wl E) as ((Hwf & Hb & Hgh & _ & Hdg & Hdi & Hgl & Hrl & Hfl) & (Hne & Hns & Hng & Hnr & Hflo)).
  cbn [alevel_of al_state al_comps]. split; [exact Hne|]. intros i Hi.
  assert (Hfok : fab_ok (nth i (lv_fabs (wl_state wl)) dummy_fab) = true).
  { pose proof (wf_level_fabs_ok _ Hwf) as H. rewrite forallb_forall in H. apply H. apply nth_In. exact Hi. }
  unfold full_of.
  rewrite (full_comps_length g _ (nth i (nth k (ch_boxes h) []) ([], [])) _ ys _ _ Hg Hfok (Hgh i Hi)).
  - rewrite <- Hn. unfold chk_nfields_out.
    rewrite (proj1 (Forall_forall _ _) Hns _ (nth_In _ _ Hi)). rewrite <- Hdg, <- Hdi.
    f_equal; [f_equal|].
    + destruct (wl_gradp wl) as [lv|]; [|reflexivity]. cbn [sub_fab sub_on].
      destruct Hgl as (_ & Hl & _). apply (proj1 (Forall_forall _ _) Hng). apply nth_In. lia.
    + destruct (wl_ir wl) as [lv|]; [|reflexivity]. cbn [sub_fab sub_on].
      destruct Hrl as (_ & Hl & _). apply (proj1 (Forall_forall _ _) Hnr). apply nth_In. lia.
  - destruct (wl_floor wl) as [tbl|]; [|exact I].
    destruct (Hfl i Hi) as (new & Hnew & Hlen & _). rewrite (nth_error_nth tbl i [] Hnew).
    rewrite (proj1 (Forall_forall _ _) Hns _ (nth_In _ _ Hi)). unfold blen. rewrite Hlen. exact Hflo.
  - destruct (wl_gradp wl) as [lv|]; [|exact I]. cbn [sub_fab]. destruct Hgl as (Hw & Hl & _).
    pose proof (wf_level_fabs_ok _ Hw) as H. rewrite forallb_forall in H. apply H. apply nth_In. lia.
  - destruct (wl_ir wl) as [lv|]; [|exact I]. cbn [sub_fab]. destruct Hrl as (Hw & Hl & _).
    pose proof (wf_level_fabs_ok _ Hw) as H. rewrite forallb_forall in H. apply H. apply nth_In. lia.
Qed.

(* ... so that nothing about individual boxes is left to assume *)
Theorem wellformed_convertible_counts : forall whole to_int frepr dx_row bounds species do_gradp do_ir n_state n_gradp n_ir h wls,
  1 <= g ->
  wf_chk whole to_int h -> wf_written frepr dx_row bounds h ->
  chk_nfields_out n_state n_gradp n_ir do_gradp do_ir = blen (chk_fields species do_gradp do_ir) ->
  length wls = Z.to_nat (ch_max_level h + 1) ->
  (forall k wl, nth_error wls k = Some wl ->
     wlevel_ok do_gradp do_ir (nth k (ch_boxes h) []) wl /\ wcounts_ok n_state n_gradp n_ir wl) ->
  convertible whole to_int frepr dx_row bounds species do_gradp do_ir
              (fun j => match nth_error wls j with Some w => wl_floor w | None => None end) ys ns n_state n_gradp n_ir
              (achk_of h wls).
Proof.
  intros whole to_int frepr dx_row bounds species dg di n1 n2 n3 h wls Hg Hwf Hw Hn Hlen Hlv.
  apply wellformed_convertible; try assumption.
  - intros k wl Hk. exact (proj1 (Hlv k wl Hk)).
  - apply (wellformed_counts species dg di n1 n2 n3 h wls Hg Hn Hlv).
Qed.
End WellFormed.

Print Assumptions wellformed_convertible.
Print Assumptions wellformed_convertible_counts.
