(* amr_kitchen/chk2plt/chk2plt.py: Chk2plt.__init__ + convert as one function
   from the checkpoint directory (Header text; per level the binary files and
   (file, offset) tables of the state / gradp / I_R data subsets) to the
   plotfile directory written: per level convert_level_dir (Chk2plt.v), then
   write_global_header (ChkHeader.v).  Floating point enters through the
   parameters of those two models. *)
From AK Require Import Base.Prelude Bytes.Text Bytes.FabHeader Bytes.BinFile
  Reader.Select Reader.BoxRead Reader.Level Plotfile.TextHeader Taste.Taste
  Writers.Colander Writers.Chef Writers.Chk2plt Writers.ChkHeader.

Record chk_ldisk := {
  cd_state_files : list (bytes * bytes);  cd_state_cells : list (bytes * Z);
  cd_gradp_files : list (bytes * bytes);  cd_gradp_cells : list (bytes * Z);
  cd_ir_files : list (bytes * bytes);     cd_ir_cells : list (bytes * Z)
}.

Record chk_disk := { cdk_header : text; cdk_levels : list chk_ldisk }.

Section Tool.
Variable whole : token -> bool.
Variable to_int : token -> Z.
Variable frepr : token -> token.
Variable dx_row : Z -> list token.
Variable bounds : Z -> list (list (token * token)).
Variable species : list bytes.
Variable do_gradp do_ir : bool.
Variable floored : nat -> option (list (list bytes)).     (* per level: the rescaled species components of every box *)
Variable y_start nspecies : Z.
Variable n_state n_gradp n_ir : Z.                        (* component counts in the checkpoint's level headers *)

Definition chk2plt_tool (d : chk_disk) : option pdisk :=
  do hr <- p_chk whole to_int (cdk_header d);
  let h := fst hr in
  let fields := chk_fields species do_gradp do_ir in
  let nout := chk_nfields_out n_state n_gradp n_ir do_gradp do_ir in
  (* "The number of fields found in the checkpoint does not match ..." *)
  guard (nout =? blen fields);
  (* the level directories Level_0 .. Level_maxlv are read *)
  guard (length (cdk_levels d) =? Z.to_nat (ch_max_level h + 1))%nat;
  do dirs <- omap_all (fun kl : nat * chk_ldisk =>
                 do dir <- convert_level_dir nout (nth (fst kl) (ch_boxes h) [])
                             (cd_state_files (snd kl)) (cd_state_cells (snd kl))
                             (cd_gradp_files (snd kl)) (cd_gradp_cells (snd kl))
                             (cd_ir_files (snd kl)) (cd_ir_cells (snd kl))
                             do_gradp do_ir (floored (fst kl)) y_start nspecies;
                 Some (level_name (Z.of_nat (fst kl)), dir))
              (combine (seq 0 (length (cdk_levels d))) (cdk_levels d));
  Some {| pd_header := Some (write_global_header frepr dx_row bounds h fields nout); pd_dirs := dirs |}.
End Tool.
