(* chk2plt, one level: the sequential scan of a state file converts every box
   it holds, in file order; chk2plt.convert's per-file tasks and the mapping of
   their results back to box order give, for every box, in box order, the
   (file, offset) of ITS converted FAB and the minima / maxima of ITS
   components - for any distribution of the state boxes over files and any
   on-disk order.
   Standard library only, no axioms. *)
From AK Require Import Base.Prelude Bytes.Text Bytes.FabHeader Bytes.FabHeaderProofs
  Bytes.BinFile Bytes.Word Bytes.WordProofs Reader.Select Reader.BoxRead Reader.Level Reader.ReadSpec
  Reader.LayoutProofs Reader.ReadProofs Reader.IterProofs
  Plotfile.TextHeader Plotfile.HeaderSpec Plotfile.HeaderProofs
  Taste.Taste Taste.TasteSpec Plotfile.Abstract Taste.CompleteProofs Taste.DataProofs
  Writers.Colander Writers.ColanderSpec Writers.ColanderProofs Writers.ColanderLevelProofs Writers.ColanderToolProofs
  Writers.CombineProofs Writers.Chef Writers.ChefProofs Writers.ScatterProofs Writers.ChefLevelProofs Writers.RelistProofs Writers.Chk2plt Writers.Chk2pltProofs.
From Coq Require Import Permutation Sorted.

Section Convert.
Variable gradp_files ir_files : list (bytes * bytes).
Variable do_gradp do_ir : bool.
Variable floored : option (list (list bytes)).
Variable y_start nspecies : Z.

Definition job := (nat * (list Z * list Z) * (bytes * Z) * (bytes * Z))%type.
Definition job_lo (j : job) : list Z := fst (snd (fst (fst j))).
Definition job_hi (j : job) : list Z := snd (snd (fst (fst j))).

(* what write_plt_bin_from_chk makes of one state FAB: the components of the converted box *)
Definition box_comps (nc : Z) (shp : list Z) (data : bytes) (j : job) : option (list bytes) :=
  let '(gid, (lo, hi), (gname, goff), (rname, roff)) := j in
  match shp, lo, hi with
  | [sx; sy; sz], [l0; l1; l2], [h0; h1; h2] =>
      guard reshape_ok data (shp ++ [nc]);
      let bx := h0 - l0 + 1 in let by_ := h1 - l1 + 1 in let bz := h2 - l2 + 1 in
      let gx := (sx - bx) / 2 in let gy := (sy - by_) / 2 in let gz := (sz - bz) / 2 in
      guard ((0 <=? gx) && (0 <=? gy) && (0 <=? gz));
      let comps := strip_ghosts sx sy sz gx gy gz nc data in
      do comps <- match floored with
                  | None => Some comps
                  | Some tbl => do new <- nth_error tbl gid;
                                guard (Z.of_nat (length new) =? nspecies);
                                Some (replace_range (Z.to_nat y_start) new comps)
                  end;
      let cells := (if gx =? 0 then 0 else sx - 2 * gx) * (if gy =? 0 then 0 else sy - 2 * gy)
                   * (if gz =? 0 then 0 else sz - 2 * gz) in
      do comps <- (if do_gradp then
                     do r <- read_fab_at gradp_files gname goff;
                     let '(d, nc', gshp) := r in
                     guard (zprod gshp =? cells);
                     Some (comps ++ map (fun c => sub (8 * cells * c) (8 * cells) d) (zrange 0 nc'))
                   else Some comps);
      do comps <- (if do_ir then
                     do r <- read_fab_at ir_files rname roff;
                     let '(d, nc', rshp) := r in
                     guard (zprod rshp =? cells);
                     Some (comps ++ map (fun c => sub (8 * cells * c) (8 * cells) d) (zrange 0 nc'))
                   else Some comps);
      guard negb (length comps =? 0)%nat;
      Some comps
  | _, _, _ => None
  end.

Lemma chk_scan_step fuel f pos (j : job) jobs out h shp p1 :
  read_header f pos = Some (h, shp, p1) ->
  chk_scan gradp_files ir_files do_gradp do_ir floored y_start nspecies (S fuel) f pos (j :: jobs) out
  = match box_comps (h_nc h) shp (fromfile f p1 (zprod (shp ++ [h_nc h]))) j with
    | None => None
    | Some comps =>
        do rest <- chk_scan gradp_files ir_files do_gradp do_ir floored y_start nspecies fuel f
                     (p1 + blen (fromfile f p1 (zprod (shp ++ [h_nc h])))) jobs
                     (out ++ print_hdr (job_lo j) (job_hi j) (blen comps) ++ concat comps);
        Some (fst rest, (blen out, map comp_min comps, map comp_max comps) :: snd rest)
    end.
Proof.
  intros Hh. cbn [chk_scan]. rewrite Hh. cbv zeta.
  destruct j as [[[gid [lo hi]] [gname goff]] [rname roff]]. unfold box_comps, job_lo, job_hi. cbn [fst snd].
  destruct shp as [|sx [|sy [|sz [|? ?]]]]; try reflexivity.
  destruct lo as [|l0 [|l1 [|l2 [|? ?]]]]; try reflexivity.
  destruct hi as [|h0 [|h1 [|h2 [|? ?]]]]; try reflexivity.
  destruct (reshape_ok _ _); cbn [obind]; [|reflexivity].
  destruct ((0 <=? _) && (0 <=? _) && (0 <=? _)); cbn [obind]; [|reflexivity].
  destruct floored as [tbl|].
  - destruct (nth_error tbl gid) as [new|]; cbn [obind]; [|reflexivity].
    destruct (Z.of_nat (length new) =? nspecies); cbn [obind]; [|reflexivity].
    destruct do_gradp.
    + destruct (read_fab_at gradp_files gname goff) as [[[d nc'] gshp]|]; cbn [obind]; [|reflexivity].
      destruct (zprod gshp =? _); cbn [obind]; [|reflexivity].
      destruct do_ir.
      * destruct (read_fab_at ir_files rname roff) as [[[d2 nc2] rshp]|]; cbn [obind]; [|reflexivity].
        destruct (zprod rshp =? _); cbn [obind]; [|reflexivity].
        destruct (negb _); cbn [obind]; reflexivity.
      * cbn [obind]. destruct (negb _); cbn [obind]; reflexivity.
    + cbn [obind]. destruct do_ir.
      * destruct (read_fab_at ir_files rname roff) as [[[d2 nc2] rshp]|]; cbn [obind]; [|reflexivity].
        destruct (zprod rshp =? _); cbn [obind]; [|reflexivity].
        destruct (negb _); cbn [obind]; reflexivity.
      * cbn [obind]. destruct (negb _); cbn [obind]; reflexivity.
  - cbn [obind]. destruct do_gradp.
    + destruct (read_fab_at gradp_files gname goff) as [[[d nc'] gshp]|]; cbn [obind]; [|reflexivity].
      destruct (zprod gshp =? _); cbn [obind]; [|reflexivity].
      destruct do_ir.
      * destruct (read_fab_at ir_files rname roff) as [[[d2 nc2] rshp]|]; cbn [obind]; [|reflexivity].
        destruct (zprod rshp =? _); cbn [obind]; [|reflexivity].
        destruct (negb _); cbn [obind]; reflexivity.
      * cbn [obind]. destruct (negb _); cbn [obind]; reflexivity.
    + cbn [obind]. destruct do_ir.
      * destruct (read_fab_at ir_files rname roff) as [[[d2 nc2] rshp]|]; cbn [obind]; [|reflexivity].
        destruct (zprod rshp =? _); cbn [obind]; [|reflexivity].
        destruct (negb _); cbn [obind]; reflexivity.
      * cbn [obind]. destruct (negb _); cbn [obind]; reflexivity.
Qed.

(* the converted box *)
Definition conv_fab (j : job) (comps : list bytes) : fab :=
  {| fab_lo := job_lo j; fab_hi := job_hi j; fab_nc := blen comps; fab_data := concat comps |}.

(* the scan of a state file: every box converted, in file order *)
Theorem chk_scan_spec : forall (sfs : list fab) (jobs : list job) (compss : list (list bytes)) fuel pre out0,
  Forall2 (fun sfb jc => fab_ok sfb = true /\
                         box_comps (fab_nc sfb) (fab_shape sfb) (fab_data sfb) (fst jc) = Some (snd jc))
          sfs (combine jobs compss) ->
  length jobs = length sfs -> length compss = length sfs -> (length sfs < fuel)%nat ->
  let outs := map (fun jc => conv_fab (fst jc) (snd jc)) (combine jobs compss) in
  chk_scan gradp_files ir_files do_gradp do_ir floored y_start nspecies fuel (pre ++ encode_file sfs) (blen pre) jobs out0
  = Some (out0 ++ encode_file outs,
          map (fun kjc => (blen out0 + fab_offset outs (fst kjc), map comp_min (snd (snd kjc)), map comp_max (snd (snd kjc))))
              (combine (seq 0 (length sfs)) (combine jobs compss))).
Proof.
  induction sfs as [|sfb sfs IH]; intros jobs compss fuel pre out0 HF Hj Hc Hfuel; cbv zeta.
  - destruct jobs; [|discriminate]. destruct compss; [|discriminate].
    destruct fuel as [|fuel]; [cbn in Hfuel; lia|].
    cbn [chk_scan combine map length seq]. rewrite encode_file_nil, read_header_eof, app_nil_r. reflexivity.
  - destruct jobs as [|j jobs]; [discriminate|]. destruct compss as [|comps compss]; [discriminate|].
    cbn [combine] in HF. inversion HF as [|a1 b1 l1 l2 Hhd HF' E1 E2]. destruct Hhd as [Hok Hbox]. cbn [fst snd] in Hbox. clear HF. rename HF' into HF.
    destruct fuel as [|fuel]; [cbn in Hfuel; lia|]. cbn [length] in Hj, Hc, Hfuel.
    rewrite encode_file_cons.
    rewrite (chk_scan_step fuel _ _ j jobs out0 _ _ _ (read_header_at pre sfb (encode_file sfs) Hok)).
    cbn [h_nc]. rewrite (whole_payload pre sfb (encode_file sfs) Hok), Hbox.
    destruct (fab_ok_inv sfb Hok) as (_ & _ & _ & _ & _ & Hd).
    replace (blen pre + blen (fab_hdr sfb) + blen (fab_data sfb)) with (blen (pre ++ encode_fab sfb))
      by (rewrite blen_app; unfold encode_fab; rewrite blen_app; ring).
    replace (pre ++ encode_fab sfb ++ encode_file sfs) with ((pre ++ encode_fab sfb) ++ encode_file sfs)
      by (rewrite <- app_assoc; reflexivity).
    set (chunk := print_hdr (job_lo j) (job_hi j) (blen comps) ++ concat comps).
    assert (Hchunk : chunk = encode_fab (conv_fab j comps)) by reflexivity.
    rewrite (IH jobs compss fuel (pre ++ encode_fab sfb) (out0 ++ chunk) HF ltac:(lia) ltac:(lia) ltac:(lia)).
    cbn [obind fst snd]. rewrite Hchunk.
    apply f_equal. apply (f_equal2 pair).
    + cbn [combine map]. rewrite encode_file_cons, <- app_assoc. reflexivity.
    + cbn [length seq combine map fst snd]. rewrite ColanderProofs.fab_offset_0, Z.add_0_r.
      apply f_equal2; [reflexivity|].
      rewrite <- seq_shift. rewrite combine_map_l_local. rewrite map_map.
      apply map_ext. intros [k [j' c']]. cbn [fst snd].
      rewrite ColanderProofs.fab_offset_S, blen_app. unfold fab_size. f_equal. f_equal. lia.
Qed.
End Convert.

Print Assumptions chk_scan_spec.

(* ------------------------------------------------------------------ *)
(** * the boxes of a state file sorted by recorded offset, for ANY list of index ranges *)
Section DiskOrderGen.
Variable lv : level.
Hypothesis Hwf : wf_level lv = true.
Variable idx : list (list Z * list Z).
Hypothesis Hidxlen : length idx = length (lv_fabs lv).

Let n := length (lv_fabs lv).

Definition gquad (i : nat) : list Z * list Z * bytes * Z :=
  (fst (nth i idx ([], [])), snd (nth i idx ([], [])), fst (loc_of lv i), snd (loc_of lv i)).

Lemma zip_boxes_gen : zip_boxes idx (map fst (cells_or_nil lv)) (map snd (cells_or_nil lv)) = map gquad (seq 0 n).
Proof.
  rewrite (proj2 (cells_or_nil_spec lv Hwf)), !map_map. fold n.
  rewrite <- (map_nth_seq ([], []) idx) at 1. rewrite Hidxlen. fold n.
  rewrite (zip_boxes_map (fun i => nth i idx ([], [])) (fun i => fst (loc_of lv i)) (fun i => snd (loc_of lv i))). reflexivity.
Qed.

Lemma boxes_of_file_gen name : forall m s,
  boxes_of_file name (map gquad (seq s m)) s
  = map (fun i => (i, (fst (nth i idx ([], [])), snd (nth i idx ([], [])), snd (loc_of lv i))))
        (filter (fun i => bytes_eqb (fst (loc_of lv i)) name) (seq s m)).
Proof.
  induction m as [|m IH]; intros s; [reflexivity|].
  cbn [seq map boxes_of_file filter]. unfold gquad at 1.
  destruct (bytes_eqb (fst (loc_of lv s)) name); cbn [map]; rewrite IH; reflexivity.
Qed.

Theorem disk_order_ids_gen : forall name ids, In (name, ids) (lv_files lv) ->
  map fst (sort_off (boxes_of_file name (zip_boxes idx (map fst (cells_or_nil lv)) (map snd (cells_or_nil lv))) 0)) = ids.
Proof.
  intros name ids Hin. rewrite zip_boxes_gen, boxes_of_file_gen, sort_off_is_sort_by.
  set (g := fun i => (i, (fst (nth i idx ([], [])), snd (nth i idx ([], [])), snd (loc_of lv i)))).
  rewrite (sort_by_unique _ _ (map g ids)).
  - rewrite map_map. cbn [g fst]. apply map_id.
  - apply Permutation_map. exact (filter_file_perm lv Hwf name ids Hin).
  - rewrite (map_via_seq 0%nat g ids).
    apply StronglySorted_map_seq. intros i j Hij Hj. unfold key_lt, g. cbn [snd].
    unfold loc_of. rewrite !(locate_nth lv Hwf name ids Hin) by lia. cbn [snd].
    apply fab_offset_lt. rewrite file_fabs_length. lia.
Qed.
End DiskOrderGen.

(* ------------------------------------------------------------------ *)
(** * a level whose boxes are replaced and whose files are renamed, box -> file layout kept *)
Section Renamed.
Variable lv : level.
Hypothesis Hwf : wf_level lv = true.
Variable f : bytes -> bytes.
Variable fabs' : list fab.
Hypothesis Hlen : length fabs' = length (lv_fabs lv).
Hypothesis Hok : forallb fab_ok fabs' = true.
Hypothesis Hinj : NoDup (map (fun nf : bytes * list nat => f (fst nf)) (lv_files lv)).

Let n := length (lv_fabs lv).
Let g (nf : bytes * list nat) : bytes * list nat := (f (fst nf), snd nf).

Definition renamed : level := {| lv_fabs := fabs'; lv_files := map g (lv_files lv) |}.

Lemma renamed_ids : map snd (lv_files renamed) = map snd (lv_files lv).
Proof. cbn [renamed lv_files]. rewrite map_map. apply map_ext. intros [a b]. reflexivity. Qed.

Theorem wf_renamed : wf_level renamed = true.
Proof.
  pose proof Hwf as H. unfold wf_level in H |- *.
  apply andb_true_iff in H. destruct H as [H H5].
  apply andb_true_iff in H. destruct H as [H H4].
  apply andb_true_iff in H. destruct H as [H H3].
  apply andb_true_iff in H. destruct H as [H1 H2].
  rewrite renamed_ids. change (lv_fabs renamed) with fabs'. rewrite Hlen, Hok, H3, H4, H5, !andb_true_r. cbn [andb].
  apply NoDup_distinct_names. cbn [renamed lv_files]. rewrite map_map. exact Hinj.
Qed.

Lemma locate_renamed : forall files b c, locate lv files b = Some c ->
  exists ids k, In (fst c, ids) files /\ pos_in b ids 0 = Some k /\
                locate renamed (map g files) b = Some (f (fst c), fab_offset (file_fabs renamed ids) k).
Proof.
  induction files as [|[nm ids] files IH]; intros b c H; cbn [locate] in H; [discriminate|].
  cbn [map g fst snd locate]. destruct (pos_in b ids 0) as [k|] eqn:E.
  - injection H as <-. exists ids, k. cbn [fst]. split; [left; reflexivity|]. split; [exact E | reflexivity].
  - destruct (IH b c H) as (ids' & k & Hin & Hp & Hl). exists ids', k. split; [right; exact Hin|]. split; assumption.
Qed.

Lemma renamed_loc i : (i < n)%nat ->
  loc_of renamed i = (f (fst (loc_of lv i)),
                      fab_offset (file_fabs renamed (ids_of lv (fst (loc_of lv i)))) (posn (ids_of lv (fst (loc_of lv i))) i)).
Proof.
  intros Hi. destruct (locate_total lv i Hwf Hi) as [c Hc].
  destruct (locate_renamed _ _ _ Hc) as (ids & k & Hin & Hp & Hl).
  unfold loc_of. cbn [renamed lv_files]. change (map g (lv_files lv)) with (map g (lv_files lv)) in Hl. rewrite Hl, Hc.
  rewrite (ids_of_in lv Hwf _ ids Hin). unfold posn. rewrite Hp. reflexivity.
Qed.

Lemma renamed_cells :
  cells_or_nil renamed
  = map (fun i => (f (fst (loc_of lv i)),
                   fab_offset (file_fabs renamed (ids_of lv (fst (loc_of lv i)))) (posn (ids_of lv (fst (loc_of lv i))) i)))
        (seq 0 n).
Proof.
  rewrite (proj2 (cells_or_nil_spec renamed wf_renamed)). change (lv_fabs renamed) with fabs'. rewrite Hlen. fold n.
  apply map_ext_in. intros i Hi. apply in_seq in Hi. apply renamed_loc. lia.
Qed.
End Renamed.

(* ------------------------------------------------------------------ *)
(** * the whole level *)
Section Level.
Variable gradp_files ir_files : list (bytes * bytes).
Variable gradp_cells ir_cells : list (bytes * Z).
Variable do_gradp do_ir : bool.
Variable floored : option (list (list bytes)).
Variable y_start nspecies : Z.
Variable slv : level.                           (* the state FABs (with ghost cells) and their layout *)
Hypothesis Hwf : wf_level slv = true.
Variable boxes : list (list Z * list Z).       (* the index ranges of the boxes, without ghosts *)
Hypothesis Hboxes : length boxes = length (lv_fabs slv).
Variable comps_of : nat -> list bytes.          (* the components of converted box i *)

Let n := length (lv_fabs slv).
Let sf (i : nat) : fab := nth i (lv_fabs slv) dummy_fab.
Definition jobi (i : nat) : job := (i, nth i boxes ([], []), nth i gradp_cells ([], 0), nth i ir_cells ([], 0)).

Hypothesis Hconv : forall i, (i < n)%nat ->
  box_comps gradp_files ir_files do_gradp do_ir floored y_start nspecies
            (fab_nc (sf i)) (fab_shape (sf i)) (fab_data (sf i)) (jobi i) = Some (comps_of i).

Definition conv_i (i : nat) : fab := conv_fab (jobi i) (comps_of i).
Definition outs_of (name : bytes) : list fab := map conv_i (ids_of slv name).
Definition crecs_of (name : bytes) : list (Z * list bytes * list bytes) :=
  map (fun k => (fab_offset (outs_of name) k,
                 map comp_min (comps_of (nth k (ids_of slv name) 0%nat)),
                 map comp_max (comps_of (nth k (ids_of slv name) 0%nat))))
      (seq 0 (length (ids_of slv name))).

Lemma scan_state_file : forall name ids, In (name, ids) (lv_files slv) ->
  chk_scan gradp_files ir_files do_gradp do_ir floored y_start nspecies
           (S (length (encode_file (file_fabs slv ids)))) (encode_file (file_fabs slv ids)) 0 (map jobi ids) []
  = Some (encode_file (outs_of name), crecs_of name).
Proof.
  intros name ids Hin.
  assert (Hlt : forall i, In i ids -> (i < n)%nat).
  { intros i Hi. destruct (wf_level_parts slv Hwf) as (_ & H & _). apply H. apply (ids_in_concat slv name ids Hin). exact Hi. }
  set (fs := file_fabs slv ids).
  assert (HF : Forall2 (fun sfb jc => fab_ok sfb = true /\
                          box_comps gradp_files ir_files do_gradp do_ir floored y_start nspecies
                                    (fab_nc sfb) (fab_shape sfb) (fab_data sfb) (fst jc) = Some (snd jc))
                       fs (combine (map jobi ids) (map comps_of ids))).
  { unfold fs, file_fabs. revert Hlt. generalize ids. induction ids0 as [|i l IH]; intros Hl; [constructor|].
    cbn [map combine]. constructor.
    - cbn [fst snd]. assert (Hi : (i < n)%nat) by (apply Hl; left; reflexivity). split.
      + pose proof (wf_level_fabs_ok slv Hwf) as H. rewrite forallb_forall in H. apply H. apply nth_In. exact Hi.
      + exact (Hconv i Hi).
    - apply IH. intros x Hx. apply Hl. right. exact Hx. }
  assert (Hfuel : (length fs < S (length (encode_file fs)))%nat).
  { assert (G : forall l : list fab, (length l <= length (encode_file l))%nat).
    { induction l as [|fb l IHl]; [cbn; lia|]. rewrite encode_file_cons, app_length. cbn [length].
      pose proof (fab_size_pos fb) as Hp. unfold fab_size, blen in Hp. lia. }
    specialize (G fs). lia. }
  assert (Hl : length fs = length ids) by apply file_fabs_length.
  pose proof (chk_scan_spec gradp_files ir_files do_gradp do_ir floored y_start nspecies fs (map jobi ids) (map comps_of ids) _ [] []
                HF ltac:(rewrite map_length; symmetry; exact Hl) ltac:(rewrite map_length; symmetry; exact Hl) Hfuel) as Hs.
  cbv zeta in Hs. cbn [app] in Hs. change (blen []) with 0 in Hs. rewrite Hs.
  unfold crecs_of, outs_of. rewrite !(ids_of_in slv Hwf name ids Hin).
  rewrite combine_map_both, map_map. cbn [fst snd]. fold conv_i. f_equal. f_equal.
  rewrite Hl.
  assert (Hcomb : forall l0 : list nat, combine (seq 0 (length l0)) (map (fun x => (jobi x, comps_of x)) l0)
                  = map (fun k => (k, (jobi (nth k l0 0%nat), comps_of (nth k l0 0%nat)))) (seq 0 (length l0))).
  { intros l0. rewrite (map_via_seq 0%nat (fun x => (jobi x, comps_of x)) l0).
    generalize (seq 0 (length l0)). intros sq. rewrite <- (map_id sq) at 1. rewrite combine_map_both. reflexivity. }
  rewrite Hcomb, map_map. apply map_ext. intros k. cbn [fst snd]. rewrite Z.add_0_l. reflexivity.
Qed.

Definition cresult_of (name : bytes) : bytes * bytes * list nat * list (Z * list bytes * list bytes) :=
  (cell_name name, encode_file (outs_of name), ids_of slv name, crecs_of name).

Lemma crecs_length name : length (crecs_of name) = length (ids_of slv name).
Proof. unfold crecs_of. rewrite map_length, seq_length. reflexivity. Qed.

Theorem convert_level_spec :
  convert_level boxes (lv_disk slv) (cells_or_nil slv) gradp_files gradp_cells ir_files ir_cells do_gradp do_ir floored y_start nspecies
  = Some (map (fun name => (cell_name name, encode_file (outs_of name))) (np_unique (map fst (cells_or_nil slv))),
          map (fun i => (cell_name (fst (loc_of slv i)),
                         fab_offset (outs_of (fst (loc_of slv i))) (posn (ids_of slv (fst (loc_of slv i))) i))) (seq 0 n),
          map (fun i => map comp_min (comps_of i)) (seq 0 n),
          map (fun i => map comp_max (comps_of i)) (seq 0 n)).
Proof.
  unfold convert_level. cbv zeta.
  rewrite (omap_all_map _ cresult_of).
  2:{ intros name Hname. destruct (name_has_file slv Hwf name Hname) as [ids Hin].
      rewrite (lookup_lv_disk slv name ids Hwf Hin). cbn [obind].
      rewrite (disk_order_ids_gen slv Hwf boxes Hboxes name ids Hin).
      change (map (fun i => (i, nth i boxes ([], []), nth i gradp_cells ([], 0), nth i ir_cells ([], 0))) ids) with (map jobi ids).
      rewrite (scan_state_file name ids Hin). cbn [obind fst snd].
      rewrite crecs_length, (ids_of_in slv Hwf name ids Hin), Nat.eqb_refl. cbn [obind].
      unfold cresult_of. rewrite (ids_of_in slv Hwf name ids Hin). reflexivity. }
  cbn [obind]. rewrite Hboxes. fold n.
  assert (Hnin : forall i, (i < n)%nat -> existsb (bytes_eqb (fst (loc_of slv i))) (np_unique (map fst (cells_or_nil slv))) = true).
  { intros i Hi. apply existsb_exists. exists (fst (loc_of slv i)). split; [|apply bytes_eqb_refl].
    apply np_unique_In. rewrite (names_eq slv Hwf). apply in_map_iff. exists i. split; [reflexivity | apply in_seq; fold n; lia]. }
  f_equal. f_equal; [f_equal; [f_equal|]|].
  - rewrite map_map. reflexivity.
  - (* (file, offset) of every box, in box order *)
    rewrite fold_left_map. cbn [cresult_of fst snd].
    apply (nth_ext _ _ ([], 0) ([], 0)).
    + rewrite fold_scatter_rows_length, repeat_length, map_length, seq_length. reflexivity.
    + intros i Hi. rewrite fold_scatter_rows_length, repeat_length in Hi.
      rewrite (fold_scatter_rows (@pair bytes Z [] 0) n (fun i => fst (loc_of slv i)) (ids_of slv) _ (ids_of_spec slv Hwf) (ids_of_nodup slv Hwf));
        [| intros name; rewrite map_length; apply crecs_length | exact Hi | apply np_unique_NoDup | apply repeat_length].
      rewrite (Hnin i Hi).
      rewrite (nth_indep (map _ (seq 0 n)) ([], 0) ((fun i0 => (cell_name (fst (loc_of slv i0)),
                         fab_offset (outs_of (fst (loc_of slv i0))) (posn (ids_of slv (fst (loc_of slv i0))) i0))) 0%nat))
        by (rewrite map_length, seq_length; exact Hi).
      rewrite (map_nth (fun i0 => (cell_name (fst (loc_of slv i0)),
                         fab_offset (outs_of (fst (loc_of slv i0))) (posn (ids_of slv (fst (loc_of slv i0))) i0)))), seq_nth by exact Hi.
      cbn [Nat.add].
      set (name := fst (loc_of slv i)). set (ids := ids_of slv name).
      assert (Hin : In i ids) by (apply (ids_of_spec slv Hwf); split; [exact Hi | reflexivity]).
      destruct (pos_in_complete i _ 0%nat Hin) as [kk Hk]. destruct (pos_in_spec _ _ _ Hk) as [Hnth Hkl].
      unfold posn. rewrite Hk. unfold crecs_of. fold ids. rewrite map_map. cbn [fst].
      rewrite (nth_indep _ ([], 0) ((fun k => (cell_name name, fab_offset (outs_of name) k)) 0%nat)) by (rewrite map_length, seq_length; exact Hkl).
      rewrite (map_nth (fun k => (cell_name name, fab_offset (outs_of name) k))), seq_nth by exact Hkl. reflexivity.
  - (* minima *)
    rewrite fold_left_map. cbn [cresult_of fst snd].
    apply (nth_ext _ _ [] []).
    + rewrite fold_scatter_rows_length, repeat_length, map_length, seq_length. reflexivity.
    + intros i Hi. rewrite fold_scatter_rows_length, repeat_length in Hi.
      rewrite (fold_scatter_rows [] n (fun i => fst (loc_of slv i)) (ids_of slv) _ (ids_of_spec slv Hwf) (ids_of_nodup slv Hwf));
        [| intros name; rewrite map_length; apply crecs_length | exact Hi | apply np_unique_NoDup | apply repeat_length].
      rewrite (Hnin i Hi).
      rewrite (nth_indep (map _ (seq 0 n)) [] ((fun x => map comp_min (comps_of x)) 0%nat)) by (rewrite map_length, seq_length; exact Hi).
      rewrite (map_nth (fun x => map comp_min (comps_of x))), seq_nth by exact Hi. cbn [Nat.add].
      set (name := fst (loc_of slv i)). set (ids := ids_of slv name).
      assert (Hin : In i ids) by (apply (ids_of_spec slv Hwf); split; [exact Hi | reflexivity]).
      destruct (pos_in_complete i _ 0%nat Hin) as [kk Hk]. destruct (pos_in_spec _ _ _ Hk) as [Hnth Hkl].
      unfold posn. rewrite Hk. unfold crecs_of. fold ids. rewrite map_map. cbn [fst snd].
      rewrite (nth_indep _ [] ((fun k => map comp_min (comps_of (nth k ids 0%nat))) 0%nat)) by (rewrite map_length, seq_length; exact Hkl).
      rewrite (map_nth (fun k => map comp_min (comps_of (nth k ids 0%nat)))), seq_nth by exact Hkl.
      cbn [Nat.add]. rewrite Hnth. reflexivity.
  - (* maxima *)
    rewrite fold_left_map. cbn [cresult_of fst snd].
    apply (nth_ext _ _ [] []).
    + rewrite fold_scatter_rows_length, repeat_length, map_length, seq_length. reflexivity.
    + intros i Hi. rewrite fold_scatter_rows_length, repeat_length in Hi.
      rewrite (fold_scatter_rows [] n (fun i => fst (loc_of slv i)) (ids_of slv) _ (ids_of_spec slv Hwf) (ids_of_nodup slv Hwf));
        [| intros name; rewrite map_length; apply crecs_length | exact Hi | apply np_unique_NoDup | apply repeat_length].
      rewrite (Hnin i Hi).
      rewrite (nth_indep (map _ (seq 0 n)) [] ((fun x => map comp_max (comps_of x)) 0%nat)) by (rewrite map_length, seq_length; exact Hi).
      rewrite (map_nth (fun x => map comp_max (comps_of x))), seq_nth by exact Hi. cbn [Nat.add].
      set (name := fst (loc_of slv i)). set (ids := ids_of slv name).
      assert (Hin : In i ids) by (apply (ids_of_spec slv Hwf); split; [exact Hi | reflexivity]).
      destruct (pos_in_complete i _ 0%nat Hin) as [kk Hk]. destruct (pos_in_spec _ _ _ Hk) as [Hnth Hkl].
      unfold posn. rewrite Hk. unfold crecs_of. fold ids. rewrite map_map. cbn [fst snd].
      rewrite (nth_indep _ [] ((fun k => map comp_max (comps_of (nth k ids 0%nat))) 0%nat)) by (rewrite map_length, seq_length; exact Hkl).
      rewrite (map_nth (fun k => map comp_max (comps_of (nth k ids 0%nat)))), seq_nth by exact Hkl.
      cbn [Nat.add]. rewrite Hnth. reflexivity.
Qed.

(* ---- the converted level as a level: same box -> file layout, files renamed state -> Cell ---- *)
Hypothesis Hnames : NoDup (map (fun nf : bytes * list nat => cell_name (fst nf)) (lv_files slv)).
Hypothesis Hcok : forall i, (i < n)%nat -> fab_ok (conv_i i) = true.

Definition conv_lv : level := renamed slv cell_name (map conv_i (seq 0 n)).

Lemma conv_len : length (map conv_i (seq 0 n)) = length (lv_fabs slv).
Proof. rewrite map_length, seq_length. reflexivity. Qed.

Lemma conv_ok : forallb fab_ok (map conv_i (seq 0 n)) = true.
Proof. apply forallb_forall. intros fb Hfb. apply in_map_iff in Hfb. destruct Hfb as (i & <- & Hi). apply in_seq in Hi. apply Hcok. lia. Qed.

Theorem wf_conv : wf_level conv_lv = true.
Proof. exact (wf_renamed slv Hwf cell_name _ conv_len conv_ok Hnames). Qed.

Lemma outs_are_file_fabs name : outs_of name = file_fabs conv_lv (ids_of slv name).
Proof.
  unfold outs_of, file_fabs. apply map_ext_in. intros i Hi.
  apply (ids_of_spec slv Hwf) in Hi. destruct Hi as [Hi _].
  cbn [conv_lv renamed lv_fabs]. rewrite (nth_indep _ dummy_fab (conv_i 0%nat)) by (rewrite map_length, seq_length; exact Hi).
  rewrite (map_nth conv_i), seq_nth by exact Hi. reflexivity.
Qed.

(* chk2plt.convert on one level, ANY layout of the state boxes: the binary files written hold the converted boxes in
   the state files' layout (renamed), the (file, offset) table is that of this layout IN BOX ORDER, the minima and
   maxima are those of each box's own components - and the written level is a well-formed level, so that (ReadSpec)
   reading box i of it returns converted box i. *)
Theorem convert_level_layout :
  convert_level boxes (lv_disk slv) (cells_or_nil slv) gradp_files gradp_cells ir_files ir_cells do_gradp do_ir floored y_start nspecies
  = Some (map (fun name => (cell_name name, encode_file (file_fabs conv_lv (ids_of slv name)))) (np_unique (map fst (cells_or_nil slv))),
          cells_or_nil conv_lv,
          map (fun i => map comp_min (comps_of i)) (seq 0 n),
          map (fun i => map comp_max (comps_of i)) (seq 0 n))
  /\ wf_level conv_lv = true.
Proof.
  split; [|exact wf_conv].
  rewrite convert_level_spec. apply f_equal.
  apply (f_equal2 pair); [apply (f_equal2 pair); [apply (f_equal2 pair)|]|]; try reflexivity.
  - apply map_ext. intros name. rewrite outs_are_file_fabs. reflexivity.
  - unfold conv_lv. rewrite (renamed_cells slv Hwf cell_name _ conv_len conv_ok Hnames). fold n.
    apply map_ext. intros i. rewrite outs_are_file_fabs. reflexivity.
Qed.

(* ---- the level directory: binary files + the level header chk2plt writes ---- *)
Definition conv_files : list (bytes * list nat) :=
  map (fun name => (cell_name name, ids_of slv name)) (np_unique (map fst (cells_or_nil slv))).

Lemma conv_files_perm : Permutation (lv_files conv_lv) conv_files.
Proof.
  unfold conv_lv, renamed, conv_files. cbn [lv_files].
  pose proof (Permutation_map (fun nf : bytes * list nat => (cell_name (fst nf), snd nf)) (sorted_perm slv Hwf)) as P.
  unfold sorted_files in P. rewrite map_map in P. exact P.
Qed.

(* the converted level with its files listed as the tool lists them *)
Definition conv_listed : level := relisted conv_lv conv_files.

Lemma wf_conv_listed : wf_level conv_listed = true.
Proof. exact (wf_relisted conv_lv wf_conv conv_files conv_files_perm). Qed.

Definition conv_plevel (lb : lvboxes) : plevel :=
  {| pl_boxes := lb; pl_level := conv_listed;
     pl_mins := map (fun i => map word_token (map comp_min (comps_of i))) (seq 0 n);
     pl_maxs := map (fun i => map word_token (map comp_max (comps_of i))) (seq 0 n) |}.

(* chk2plt on one level, ANY layout: the level directory written (binary files and level header) is the directory of
   the converted level - an abstract level (pl_dir), well-formed, whose boxes are the converted boxes *)
Theorem convert_level_dir_spec : forall nout lb,
  convert_level_dir nout boxes (lv_disk slv) (cells_or_nil slv) gradp_files gradp_cells ir_files ir_cells do_gradp do_ir floored y_start nspecies
  = Some (snd (pl_dir nout (conv_plevel lb)))
  /\ wf_level (pl_level (conv_plevel lb)) = true.
Proof.
  intros nout lb. split; [|exact wf_conv_listed].
  unfold convert_level_dir. rewrite (proj1 convert_level_layout). cbn [obind].
  unfold pl_dir, conv_plevel. cbn [snd pl_level pl_mins pl_maxs]. f_equal. f_equal.
  - (* the level header *)
    f_equal. f_equal. unfold pl_cellh. cbn [pl_level pl_mins pl_maxs].
    replace (cells_or_nil conv_listed) with (cells_or_nil conv_lv)
      by (symmetry; exact (relisted_cells conv_lv wf_conv conv_files conv_files_perm)).
    rewrite !map_map.
    assert (Hix : map (fun fb => (fab_lo fb, fab_hi fb)) (lv_fabs conv_listed) = boxes).
    { unfold conv_listed, relisted, conv_lv, renamed. cbn [lv_fabs]. rewrite map_map.
      transitivity (map (fun i => nth i boxes ([], [])) (seq 0 n)).
      - apply map_ext. intros i. unfold conv_i, conv_fab, jobi, job_lo, job_hi. cbn [fab_lo fab_hi fst snd].
        symmetry. apply surjective_pairing.
      - unfold n. rewrite <- Hboxes. apply map_nth_seq. }
    rewrite Hix. reflexivity.
  - (* the binary files *)
    unfold lv_disk, conv_listed, relisted, conv_files. cbn [lv_files]. rewrite map_map. reflexivity.
Qed.
End Level.

Print Assumptions convert_level_spec.
Print Assumptions convert_level_layout.
Print Assumptions convert_level_dir_spec.

(* ------------------------------------------------------------------ *)
(** * the plain conversion (state only): the per-box hypotheses discharged *)
(* a state FAB stored with g >= 1 ghost cells on every side of the box [lo, hi], nc >= 1 components *)
Definition ghosted (g : Z) (sfb : fab) (b : list Z * list Z) : Prop :=
  exists l0 l1 l2 h0 h1 h2,
    b = ([l0; l1; l2], [h0; h1; h2]) /\ l0 <= h0 /\ l1 <= h1 /\ l2 <= h2 /\
    fab_lo sfb = [l0 - g; l1 - g; l2 - g] /\ fab_hi sfb = [h0 + g; h1 + g; h2 + g] /\ 1 <= fab_nc sfb.

Definition plain_comps (g : Z) (sfb : fab) : list bytes :=
  match fab_shape sfb with
  | [sx; sy; sz] => strip_ghosts sx sy sz g g g (fab_nc sfb) (fab_data sfb)
  | _ => []
  end.

Lemma plain_box : forall g sfb b i gc rc, 1 <= g -> fab_ok sfb = true -> ghosted g sfb b ->
  box_comps [] [] false false None 0 0 (fab_nc sfb) (fab_shape sfb) (fab_data sfb) (i, b, gc, rc) = Some (plain_comps g sfb)
  /\ fab_ok (conv_fab (i, b, gc, rc) (plain_comps g sfb)) = true.
Proof.
  intros g sfb b i [gname goff] [rname roff] Hg Hok (l0 & l1 & l2 & h0 & h1 & h2 & -> & H0 & H1 & H2 & Hlo & Hhi & Hnc).
  destruct (fab_ok_inv sfb Hok) as (_ & _ & _ & _ & _ & Hd).
  assert (Hshape : fab_shape sfb = [h0 - l0 + 1 + 2 * g; h1 - l1 + 1 + 2 * g; h2 - l2 + 1 + 2 * g]).
  { unfold fab_shape, box_shape. rewrite Hlo, Hhi. cbn [zip_with]. f_equal; [|f_equal; [|f_equal]]; ring. }
  set (bx := h0 - l0 + 1) in *. set (by_ := h1 - l1 + 1) in *. set (bz := h2 - l2 + 1) in *.
  assert (Hcells : fab_cells sfb = (bx + 2 * g) * ((by_ + 2 * g) * ((bz + 2 * g) * 1))) by (unfold fab_cells; rewrite Hshape; reflexivity).
  assert (Hdata : blen (fab_data sfb) = 8 * ((bx + 2 * g) * (by_ + 2 * g) * (bz + 2 * g) * fab_nc sfb)) by (rewrite Hd, Hcells; ring).
  assert (Hgx : forall b0, (b0 + 2 * g - b0) / 2 = g) by (intros b0; replace (b0 + 2 * g - b0) with (g * 2) by ring; apply Z.div_mul; lia).
  destruct (strip_ghosts_shape (bx + 2 * g) (by_ + 2 * g) (bz + 2 * g) g g g (fab_nc sfb) (fab_data sfb)
              ltac:(lia) ltac:(lia) ltac:(lia) ltac:(unfold bx; lia) ltac:(unfold by_; lia) ltac:(unfold bz; lia) ltac:(lia) Hdata) as [Hlen Hall].
  unfold plain_comps. rewrite Hshape. split.
  - unfold box_comps.
    replace (reshape_ok (fab_data sfb) ([bx + 2 * g; by_ + 2 * g; bz + 2 * g] ++ [fab_nc sfb])) with true.
    2:{ symmetry. unfold reshape_ok. cbn [app forallb zprod fold_right]. apply andb_true_iff. split.
        - repeat (apply andb_true_iff; split); try reflexivity; apply Z.leb_le; unfold bx, by_, bz; lia.
        - apply Z.eqb_eq. rewrite Hdata. ring. }
    cbn [obind]. fold bx by_ bz. rewrite !Hgx.
    replace ((0 <=? g) && (0 <=? g) && (0 <=? g)) with true by (symmetry; rewrite !andb_true_iff; repeat split; apply Z.leb_le; lia).
    cbn [obind].
    replace (negb (length (strip_ghosts (bx + 2 * g) (by_ + 2 * g) (bz + 2 * g) g g g (fab_nc sfb) (fab_data sfb)) =? 0)%nat) with true.
    2:{ symmetry. rewrite Hlen. apply negb_true_iff. apply Nat.eqb_neq. lia. }
    reflexivity.
  - set (comps := strip_ghosts (bx + 2 * g) (by_ + 2 * g) (bz + 2 * g) g g g (fab_nc sfb) (fab_data sfb)) in *.
    assert (Hsz : Forall (fun c => blen c = 8 * (bx * (by_ * bz))) comps).
    { eapply Forall_impl; [|exact Hall]. intros c Hc. rewrite Hc. f_equal. ring. }
    unfold fab_ok, conv_fab, job_lo, job_hi. cbn [fst snd fab_lo fab_hi fab_nc fab_data fab_shape fab_cells box_shape length Nat.eqb negb andb].
    cbn [zip_with forallb zprod fold_right]. fold bx by_ bz.
    rewrite (blen_concat_const _ (8 * (bx * (by_ * bz))) Hsz).
    repeat (apply andb_true_iff; split); try reflexivity; try (apply Z.leb_le; unfold bx, by_, bz; lia).
    + apply Z.leb_le. apply blen_nonneg.
    + apply Z.eqb_eq. unfold fab_cells, fab_shape, box_shape. cbn [fab_lo fab_hi zip_with zprod fold_right]. fold bx by_ bz.
      change (@blen bytes comps) with (@blen (list ascii) comps). ring.
Qed.

Section PlainLevel.
Variable g : Z.
Hypothesis Hg : 1 <= g.
Variable slv : level.
Hypothesis Hwf : wf_level slv = true.
Variable boxes : list (list Z * list Z).
Hypothesis Hboxes : length boxes = length (lv_fabs slv).
Hypothesis Hghost : forall i, (i < length (lv_fabs slv))%nat -> ghosted g (nth i (lv_fabs slv) dummy_fab) (nth i boxes ([], [])).
Hypothesis Hnames : NoDup (map (fun nf : bytes * list nat => cell_name (fst nf)) (lv_files slv)).

Let n := length (lv_fabs slv).
Definition plain_of (i : nat) : list bytes := plain_comps g (nth i (lv_fabs slv) dummy_fab).

(* the state-only conversion of a level of boxes stored with g ghost cells, ANY layout: no per-box hypothesis left *)
Theorem convert_level_plain :
  let out := conv_lv [] [] slv boxes plain_of in
  convert_level boxes (lv_disk slv) (cells_or_nil slv) [] [] [] [] false false None 0 0
  = Some (map (fun name => (cell_name name, encode_file (file_fabs out (ids_of slv name)))) (np_unique (map fst (cells_or_nil slv))),
          cells_or_nil out,
          map (fun i => map comp_min (plain_of i)) (seq 0 n),
          map (fun i => map comp_max (plain_of i)) (seq 0 n))
  /\ wf_level out = true.
Proof.
  assert (Hfok : forall i, (i < n)%nat -> fab_ok (nth i (lv_fabs slv) dummy_fab) = true).
  { intros i Hi. pose proof (wf_level_fabs_ok slv Hwf) as H. rewrite forallb_forall in H. apply H. apply nth_In. exact Hi. }
  apply (convert_level_layout [] [] [] [] false false None 0 0 slv Hwf boxes Hboxes plain_of).
  - intros i Hi. unfold jobi, plain_of. apply (plain_box g _ _ i _ _ Hg (Hfok i Hi) (Hghost i Hi)).
  - exact Hnames.
  - intros i Hi. unfold conv_i, jobi, plain_of. apply (plain_box g _ _ i _ _ Hg (Hfok i Hi) (Hghost i Hi)).
Qed.
End PlainLevel.

Print Assumptions convert_level_plain.
