(* amr_kitchen/chk2plt/chk2plt.py: write_plt_bin_from_chk and the per-level
   part of chk2plt.convert, on the binary files and (file, offset) tables of
   the checkpoint's state / gradp / I_R data subsets.

   Ghost stripping is data[g:-g, g:-g, g:-g, :] with g = (state_shape -
   box_shape) // 2 per direction.  The mass-fraction rescaling (flooring) is
   floating-point division: it enters as a table of the rescaled species
   components per box (computed by numpy in the correspondence). *)
From AK Require Import Base.Prelude Bytes.Text Bytes.FabHeader Bytes.BinFile
  Reader.Select Reader.BoxRead Reader.Level Plotfile.TextHeader Taste.Taste Writers.Colander Writers.Chef.

Definition zrange (a b : Z) : list Z := map (fun i => a + Z.of_nat i) (seq 0 (Z.to_nat (b - a))).

(* python a[g:-g] on an axis of length s: indices g .. s-g-1 ; g = 0 gives the empty slice a[0:0] *)
Definition inner_range (g s : Z) : list Z := if g =? 0 then [] else zrange g (s - g).

(* data.reshape((sx, sy, sz, nc), order='F')[gx:-gx, gy:-gy, gz:-gz, :] flattened in Fortran order,
   component by component *)
Definition strip_ghosts (sx sy sz gx gy gz nc : Z) (data : bytes) : list bytes :=
  map (fun c =>
         concat (map (fun k =>
            concat (map (fun j =>
               if gx =? 0 then []
               else sub (8 * (gx + sx * (j + sy * (k + sz * c)))) (8 * (sx - 2 * gx)) data)
               (inner_range gy sy)))
            (inner_range gz sz)))
      (zrange 0 nc).

(* a whole FAB read at a recorded offset: (components as one block, component count, spatial shape) *)
Definition read_fab_at (files : list (bytes * bytes)) (name : bytes) (off : Z) : option (bytes * Z * list Z) :=
  do f <- lookup name files;
  guard (0 <=? off);
  do (h, shp, p1) <- read_header f off;
  let total := shp ++ [h_nc h] in
  let data := fromfile f p1 (zprod total) in
  guard reshape_ok data total;
  Some (data, h_nc h, shp).

Section Convert.
Variable gradp_files ir_files : list (bytes * bytes).
Variable do_gradp do_ir : bool.
Variable floored : option (list (list bytes)).     (* per box (global index): the rescaled species components *)
Variable y_start nspecies : Z.

Definition replace_range {A} (start : nat) (new : list A) (l : list A) : list A :=
  firstn start l ++ new ++ skipn (start + length new) l.

Fixpoint chk_scan (fuel : nat) (f : bytes) (pos : Z) (jobs : list (nat * (list Z * list Z) * (bytes * Z) * (bytes * Z)))
         (out : bytes) : option (bytes * list (Z * list bytes * list bytes)) :=
  match fuel with
  | O => Some (out, [])
  | S fuel' =>
      match read_header f pos with
      | None => Some (out, [])
      | Some (h, shp, p1) =>
          let total := shp ++ [h_nc h] in
          let data := fromfile f p1 (zprod total) in
          match jobs with
          | [] => None                                        (* idxs_state[bid]: IndexError *)
          | (gid, (lo, hi), (gname, goff), (rname, roff)) :: jobs' =>
              match shp, lo, hi with
              | [sx; sy; sz], [l0; l1; l2], [h0; h1; h2] =>
                  guard reshape_ok data total;
                  let bx := h0 - l0 + 1 in let by_ := h1 - l1 + 1 in let bz := h2 - l2 + 1 in
                  let gx := (sx - bx) / 2 in let gy := (sy - by_) / 2 in let gz := (sz - bz) / 2 in
                  (* negative ghost counts: python's negative slicing; not modelled *)
                  guard ((0 <=? gx) && (0 <=? gy) && (0 <=? gz));
                  let comps := strip_ghosts sx sy sz gx gy gz (h_nc h) data in
                  do comps <- match floored with
                              | None => Some comps
                              | Some tbl => do new <- nth_error tbl gid;
                                            guard (Z.of_nat (length new) =? nspecies);
                                            Some (replace_range (Z.to_nat y_start) new comps)
                              end;
                  let cells := (if gx =? 0 then 0 else sx - 2 * gx) * (if gy =? 0 then 0 else sy - 2 * gy)
                               * (if gz =? 0 then 0 else sz - 2 * gz) in
                  do comps <- (if do_gradp then
                                 do r <- read_fab_at gradp_files gname goff;
                                 let '(d, nc, gshp) := r in
                                 guard (zprod gshp =? cells);
                                 Some (comps ++ map (fun c => sub (8 * cells * c) (8 * cells) d) (zrange 0 nc))
                               else Some comps);
                  do comps <- (if do_ir then
                                 do r <- read_fab_at ir_files rname roff;
                                 let '(d, nc, rshp) := r in
                                 guard (zprod rshp =? cells);
                                 Some (comps ++ map (fun c => sub (8 * cells * c) (8 * cells) d) (zrange 0 nc))
                               else Some comps);
                  guard negb (length comps =? 0)%nat;
                  let hw := print_hdr lo hi (blen comps) in
                  do rest <- chk_scan fuel' f (p1 + blen data) jobs' (out ++ hw ++ concat comps);
                  Some (fst rest, (blen out, map comp_min comps, map comp_max comps) :: snd rest)
              | _, _, _ => None
              end
          end
      end
  end.
End Convert.

(* 'state' -> 'Cell' in the file name (str.replace, first and every occurrence) *)
Definition cell_name (n : bytes) : bytes := py_replace (bs "state") (bs "Cell") n.

Definition convert_level (boxes : list (list Z * list Z))
           (state_files : list (bytes * bytes)) (state_cells : list (bytes * Z))
           (gradp_files : list (bytes * bytes)) (gradp_cells : list (bytes * Z))
           (ir_files : list (bytes * bytes)) (ir_cells : list (bytes * Z))
           (do_gradp do_ir : bool) (floored : option (list (list bytes))) (y_start nspecies : Z)
  : option (list (bytes * bytes) * list (bytes * Z) * list (list bytes) * list (list bytes)) :=
  let all := zip_boxes boxes (map fst state_cells) (map snd state_cells) in
  let names := np_unique (map fst state_cells) in
  do results <- omap_all (fun name =>
      do f <- lookup name state_files;
      let ids := map fst (sort_off (boxes_of_file name all 0)) in
      let jobs := map (fun i => (i, nth i boxes ([], []), nth i gradp_cells ([], 0), nth i ir_cells ([], 0))) ids in
      do r <- chk_scan gradp_files ir_files do_gradp do_ir floored y_start nspecies (S (length f)) f 0 jobs [];
      guard (length (snd r) =? length ids)%nat;
      Some (cell_name name, fst r, ids, snd r)) names;
  let newfiles := map (fun r => (fst (fst (fst r)), snd (fst (fst r)))) results in
  let n := length boxes in
  let cells := fold_left (fun acc r => scatter_rows (snd (fst r))
                                          (map (fun b => (fst (fst (fst r)), fst (fst b))) (snd r)) acc)
                         results (repeat ([], 0) n) in
  let mins := fold_left (fun acc r => scatter_rows (snd (fst r)) (map (fun b => snd (fst b)) (snd r)) acc) results (repeat [] n) in
  let maxs := fold_left (fun acc r => scatter_rows (snd (fst r)) (map snd (snd r)) acc) results (repeat [] n) in
  Some (newfiles, cells, mins, maxs).

(* ---- chk2plt.write_level_header: the level header of the converted level (field count, index ranges, the (file, offset)
   table and the minima / maxima rows, '%.16e' prints standing as word tokens) next to the binary files ---- *)
Definition convert_level_dir (nout : Z) (boxes : list (list Z * list Z))
           (state_files : list (bytes * bytes)) (state_cells : list (bytes * Z))
           (gradp_files : list (bytes * bytes)) (gradp_cells : list (bytes * Z))
           (ir_files : list (bytes * bytes)) (ir_cells : list (bytes * Z))
           (do_gradp do_ir : bool) (floored : option (list (list bytes))) (y_start nspecies : Z) : option ldir :=
  do r <- convert_level boxes state_files state_cells gradp_files gradp_cells ir_files ir_cells do_gradp do_ir floored y_start nspecies;
  let '(files, cells, mins, maxs) := r in
  Some {| ld_cellh := Some (print_cellh nout {| c_indexes := boxes; c_files := map fst cells; c_offsets := map snd cells;
                                                 c_mins := map (map word_token) mins; c_maxs := map (map word_token) maxs |});
          ld_files := files |}.
