(* Ghost stripping keeps exactly the interior cells: the word of component c
   at interior cell (i, j, k) of the converted box is the checkpoint's word at
   (i + gx, j + gy, k + gz) of the same component. *)
From AK Require Import Base.Prelude Bytes.Text Bytes.FabHeader Bytes.BinFile
  Reader.Select Reader.BoxRead Reader.Level Reader.ReadProofs
  Writers.Colander Writers.ColanderProofs Writers.Chef Writers.Chk2plt.

Lemma sub_in_chunk (c : Z) (l : list bytes) (j : nat) (r len : Z) :
  0 <= c -> Forall (fun x => blen x = c) l -> (j < length l)%nat ->
  0 <= r -> 0 <= len -> r + len <= c ->
  sub (c * Z.of_nat j + r) len (concat l) = sub r len (nth j l []).
Proof.
  intros Hc Hl Hj Hr Hlen Hle.
  rewrite <- (sub_concat_nth c l j Hc Hl Hj).
  rewrite sub_sub by nia. f_equal. lia.
Qed.

Lemma nth_zrange a b (k : nat) d : (Z.of_nat k < b - a) -> nth k (zrange a b) d = a + Z.of_nat k.
Proof.
  intros H. unfold zrange.
  rewrite (nth_indep _ d (a + Z.of_nat 0)) by (rewrite map_length, seq_length; lia).
  rewrite (map_nth (fun i => a + Z.of_nat i) (seq 0 (Z.to_nat (b - a))) 0%nat k).
  rewrite seq_nth by lia. reflexivity.
Qed.

Lemma nth_map_zrange {B} (g : Z -> B) a b (n : nat) d :
  Z.of_nat n < b - a -> nth n (map g (zrange a b)) d = g (a + Z.of_nat n).
Proof.
  intros H. rewrite (nth_indep _ d (g 0)) by (rewrite map_length; unfold zrange; rewrite map_length, seq_length; lia).
  rewrite (map_nth g (zrange a b) 0 n). rewrite nth_zrange by exact H. reflexivity.
Qed.

Lemma zrange_length a b : length (zrange a b) = Z.to_nat (b - a).
Proof. unfold zrange. rewrite map_length, seq_length. reflexivity. Qed.

Lemma idx_bound a b c d n0 n1 n2 n3 :
  0 <= a < n0 -> 0 <= b < n1 -> 0 <= c < n2 -> 0 <= d < n3 ->
  0 <= a + n0 * (b + n1 * (c + n2 * d)) /\ a + n0 * (b + n1 * (c + n2 * d)) + 1 <= n0 * (n1 * (n2 * n3)).
Proof.
  intros Ha Hb Hc Hd.
  assert (H1 : 0 <= c + n2 * d /\ c + n2 * d + 1 <= n2 * n3) by nia.
  set (u := c + n2 * d) in *. set (N2 := n2 * n3) in *.
  assert (H2 : 0 <= b + n1 * u /\ b + n1 * u + 1 <= n1 * N2) by nia.
  set (v := b + n1 * u) in *. set (N1 := n1 * N2) in *.
  nia.
Qed.

Theorem strip_ghosts_interior : forall sx sy sz gx gy gz nc data c i j k,
  0 < gx -> 0 < gy -> 0 < gz ->
  0 < sx - 2 * gx -> 0 < sy - 2 * gy -> 0 < sz - 2 * gz ->
  blen data = 8 * (sx * sy * sz * nc) ->
  0 <= c < nc ->
  0 <= i < sx - 2 * gx -> 0 <= j < sy - 2 * gy -> 0 <= k < sz - 2 * gz ->
  sub (8 * (i + (sx - 2 * gx) * (j + (sy - 2 * gy) * k))) 8
      (nth (Z.to_nat c) (strip_ghosts sx sy sz gx gy gz nc data) [])
  = sub (8 * ((i + gx) + sx * ((j + gy) + sy * ((k + gz) + sz * c)))) 8 data.
Proof.
  intros sx sy sz gx gy gz nc data c i j k Hgx Hgy Hgz Hbx Hby Hbz Hdata Hc Hi Hj Hk.
  set (bx := sx - 2 * gx) in *. set (by_ := sy - 2 * gy) in *. set (bz := sz - 2 * gz) in *.
  unfold strip_ghosts.
  rewrite nth_map_zrange by (clear -Hc; lia). rewrite Z2Nat.id by (clear -Hc; lia). cbn [Z.add].
  replace (gx =? 0) with false by lia.
  unfold inner_range. replace (gy =? 0) with false by lia. replace (gz =? 0) with false by lia.
  fold bx.
  (* rows have 8*bx bytes, planes 8*bx*by bytes *)
  assert (Hrow : forall j0 k0, 0 <= j0 < sy -> 0 <= k0 < sz ->
            blen (sub (8 * (gx + sx * (j0 + sy * (k0 + sz * c)))) (8 * bx) data) = 8 * bx).
  { intros j0 k0 Hj0 Hk0.
    assert (Hg1 : 0 <= gx < sx) by (unfold bx in Hbx; lia).
    assert (Hg2 : 0 <= gx + bx - 1 < sx) by (unfold bx in *; lia).
    destruct (idx_bound gx j0 k0 c sx sy sz nc Hg1 Hj0 Hk0 Hc) as [B1 B2].
    destruct (idx_bound (gx + bx - 1) j0 k0 c sx sy sz nc Hg2 Hj0 Hk0 Hc) as [B3 B4].
    apply blen_sub; [lia | lia |]. rewrite Hdata.
    replace (sx * sy * sz * nc) with (sx * (sy * (sz * nc))) by ring. lia. }
  assert (Hplane : forall k0, 0 <= k0 < sz ->
            Forall (fun x => blen x = 8 * bx)
              (map (fun j0 => sub (8 * (gx + sx * (j0 + sy * (k0 + sz * c)))) (8 * bx) data) (zrange gy (sy - gy)))).
  { intros k0 Hk0. apply Forall_map. apply Forall_forall. intros j0 Hj0.
    unfold zrange in Hj0. apply in_map_iff in Hj0. destruct Hj0 as (q & <- & Hq). apply in_seq in Hq.
    apply Hrow; lia. }
  (* locate the plane k *)
  replace (8 * (i + bx * (j + by_ * k))) with ((8 * bx * by_) * Z.of_nat (Z.to_nat k) + 8 * (i + bx * j))
    by (rewrite Z2Nat.id by lia; ring).
  rewrite sub_in_chunk; [| nia | | rewrite map_length, zrange_length; lia | nia | lia | nia].
  2:{ apply Forall_map. apply Forall_forall. intros k0 Hk0.
      unfold zrange in Hk0. apply in_map_iff in Hk0. destruct Hk0 as (q & <- & Hq). apply in_seq in Hq.
      rewrite (blen_concat_const _ (8 * bx)); [|apply Hplane; lia].
      rewrite blen_map. unfold blen. rewrite zrange_length. unfold by_. lia. }
  rewrite nth_map_zrange by lia. rewrite Z2Nat.id by lia.
  (* locate the row j *)
  replace (8 * (i + bx * j)) with ((8 * bx) * Z.of_nat (Z.to_nat j) + 8 * i) by (rewrite Z2Nat.id by lia; ring).
  rewrite sub_in_chunk; [| lia | apply Hplane; lia | rewrite map_length, zrange_length; lia | lia | lia | lia].
  rewrite nth_map_zrange by lia. rewrite Z2Nat.id by lia.
  assert (Hg1 : 0 <= gx < sx) by (unfold bx in Hbx; lia).
  assert (Hg2 : 0 <= gy + j < sy) by (unfold by_ in *; lia).
  assert (Hg3 : 0 <= gz + k < sz) by (unfold bz in *; lia).
  destruct (idx_bound gx (gy + j) (gz + k) c sx sy sz nc Hg1 Hg2 Hg3 Hc) as [B1 _].
  rewrite sub_sub; [f_equal; ring | lia | lia | lia | lia].
Qed.


(* every stripped component has exactly the interior's size *)
Theorem strip_ghosts_shape : forall sx sy sz gx gy gz nc data,
  0 < gx -> 0 < gy -> 0 < gz ->
  0 < sx - 2 * gx -> 0 < sy - 2 * gy -> 0 < sz - 2 * gz -> 0 <= nc ->
  blen data = 8 * (sx * sy * sz * nc) ->
  length (strip_ghosts sx sy sz gx gy gz nc data) = Z.to_nat nc /\
  Forall (fun c => blen c = 8 * ((sx - 2 * gx) * ((sy - 2 * gy) * (sz - 2 * gz)))) (strip_ghosts sx sy sz gx gy gz nc data).
Proof.
  intros sx sy sz gx gy gz nc data Hgx Hgy Hgz Hbx Hby Hbz Hnc Hdata.
  set (bx := sx - 2 * gx) in *. set (by_ := sy - 2 * gy) in *. set (bz := sz - 2 * gz) in *.
  unfold strip_ghosts. split.
  - rewrite map_length, zrange_length. f_equal. lia.
  - apply Forall_map. apply Forall_forall. intros c Hc.
    unfold zrange in Hc. apply in_map_iff in Hc. destruct Hc as (q & <- & Hq). apply in_seq in Hq.
    assert (Hc : 0 <= 0 + Z.of_nat q < nc) by lia. set (c := 0 + Z.of_nat q) in *.
    replace (gx =? 0) with false by lia.
    unfold inner_range. replace (gy =? 0) with false by lia. replace (gz =? 0) with false by lia.
    fold bx.
    assert (Hrow : forall j0 k0, 0 <= j0 < sy -> 0 <= k0 < sz ->
              blen (sub (8 * (gx + sx * (j0 + sy * (k0 + sz * c)))) (8 * bx) data) = 8 * bx).
    { intros j0 k0 Hj0 Hk0.
      assert (Hg1 : 0 <= gx < sx) by (unfold bx in Hbx; lia).
      assert (Hg2 : 0 <= gx + bx - 1 < sx) by (unfold bx in *; lia).
      destruct (idx_bound gx j0 k0 c sx sy sz nc Hg1 Hj0 Hk0 Hc) as [B1 B2].
      destruct (idx_bound (gx + bx - 1) j0 k0 c sx sy sz nc Hg2 Hj0 Hk0 Hc) as [B3 B4].
      apply blen_sub; [lia | lia |]. rewrite Hdata.
      replace (sx * sy * sz * nc) with (sx * (sy * (sz * nc))) by ring. lia. }
    rewrite (blen_concat_const _ (8 * bx * by_)).
    + rewrite blen_map. unfold blen at 1. rewrite zrange_length. unfold bz. rewrite Z2Nat.id by lia. ring.
    + apply Forall_map. apply Forall_forall. intros k0 Hk0.
      unfold zrange in Hk0. apply in_map_iff in Hk0. destruct Hk0 as (r & <- & Hr). apply in_seq in Hr.
      rewrite (blen_concat_const _ (8 * bx)).
      * rewrite blen_map. unfold blen at 1. rewrite zrange_length. unfold by_. rewrite Z2Nat.id by lia. ring.
      * apply Forall_map. apply Forall_forall. intros j0 Hj0.
        unfold zrange in Hj0. apply in_map_iff in Hj0. destruct Hj0 as (t & <- & Ht). apply in_seq in Ht.
        apply Hrow; lia.
Qed.
Print Assumptions strip_ghosts_shape.
