(* chk2plt as the source of a chain: the converted plotfile is good, so the
   validator accepts it and every chain of colander / combine / chef runs that
   starts from the directory chk2plt wrote ends on the image of the composed
   pure operations applied to the pure conversion.
   Standard library only, no axioms. *)
From AK Require Import Base.Prelude Bytes.Text Bytes.FabHeader Bytes.BinFile
  Reader.Select Reader.BoxRead Reader.Level Reader.ReadSpec Plotfile.TextHeader Plotfile.HeaderSpec Plotfile.Abstract
  Taste.Taste Taste.CompleteProofs
  Writers.Colander Writers.ColanderSpec Writers.ColanderPipeline Writers.Pipeline Writers.FullPipeline
  Writers.Chk2plt Writers.Chk2pltLevelProofs Writers.ChkHeader Writers.ChkHeaderProofs Writers.Chk2pltTool Writers.Chk2pltToolProofs.

Section Source.
Variable whole : token -> bool.
Variable to_int : token -> Z.
Variable frepr : token -> token.
Variable dx_row : Z -> list token.
Variable bounds : Z -> list (list (token * token)).
Variable species : list bytes.
Variable do_gradp do_ir : bool.
Variable floored : nat -> option (list (list bytes)).
Variable y_start nspecies : Z.
Variable n_state n_gradp n_ir : Z.

(* everything the tool theorem and the goodness theorem ask of an abstract checkpoint *)
Definition convertible (c : achk) : Prop :=
  wf_chk whole to_int (ac_h c) /\ wf_written frepr dx_row bounds (ac_h c) /\
  chk_nfields_out n_state n_gradp n_ir do_gradp do_ir = blen (chk_fields species do_gradp do_ir) /\
  length (ac_levels c) = Z.to_nat (ch_max_level (ac_h c) + 1) /\
  (forall k al, nth_error (ac_levels c) k = Some al -> level_ok do_gradp do_ir floored y_start nspecies c k al) /\
  counts_ok species do_gradp do_ir c.

Let tool := chk2plt_tool whole to_int frepr dx_row bounds species do_gradp do_ir floored y_start nspecies n_state n_gradp n_ir.
Let spec := conv_pf frepr dx_row bounds species do_gradp do_ir.

Theorem convertible_tool c : convertible c -> tool (achk_disk c) = Some (pf_disk (spec c)) /\ good (spec c).
Proof.
  intros (Hwf & Hw & Hn & Hlen & Hlv & Hcnt). pose proof Hw as (_ & _ & Hg & _). split.
  - apply chk2plt_refines; assumption.
  - apply (conv_pf_good frepr dx_row bounds species do_gradp do_ir floored y_start nspecies); assumption.
Qed.

(* the validator accepts what chk2plt wrote (every option set that does not reach the data check alone) *)
Theorem chk2plt_output_accepted close c o limit lim :
  convertible c ->
  eff_limit (ch_max_level (ac_h c)) limit = Some lim -> 0 <= lim ->
  (t_data o && negb (t_headers o && t_shape o)) = false ->
  exists d, tool (achk_disk c) = Some d /\ taste_good close o limit d = true.
Proof.
  intros Hc Heff Hlim Ho. destruct (convertible_tool c Hc) as [Ht Hg].
  exists (pf_disk (spec c)). split; [exact Ht|].
  apply (full_outputs_taste_good close [] (spec c) (spec c) o limit lim Hg (Forall_nil _) eq_refl); assumption.
Qed.

(* a chain of colander / combine / chef runs on the directory chk2plt wrote *)
Theorem chain_from_checkpoint c ops pf' :
  convertible c -> Forall fop_ok ops -> fpure ops (spec c) = Some pf' ->
  exists d, tool (achk_disk c) = Some d /\
            run pdisk fop fop_tool ops d = Some (pf_disk pf') /\ good pf' /\
            Forall (fun d' => exists p, good p /\ d' = pf_disk p) (states pdisk fop fop_tool ops d).
Proof.
  intros Hc Hok Hp. destruct (convertible_tool c Hc) as [Ht Hg].
  exists (pf_disk (spec c)). split; [exact Ht|].
  exact (full_pipeline ops (spec c) pf' Hg Hok Hp).
Qed.
End Source.
