(* The binary core of combine: what is written for a pair of source boxes,
   for any list of pairs in any order (box-by-box modes) and for two files
   scanned in lock step (file-by-file mode); refusal of different meshes. *)
From AK Require Import Base.Prelude Bytes.Text Bytes.FabHeader Bytes.FabHeaderProofs
  Bytes.BinFile Reader.Select Reader.BoxRead Reader.Level Reader.ReadSpec
  Reader.LayoutProofs Reader.ReadProofs Reader.IterProofs
  Plotfile.TextHeader Taste.Taste Plotfile.Abstract
  Writers.Colander Writers.ColanderSpec Writers.ColanderProofs Writers.Combine.
From AK Require Export Writers.CombineSpec.

Lemma whole_payload pre fb post : fab_ok fb = true ->
  fromfile (pre ++ encode_fab fb ++ post) (blen pre + blen (fab_hdr fb)) (zprod (fab_shape fb ++ [fab_nc fb]))
  = fab_data fb.
Proof.
  intros Hok. destruct (fab_ok_inv fb Hok) as (_ & _ & _ & _ & Hnc & Hdata).
  pose proof (fab_cells_pos fb Hok) as Hc.
  unfold encode_fab. rewrite <- app_assoc.
  pose proof (fromfile_at pre (fab_hdr fb) (fab_data fb) post 0 (zprod (fab_shape fb ++ [fab_nc fb]))) as F.
  rewrite zprod_app1 in *. change (zprod (fab_shape fb)) with (fab_cells fb) in *.
  rewrite Z.mul_0_l, Z.add_0_r in F.
  rewrite F; [| lia | nia | rewrite Hdata; lia ].
  unfold sub. change (8 * 0) with 0. unfold zskipn. cbn [Z.to_nat skipn].
  unfold zfirstn. apply firstn_all2.
  assert (blen (fab_data fb) = 8 * (fab_cells fb * fab_nc fb)) by (rewrite Hdata; ring).
  unfold blen in *. lia.
Qed.

Lemma whole_reshape fb : fab_ok fb = true -> reshape_ok (fab_data fb) (fab_shape fb ++ [fab_nc fb]) = true.
Proof.
  intros Hok. destruct (fab_ok_inv fb Hok) as (_ & _ & _ & Hshape & Hnc & Hdata).
  apply reshape_ok_true.
  - apply forallb_app1; [|apply Z.leb_le; lia].
    apply (forallb_imp (fun d => 1 <=? d)); [|exact Hshape]. intros d Hd. lia.
  - rewrite zprod_app1. change (zprod (fab_shape fb)) with (fab_cells fb). rewrite Hdata. ring.
Qed.

Theorem merge_pair_spec : forall pre1 fb1 post1 pre2 fb2 post2 v1 v2,
  fab_ok fb1 = true -> fab_ok fb2 = true ->
  Forall (fun i => 0 <= i < fab_nc fb1) v1 -> Forall (fun i => 0 <= i < fab_nc fb2) v2 ->
  merge_pair (pre1 ++ encode_fab fb1 ++ post1) (blen pre1) (pre2 ++ encode_fab fb2 ++ post2) (blen pre2) v1 v2
  = Some (encode_fab (merge_fab v1 v2 fb1 fb2), blen (pre1 ++ encode_fab fb1), blen (pre2 ++ encode_fab fb2)).
Proof.
  intros pre1 fb1 post1 pre2 fb2 post2 v1 v2 Hok1 Hok2 Hv1 Hv2.
  unfold merge_pair.
  pose proof (blen_nonneg pre1). pose proof (blen_nonneg pre2).
  destruct (0 <=? blen pre1) eqn:E1; [|lia]. destruct (0 <=? blen pre2) eqn:E2; [|lia].
  rewrite (read_header_at pre1 fb1 post1 Hok1), (read_header_at pre2 fb2 post2 Hok2).
  cbn [obind h_lo h_hi h_nc]. cbv zeta.
  rewrite (whole_payload pre1 fb1 post1 Hok1), (whole_payload pre2 fb2 post2 Hok2).
  rewrite (whole_reshape fb1 Hok1), (whole_reshape fb2 Hok2).
  rewrite (comps_norm_id _ _ Hv1), (comps_norm_id _ _ Hv2). cbn [obind].
  apply f_equal. apply (f_equal2 pair); [apply (f_equal2 pair)|].
  - unfold encode_fab, fab_hdr, merge_fab. cbn [fab_lo fab_hi fab_nc fab_data]. reflexivity.
  - rewrite blen_app, (blen_encode_fab fb1 Hok1).
    destruct (fab_ok_inv fb1 Hok1) as (_ & _ & _ & _ & _ & Hd). rewrite Hd. ring.
  - rewrite blen_app, (blen_encode_fab fb2 Hok2).
    destruct (fab_ok_inv fb2 Hok2) as (_ & _ & _ & _ & _ & Hd). rewrite Hd. ring.
Qed.

(* ------------------------------------------------------------------ *)
(** * box-by-box workers: any list of pairs, any order, any files *)

(* a job names the two source boxes by the offsets of their FABs *)
Definition job_of (f1 : bytes) (fb1 fb2 : fab) (job : Z * bytes * Z) : Prop :=
  let '(off1, f2, off2) := job in
  (exists pre1 post1, f1 = pre1 ++ encode_fab fb1 ++ post1 /\ off1 = blen pre1) /\
  (exists pre2 post2, f2 = pre2 ++ encode_fab fb2 ++ post2 /\ off2 = blen pre2).

Theorem combine_at_spec : forall f1 v1 v2 (jobs : list (Z * bytes * Z)) (pairs : list (fab * fab)) out0,
  Forall2 (fun job p => job_of f1 (fst p) (snd p) job /\
                        fab_ok (fst p) = true /\ fab_ok (snd p) = true /\
                        Forall (fun i => 0 <= i < fab_nc (fst p)) v1 /\
                        Forall (fun i => 0 <= i < fab_nc (snd p)) v2) jobs pairs ->
  let merged := map (fun p => merge_fab v1 v2 (fst p) (snd p)) pairs in
  combine_at f1 jobs v1 v2 out0
  = Some (out0 ++ encode_file merged,
          map (fun j => blen out0 + fab_offset merged j) (seq 0 (length pairs))).
Proof.
  intros f1 v1 v2 jobs pairs out0 H. cbv zeta. revert out0.
  induction H as [|job p jobs pairs Hjp _ IH]; intros out0.
  - cbn [combine_at map seq length]. rewrite encode_file_nil, app_nil_r. reflexivity.
  - destruct job as [[off1 f2] off2]. destruct Hjp as (Hjob & Hok1 & Hok2 & Hv1 & Hv2).
    cbn [job_of] in Hjob. destruct Hjob as [(pre1 & post1 & -> & ->) (pre2 & post2 & -> & ->)].
    cbn [combine_at]. rewrite (merge_pair_spec pre1 (fst p) post1 pre2 (snd p) post2 v1 v2 Hok1 Hok2 Hv1 Hv2).
    cbn [obind]. rewrite (IH (out0 ++ encode_fab (merge_fab v1 v2 (fst p) (snd p)))). cbn [obind fst snd].
    f_equal. apply (f_equal2 pair).
    + cbn [map]. rewrite encode_file_cons, <- app_assoc. reflexivity.
    + cbn [length seq map]. rewrite fab_offset_0, Z.add_0_r. f_equal.
      rewrite <- seq_shift. rewrite (map_map S). apply map_ext. intros j.
      rewrite fab_offset_S, blen_app. unfold fab_size. lia.
Qed.

(* ------------------------------------------------------------------ *)
(** * the combined box holds the source components bit for bit *)

Lemma merge_fab_ok v1 v2 fb1 fb2 :
  fab_ok fb1 = true -> fab_ok fb2 = true -> fab_shape fb2 = fab_shape fb1 ->
  Forall (fun i => 0 <= i < fab_nc fb1) v1 -> Forall (fun i => 0 <= i < fab_nc fb2) v2 ->
  fab_ok (merge_fab v1 v2 fb1 fb2) = true.
Proof.
  intros Hok1 Hok2 Hsh Hv1 Hv2.
  assert (Hc2 : fab_cells fb2 = fab_cells fb1) by (unfold fab_cells; rewrite Hsh; reflexivity).
  assert (Hlen : blen (fab_data (merge_fab v1 v2 fb1 fb2)) = 8 * fab_cells fb1 * (blen v1 + blen v2)).
  { cbn [merge_fab fab_data]. rewrite blen_app.
    rewrite (blen_concat_const _ (8 * fab_cells fb1)), (blen_concat_const _ (8 * fab_cells fb1)).
    - rewrite !blen_map. ring.
    - apply Forall_map. revert Hv2. apply Forall_impl. intros i Hi.
      rewrite <- Hc2. apply blen_fab_comp_local; assumption.
    - apply Forall_map. revert Hv1. apply Forall_impl. intros i Hi. apply blen_fab_comp_local; assumption. }
  pose proof Hok1 as H. unfold fab_ok in H.
  apply andb_true_iff in H. destruct H as [H H5]. apply andb_true_iff in H. destruct H as [H H4].
  apply andb_true_iff in H. destruct H as [H H3]. apply andb_true_iff in H. destruct H as [H1 H2].
  unfold fab_ok. rewrite Hlen.
  change (fab_cells (merge_fab v1 v2 fb1 fb2)) with (fab_cells fb1).
  change (fab_shape (merge_fab v1 v2 fb1 fb2)) with (fab_shape fb1).
  cbn [merge_fab fab_lo fab_hi fab_nc]. rewrite H1, H2, H3. cbn [andb].
  pose proof (blen_nonneg v1). pose proof (blen_nonneg v2).
  apply andb_true_iff. split; [apply Z.leb_le; lia | apply Z.eqb_refl].
Qed.

Theorem merge_fab_comp_first : forall v1 v2 fb1 fb2 j,
  fab_ok fb1 = true -> fab_ok fb2 = true -> fab_shape fb2 = fab_shape fb1 ->
  Forall (fun i => 0 <= i < fab_nc fb1) v1 -> Forall (fun i => 0 <= i < fab_nc fb2) v2 ->
  (j < length v1)%nat ->
  fab_comp (merge_fab v1 v2 fb1 fb2) (Z.of_nat j) = fab_comp fb1 (nth j v1 0).
Proof.
  intros v1 v2 fb1 fb2 j Hok1 Hok2 Hsh Hv1 Hv2 Hj.
  pose proof (fab_cells_pos fb1 Hok1) as Hc.
  assert (Hc2 : fab_cells fb2 = fab_cells fb1) by (unfold fab_cells; rewrite Hsh; reflexivity).
  unfold fab_comp at 1. change (fab_cells (merge_fab v1 v2 fb1 fb2)) with (fab_cells fb1).
  cbn [merge_fab fab_data]. rewrite <- concat_app.
  rewrite (sub_concat_nth (8 * fab_cells fb1)).
  - rewrite app_nth1 by (rewrite map_length; exact Hj).
    rewrite (nth_indep _ [] (fab_comp fb1 0)) by (rewrite map_length; exact Hj). apply map_nth.
  - lia.
  - apply Forall_app. split; apply Forall_map.
    + revert Hv1. apply Forall_impl. intros i Hi. apply blen_fab_comp_local; assumption.
    + revert Hv2. apply Forall_impl. intros i Hi. rewrite <- Hc2. apply blen_fab_comp_local; assumption.
  - rewrite app_length, !map_length. lia.
Qed.

Theorem merge_fab_comp_second : forall v1 v2 fb1 fb2 j,
  fab_ok fb1 = true -> fab_ok fb2 = true -> fab_shape fb2 = fab_shape fb1 ->
  Forall (fun i => 0 <= i < fab_nc fb1) v1 -> Forall (fun i => 0 <= i < fab_nc fb2) v2 ->
  (j < length v2)%nat ->
  fab_comp (merge_fab v1 v2 fb1 fb2) (Z.of_nat (length v1 + j)) = fab_comp fb2 (nth j v2 0).
Proof.
  intros v1 v2 fb1 fb2 j Hok1 Hok2 Hsh Hv1 Hv2 Hj.
  pose proof (fab_cells_pos fb1 Hok1) as Hc.
  assert (Hc2 : fab_cells fb2 = fab_cells fb1) by (unfold fab_cells; rewrite Hsh; reflexivity).
  unfold fab_comp at 1. change (fab_cells (merge_fab v1 v2 fb1 fb2)) with (fab_cells fb1).
  cbn [merge_fab fab_data]. rewrite <- concat_app.
  rewrite (sub_concat_nth (8 * fab_cells fb1)).
  - rewrite app_nth2 by (rewrite map_length; lia). rewrite map_length.
    replace (length v1 + j - length v1)%nat with j by lia.
    rewrite (nth_indep _ [] (fab_comp fb2 0)) by (rewrite map_length; exact Hj). apply map_nth.
  - lia.
  - apply Forall_app. split; apply Forall_map.
    + revert Hv1. apply Forall_impl. intros i Hi. apply blen_fab_comp_local; assumption.
    + revert Hv2. apply Forall_impl. intros i Hi. rewrite <- Hc2. apply blen_fab_comp_local; assumption.
  - rewrite app_length, !map_length. lia.
Qed.

(* ------------------------------------------------------------------ *)
(** * file-by-file worker: two files scanned in lock step *)

Theorem combine_scan_spec : forall (pairs : list (fab * fab)) v1 v2 fuel pre1 pre2 out0,
  Forall (fun p => fab_ok (fst p) = true /\ fab_ok (snd p) = true /\
                   Forall (fun i => 0 <= i < fab_nc (fst p)) v1 /\
                   Forall (fun i => 0 <= i < fab_nc (snd p)) v2) pairs ->
  (length pairs < fuel)%nat ->
  let merged := map (fun p => merge_fab v1 v2 (fst p) (snd p)) pairs in
  combine_scan fuel (pre1 ++ encode_file (map fst pairs)) (pre2 ++ encode_file (map snd pairs))
               (blen pre1) (blen pre2) v1 v2 out0
  = Some (out0 ++ encode_file merged,
          map (fun j => blen out0 + fab_offset merged j) (seq 0 (length pairs))).
Proof.
  induction pairs as [|p pairs IH]; intros v1 v2 fuel pre1 pre2 out0 Hall Hfuel; cbv zeta.
  - destruct fuel as [|fuel]; [cbn in Hfuel; lia|].
    cbn [combine_scan map]. rewrite encode_file_nil, read_header_eof.
    cbn [seq length map]. rewrite app_nil_r. reflexivity.
  - inversion Hall as [|? ? (Hok1 & Hok2 & Hv1 & Hv2) Hall']; subst.
    destruct fuel as [|fuel]; [cbn in Hfuel; lia|]. cbn [length] in Hfuel.
    cbn [combine_scan map]. rewrite !encode_file_cons.
    rewrite (read_header_at pre1 (fst p) _ Hok1), (read_header_at pre2 (snd p) _ Hok2).
    rewrite (merge_pair_spec pre1 (fst p) _ pre2 (snd p) _ v1 v2 Hok1 Hok2 Hv1 Hv2).
    cbn [obind].
    replace (pre1 ++ encode_fab (fst p) ++ encode_file (map fst pairs))
      with ((pre1 ++ encode_fab (fst p)) ++ encode_file (map fst pairs)) by (rewrite <- app_assoc; reflexivity).
    replace (pre2 ++ encode_fab (snd p) ++ encode_file (map snd pairs))
      with ((pre2 ++ encode_fab (snd p)) ++ encode_file (map snd pairs)) by (rewrite <- app_assoc; reflexivity).
    rewrite (IH v1 v2 fuel _ _ (out0 ++ encode_fab (merge_fab v1 v2 (fst p) (snd p))) Hall' ltac:(lia)).
    cbn [obind fst snd]. f_equal. apply (f_equal2 pair).
    + rewrite <- app_assoc. reflexivity.
    + cbn [length seq map]. rewrite fab_offset_0, Z.add_0_r. f_equal.
      rewrite <- seq_shift. rewrite (map_map S). apply map_ext. intros j.
      rewrite fab_offset_S, blen_app. unfold fab_size. lia.
Qed.

(* ------------------------------------------------------------------ *)
(** * different meshes are refused (no output directory is produced) *)

Lemma guard_some {A} (b : bool) (k : option A) (r : A) : (if b then k else None) = Some r -> b = true /\ k = Some r.
Proof. destruct b; [intros H; split; [reflexivity | exact H] | discriminate]. Qed.

Theorem combine_refuses : forall names1 names2 d1 d2 out,
  combine_tool names1 names2 d1 d2 = Some out ->
  exists ht1 op1 lv1 ht2 op2 lv2,
    pd_header d1 = Some ht1 /\ open_header ht1 None = Some op1 /\ open_levels d1 op1 false = Some lv1 /\
    pd_header d2 = Some ht2 /\ open_header ht2 None = Some op2 /\ open_levels d2 op2 false = Some lv2 /\
    o_limit op1 = o_limit op2 /\
    forallb (fun cc => same_indexes (c_indexes (snd (fst cc))) (c_indexes (snd (snd cc)))) (combine lv1 lv2) = true.
Proof.
  intros names1 names2 d1 d2 out H. unfold combine_tool in H.
  destruct (pd_header d1) as [ht1|] eqn:E1; cbn [obind] in H; [|discriminate].
  destruct (open_header ht1 None) as [op1|] eqn:E2; cbn [obind] in H; [|discriminate].
  destruct (open_levels d1 op1 false) as [lv1|] eqn:E3; cbn [obind] in H; [|discriminate].
  destruct (pd_header d2) as [ht2|] eqn:E4; cbn [obind] in H; [|discriminate].
  destruct (open_header ht2 None) as [op2|] eqn:E5; cbn [obind] in H; [|discriminate].
  destruct (open_levels d2 op2 false) as [lv2|] eqn:E6; cbn [obind] in H; [|discriminate].
  apply guard_some in H. destruct H as [_ H].
  apply guard_some in H. destruct H as [Hlim H].
  apply guard_some in H. destruct H as [Hidx _].
  exists ht1, op1, lv1, ht2, op2, lv2.
  split; [reflexivity|]. split; [exact E2|]. split; [exact E3|].
  split; [reflexivity|]. split; [exact E5|]. split; [exact E6|].
  split; [apply Z.eqb_eq; exact Hlim | exact Hidx].
Qed.
