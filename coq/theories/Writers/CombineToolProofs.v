(* combine, the whole tool: on the directory images of EVERY pair of
   well-formed plotfiles defined on the same boxes (any number of levels and
   boxes, each input in any box -> file distribution and on-disk order) the
   model of combine(...) writes exactly the directory image of the combined
   plotfile [combine_spec]: in every box the selected components of the first
   input followed by the selected components of the second, whichever of the
   three combination modes validate_combine_input picks.
   Standard library only, no axioms. *)
From AK Require Import Base.Prelude Bytes.Text Bytes.FabHeader Bytes.FabHeaderProofs
  Bytes.BinFile Reader.Select Reader.BoxRead Reader.Level Reader.ReadSpec
  Reader.LayoutProofs Reader.ReadProofs Reader.IterProofs
  Plotfile.TextHeader Plotfile.HeaderSpec Plotfile.HeaderProofs
  Taste.Taste Taste.TasteSpec Plotfile.Abstract Taste.CompleteProofs
  Writers.Colander Writers.ColanderSpec Writers.ColanderSpecProofs Writers.ColanderProofs
  Writers.ColanderLevelProofs Writers.ColanderHeaderProofs Writers.ColanderToolProofs
  Writers.Combine Writers.CombineProofs Writers.RelayoutProofs Writers.CombineLevelProofs Writers.CombineHeaderProofs.

(* the specification [combine_spec] is in Writers/CombineSpec.v; its level of merged boxes is the re-laid level of the level theorems *)
Lemma merged_level_eq lv1 lv2 v1 v2 : merged_level lv1 lv2 v1 v2 = merged_lv lv1 lv2 v1 v2.
Proof. reflexivity. Qed.

(* the two inputs are defined on the same boxes *)
Definition same_mesh (pf1 pf2 : plotfile) : Prop :=
  g_max_level (pf_g pf2) = g_max_level (pf_g pf1) /\
  Forall2 (fun pl1 pl2 =>
             map (fun fb => (fab_lo fb, fab_hi fb)) (lv_fabs (pl_level pl2))
             = map (fun fb => (fab_lo fb, fab_hi fb)) (lv_fabs (pl_level pl1)))
          (pf_levels pf1) (pf_levels pf2).

(* ------------------------------------------------------------------ *)
(** * small facts *)
Lemma same_indexes_refl : forall l, same_indexes l l = true.
Proof.
  assert (G : forall a, list_Z_eqb a a = true) by (induction a as [|x a IH]; cbn [list_Z_eqb]; [reflexivity | rewrite Z.eqb_refl, IH; reflexivity]).
  induction l as [|[lo hi] l IH]; cbn [same_indexes]; [reflexivity|]. rewrite !G, IH. reflexivity.
Qed.

Lemma shapes_of_indexes (l1 l2 : list fab) :
  map (fun fb => (fab_lo fb, fab_hi fb)) l2 = map (fun fb => (fab_lo fb, fab_hi fb)) l1 ->
  length l2 = length l1 /\ forall i, (i < length l1)%nat -> fab_shape (nth i l2 dummy_fab) = fab_shape (nth i l1 dummy_fab).
Proof.
  intros H. split; [rewrite <- (map_length (fun fb => (fab_lo fb, fab_hi fb)) l2), H, map_length; reflexivity|].
  intros i Hi.
  pose proof (f_equal (fun l => nth i l ([], [])) H) as E. cbv beta in E.
  assert (Hl : length l2 = length l1) by (rewrite <- (map_length (fun fb => (fab_lo fb, fab_hi fb)) l2), H, map_length; reflexivity).
  rewrite (nth_indep _ ([], []) ((fun fb => (fab_lo fb, fab_hi fb)) dummy_fab)) in E by (rewrite map_length, Hl; exact Hi).
  rewrite (map_nth (fun fb => (fab_lo fb, fab_hi fb))) in E.
  rewrite (nth_indep (map _ l1) ([], []) ((fun fb => (fab_lo fb, fab_hi fb)) dummy_fab)) in E by (rewrite map_length; exact Hi).
  rewrite (map_nth (fun fb => (fab_lo fb, fab_hi fb))) in E.
  cbv beta in E. apply pair_equal_spec in E. destruct E as [E1 E2]. unfold fab_shape. rewrite E1, E2. reflexivity.
Qed.

Lemma field_index_range keys name i : field_index keys name = Some i -> 0 <= i < blen keys.
Proof.
  unfold field_index. assert (G : forall l k j, index_of bytes_eqb name l k = Some j -> k <= j < k + blen l).
  { induction l as [|x l IH]; intros k j H; cbn [index_of] in H; [discriminate|].
    unfold blen in *. cbn [length]. destruct (bytes_eqb x name).
    - injection H as <-. lia.
    - apply IH in H. lia. }
  intros H. apply G in H. lia.
Qed.

Lemma omap_field_index_range keys : forall names v, omap_all (field_index keys) names = Some v ->
  Forall (fun i => 0 <= i < blen keys) v /\ length v = length names.
Proof.
  induction names as [|nm names IH]; intros v H; cbn [omap_all] in H.
  - injection H as <-. split; [constructor | reflexivity].
  - destruct (field_index keys nm) as [i|] eqn:E; cbn [obind] in H; [|discriminate].
    destruct (omap_all (field_index keys) names) as [r|] eqn:E2; cbn [obind] in H; [|discriminate].
    injection H as <-. destruct (IH r eq_refl) as [H1 H2]. split; [constructor; [apply (field_index_range keys nm); exact E | exact H1] | cbn [length]; rewrite H2; reflexivity].
Qed.

(* ------------------------------------------------------------------ *)
(** * one level directory *)
Section OneLevel.
Variables (pf1 pf2 : plotfile) (v1 v2 : list Z) (mode : cmode).
Hypothesis Hwf1 : wf_plotfile pf1.
Hypothesis Hwf2 : wf_plotfile pf2.
Hypothesis Hrows1 : wf_rows pf1.
Hypothesis Hrows2 : wf_rows pf2.
Hypothesis Hv1 : Forall (fun i => 0 <= i < pf_nfields pf1) v1.
Hypothesis Hv2 : Forall (fun i => 0 <= i < pf_nfields pf2) v2.
Hypothesis Hne : v1 ++ v2 <> [].

Lemma level_dir : forall k pl1 pl2, In pl1 (pf_levels pf1) -> In pl2 (pf_levels pf2) ->
  map (fun fb => (fab_lo fb, fab_hi fb)) (lv_fabs (pl_level pl2)) = map (fun fb => (fab_lo fb, fab_hi fb)) (lv_fabs (pl_level pl1)) ->
  lb_cell_dir (pl_boxes pl1) = level_name (Z.of_nat k) ->
  (* the mode in force satisfies its condition on this level *)
  (mode <> ByBox -> level_same_files (strip_minmax (pl_cellh pl1), strip_minmax (pl_cellh pl2))) ->
  (mode = ByFile -> level_box_order (strip_minmax (pl_cellh pl1), strip_minmax (pl_cellh pl2))) ->
  (do r <- combine_level mode (ld_files (snd (pl_dir (pf_nfields pf1) pl1))) (ld_files (snd (pl_dir (pf_nfields pf2) pl2)))
                         (strip_minmax (pl_cellh pl1)) (strip_minmax (pl_cellh pl2)) v1 v2;
   do t1 <- ld_cellh (snd (pl_dir (pf_nfields pf1) pl1)); do t2 <- ld_cellh (snd (pl_dir (pf_nfields pf2) pl2));
   do t' <- rewrite_level_header t1 t2 (blen v1 + blen v2) (snd r) v1 v2;
   Some (lb_cell_dir (pl_boxes pl1), {| ld_cellh := Some t'; ld_files := fst r |}))
  = Some (pl_dir (blen v1 + blen v2) (combined_level (pf_g pf1) v1 v2 k (pl1, pl2))).
Proof.
  intros k pl1 pl2 Hin1 Hin2 Hidx Hdir Hsame Hfile.
  destruct Hwf1 as (_ & _ & _ & Hlv1). rewrite Forall_forall in Hlv1.
  destruct Hwf2 as (_ & _ & _ & Hlv2). rewrite Forall_forall in Hlv2.
  destruct (Hlv1 pl1 Hin1) as (Hb1 & Hwl1 & Hne1 & Hnc1 & Hncs1 & Hmn1 & Hmx1 & Hmnf1 & Hmxf1).
  destruct (Hlv2 pl2 Hin2) as (Hb2 & Hwl2 & Hne2 & Hnc2 & Hncs2 & Hmn2 & Hmx2 & Hmnf2 & Hmxf2).
  unfold wf_rows in Hrows1, Hrows2. rewrite Forall_forall in Hrows1, Hrows2.
  destruct (Hrows1 pl1 Hin1) as [Hr11 Hr12]. destruct (Hrows2 pl2 Hin2) as [Hr21 Hr22].
  destruct (shapes_of_indexes _ _ Hidx) as [Hlen Hshape].
  set (lvA := pl_level pl1) in *. set (lvB := pl_level pl2) in *.
  assert (HvA : forall i, (i < length (lv_fabs lvA))%nat -> Forall (fun j => 0 <= j < fab_nc (nth i (lv_fabs lvA) dummy_fab)) v1).
  { intros i Hi. rewrite Forall_forall in Hncs1. rewrite (Hncs1 _ (nth_In _ _ Hi)). exact Hv1. }
  assert (HvB : forall i, (i < length (lv_fabs lvA))%nat -> Forall (fun j => 0 <= j < fab_nc (nth i (lv_fabs lvB) dummy_fab)) v2).
  { intros i Hi. rewrite Forall_forall in Hncs2. rewrite (Hncs2 _ (nth_In _ _ ltac:(rewrite Hlen; exact Hi))). exact Hv2. }
  cbn [pl_dir snd ld_files ld_cellh]. fold lvA lvB.
  assert (Hlevel : combine_level mode (lv_disk lvA) (lv_disk lvB) (strip_minmax (pl_cellh pl1)) (strip_minmax (pl_cellh pl2)) v1 v2
                   = Some (lv_disk (merged_lv lvA lvB v1 v2), map snd (cells_or_nil (merged_lv lvA lvB v1 v2)))).
  { destruct mode.
    - apply (combine_level_byfile lvA lvB Hwl1 Hwl2 Hlen v1 v2 HvA HvB Hshape (strip_minmax (pl_cellh pl1)) (strip_minmax (pl_cellh pl2)) eq_refl eq_refl eq_refl eq_refl eq_refl).
      + symmetry. exact (Hsame ltac:(discriminate)).
      + intros name Hname. exact (proj1 (Hfile eq_refl name Hname)).
      + intros name Hname. exact (proj2 (Hfile eq_refl name Hname)).
    - apply (combine_level_byoffset lvA lvB Hwl1 Hwl2 Hlen v1 v2 HvA HvB Hshape (strip_minmax (pl_cellh pl1)) (strip_minmax (pl_cellh pl2)) eq_refl eq_refl eq_refl eq_refl eq_refl).
      symmetry. exact (Hsame ltac:(discriminate)).
    - apply (combine_level_bybox lvA lvB Hwl1 Hwl2 Hlen v1 v2 HvA HvB Hshape (strip_minmax (pl_cellh pl1)) (strip_minmax (pl_cellh pl2)) eq_refl eq_refl eq_refl eq_refl eq_refl). }
  rewrite Hlevel. cbn [obind fst snd].
  assert (HidxneA : c_indexes (pl_cellh pl1) <> []).
  { cbn [pl_cellh c_indexes]. fold lvA. destruct (lv_fabs lvA); [congruence | discriminate]. }
  rewrite (rewrite_level_header_print (pf_nfields pf1) (pf_nfields pf2) (pl_cellh pl1) (pl_cellh pl2) v1 v2 _
             (wf_cellh_pl _ _ pl1 true (Hlv1 pl1 Hin1)) (wf_cellh_pl _ _ pl2 true (Hlv2 pl2 Hin2)) HidxneA).
  - cbn [obind]. unfold pl_dir, combined_level. cbn [pl_boxes lb_cell_dir pl_level fst snd]. rewrite Hdir.
    fold lvA lvB. change (merged_level lvA lvB v1 v2) with (merged_lv lvA lvB v1 v2).
    f_equal. f_equal. f_equal. f_equal. f_equal.
    unfold combined_cellh, pl_cellh. cbn [c_indexes c_files c_offsets c_mins c_maxs pl_level pl_mins pl_maxs].
    fold lvA lvB.
    assert (E1 : map (fun fb => (fab_lo fb, fab_hi fb)) (lv_fabs (merged_lv lvA lvB v1 v2))
                 = map (fun fb => (fab_lo fb, fab_hi fb)) (lv_fabs lvA)).
    { unfold merged_lv, relaid, merged_fabs. cbn [lv_fabs]. rewrite map_map.
      rewrite (map_via_seq dummy_fab (fun fb => (fab_lo fb, fab_hi fb)) (lv_fabs lvA)). reflexivity. }
    assert (E2 : map fst (cells_or_nil (merged_lv lvA lvB v1 v2)) = map fst (cells_or_nil lvA)).
    { unfold merged_lv. apply (relaid_names lvA Hwl1 _ (merged_length lvA lvB v1 v2)).
      apply (merged_ok lvA lvB Hwl1 Hwl2 Hlen v1 v2 HvA HvB Hshape). }
    rewrite E1, E2. reflexivity.
  - cbn [pl_cellh c_indexes]. fold lvA lvB. rewrite !map_length. exact Hlen.
  - exact Hr11.
  - exact Hr12.
  - exact Hr21.
  - exact Hr22.
  - exact Hne.
  - exact Hv1.
  - exact Hv2.
  - rewrite map_length. unfold merged_lv.
    rewrite (relaid_cells lvA Hwl1 _ (merged_length lvA lvB v1 v2) (merged_ok lvA lvB Hwl1 Hwl2 Hlen v1 v2 HvA HvB Hshape)).
    rewrite map_length, seq_length. cbn [pl_cellh c_indexes]. fold lvA. rewrite map_length. reflexivity.
Qed.
End OneLevel.

(* ------------------------------------------------------------------ *)
(** * the tool *)
Lemma combine_map3 {A B C D E} (f : A -> C) (g : A -> D) (h : B -> E) : forall (l1 : list A) (l2 : list B),
  combine (combine (map f l1) (map g l1)) (map h l2) = map (fun p => (f (fst p), g (fst p), h (snd p))) (combine l1 l2).
Proof.
  induction l1 as [|a l1 IH]; intros [|b l2]; cbn [map combine]; try reflexivity. rewrite IH. reflexivity.
Qed.

Lemma combine_map2 {A B C D} (f : A -> C) (g : B -> D) : forall (l1 : list A) (l2 : list B),
  combine (map f l1) (map g l2) = map (fun p => (f (fst p), g (snd p))) (combine l1 l2).
Proof.
  induction l1 as [|a l1 IH]; intros [|b l2]; cbn [map combine]; try reflexivity. rewrite IH. reflexivity.
Qed.

Lemma firstn_levels pf : wf_plotfile pf ->
  firstn (Z.to_nat (g_max_level (pf_g pf) + 1)) (pf_levels pf) = pf_levels pf.
Proof. intros (_ & Hlen & _). apply firstn_all2. unfold blen in Hlen. lia. Qed.

Lemma combined_header_spec : forall pf1 pf2 v1 v2 names,
  wf_plotfile pf1 -> length (pf_levels pf2) = length (pf_levels pf1) ->
  let L := combine (pf_levels pf1) (pf_levels pf2) in
  combined_header (opened_of pf1 (g_max_level (pf_g pf1))) names
  = print_header (combined_gheader (pf_g pf1) names)
      (map pl_boxes (map (fun kl => combined_level (pf_g pf1) v1 v2 (fst kl) (snd kl)) (combine (seq 0 (length L)) L))).
Proof.
  intros pf1 pf2 v1 v2 names Hwf Hlen L. unfold combined_header, opened_of. cbn [o_g o_limit o_levels].
  unfold restrict_levels. rewrite firstn_map, (firstn_levels pf1 Hwf).
  change {| g_version := g_version (pf_g pf1); g_names := names; g_ndims := g_ndims (pf_g pf1);
            g_time := g_time (pf_g pf1); g_max_level := g_max_level (pf_g pf1);
            g_geo_low := g_geo_low (pf_g pf1); g_geo_high := g_geo_high (pf_g pf1);
            g_factors := firstn (Z.to_nat (g_max_level (pf_g pf1) + 1)) (g_factors (pf_g pf1));
            g_grid_hi := firstn (Z.to_nat (g_max_level (pf_g pf1) + 1)) (g_grid_hi (pf_g pf1));
            g_steps := firstn (Z.to_nat (g_max_level (pf_g pf1) + 1)) (g_steps (pf_g pf1));
            g_dx := firstn (Z.to_nat (g_max_level (pf_g pf1) + 1)) (g_dx (pf_g pf1));
            g_sys_coord := g_sys_coord (pf_g pf1) |} with (combined_gheader (pf_g pf1) names).
  f_equal. rewrite combine_seq_map, !map_map. cbn [fst snd combined_level pl_boxes].
  (* the list of levels of the first input, against the zipped list *)
  assert (G : forall (l1 l2 : list plevel) s, length l2 = length l1 ->
             map (fun x : nat * plevel =>
                    {| lb_ncells := blen (lb_boxes (pl_boxes (snd x)));
                       lb_step_line := [str_of_Z (nth (fst x) (g_steps (pf_g pf1)) 0)];
                       lb_boxes := lb_boxes (pl_boxes (snd x));
                       lb_cell_dir := level_name (Z.of_nat (fst x));
                       lb_time_tok := g_time (pf_g pf1) |}) (combine (seq s (length l1)) l1)
             = map (fun x : nat * (plevel * plevel) =>
                    {| lb_ncells := blen (lb_boxes (pl_boxes (fst (snd x))));
                       lb_step_line := [str_of_Z (nth (fst x) (g_steps (pf_g pf1)) 0)];
                       lb_boxes := lb_boxes (pl_boxes (fst (snd x)));
                       lb_cell_dir := level_name (Z.of_nat (fst x));
                       lb_time_tok := g_time (pf_g pf1) |}) (combine (seq s (length (combine l1 l2))) (combine l1 l2))).
  { induction l1 as [|a l1 IH]; intros [|b l2] s Hl; try discriminate; [reflexivity|].
    cbn [combine length seq map fst snd]. f_equal. apply IH. cbn [length] in Hl. lia. }
  apply G. exact Hlen.
Qed.

Lemma Forall2_len {A B} (R : A -> B -> Prop) : forall l1 l2, Forall2 R l1 l2 -> length l1 = length l2.
Proof. induction 1; [reflexivity|]. cbn [length]. f_equal. assumption. Qed.

Theorem combine_refines : forall names1 names2 pf1 pf2 v1 v2,
  wf_plotfile pf1 -> wf_plotfile pf2 -> std_dirs pf1 -> wf_rows pf1 -> wf_rows pf2 ->
  same_mesh pf1 pf2 -> 3 <= g_ndims (pf_g pf1) -> 3 <= g_ndims (pf_g pf2) ->
  names1 <> [] -> names2 <> [] ->
  omap_all (field_index (field_keys (g_names (pf_g pf1)) [])) names1 = Some v1 ->
  omap_all (field_index (field_keys (g_names (pf_g pf2)) [])) names2 = Some v2 ->
  combine_tool names1 names2 (pf_disk pf1) (pf_disk pf2)
  = Some (pf_disk (combine_spec v1 v2 (names1 ++ names2) pf1 pf2)).
Proof.
  intros names1 names2 pf1 pf2 v1 v2 Hwf1 Hwf2 Hstd Hrows1 Hrows2 [Hmax Hmesh] Hd1 Hd2 Hn1 Hn2 Ev1 Ev2.
  assert (Hm1 : 0 <= g_max_level (pf_g pf1)) by (destruct Hwf1 as ((_ & H & _) & _); exact H).
  assert (Hm2 : 0 <= g_max_level (pf_g pf2)) by (destruct Hwf2 as ((_ & H & _) & _); exact H).
  unfold combine_tool.
  change (pd_header (pf_disk pf1)) with (Some (print_header (pf_g pf1) (map pl_boxes (pf_levels pf1)))).
  change (pd_header (pf_disk pf2)) with (Some (print_header (pf_g pf2) (map pl_boxes (pf_levels pf2)))).
  cbn [obind].
  rewrite (open_header_complete pf1 None _ Hwf1 eq_refl Hm1). cbn [obind].
  rewrite (open_levels_complete pf1 _ false Hwf1). cbn [obind].
  rewrite (open_header_complete pf2 None _ Hwf2 eq_refl Hm2). cbn [obind].
  rewrite (open_levels_complete pf2 _ false Hwf2). cbn [obind].
  cbn [opened_of o_g o_limit o_keys].
  replace ((3 <=? g_ndims (pf_g pf1)) && (3 <=? g_ndims (pf_g pf2))) with true
    by (symmetry; apply andb_true_iff; split; apply Z.leb_le; assumption).
  cbn [obind].
  replace (g_max_level (pf_g pf1) =? g_max_level (pf_g pf2)) with true by (rewrite Hmax; symmetry; apply Z.eqb_refl).
  cbn [obind].
  unfold opened_levels. rewrite (firstn_levels pf1 Hwf1), (firstn_levels pf2 Hwf2).
  set (L1 := pf_levels pf1). set (L2 := pf_levels pf2).
  assert (Hlen12 : length L2 = length L1) by (symmetry; apply (Forall2_len _ _ _ Hmesh)).
  set (LL := combine L1 L2).
  assert (HLL : forall k pp, nth_error LL k = Some pp ->
             nth_error L1 k = Some (fst pp) /\ nth_error L2 k = Some (snd pp) /\
             map (fun fb => (fab_lo fb, fab_hi fb)) (lv_fabs (pl_level (snd pp)))
             = map (fun fb => (fab_lo fb, fab_hi fb)) (lv_fabs (pl_level (fst pp)))).
  { unfold LL. clear -Hmesh. induction Hmesh as [|a b l1 l2 Hab _ IH]; intros k pp H; [destruct k; discriminate|].
    destruct k as [|k]; cbn [combine nth_error] in *.
    - injection H as <-. cbn [fst snd]. repeat split. exact Hab.
    - apply IH. exact H. }
  (* same boxes on every level *)
  rewrite combine_map2.
  replace (forallb _ (map _ (combine L1 L2))) with true.
  2:{ symmetry. apply forallb_forall. intros x Hx. apply in_map_iff in Hx. destruct Hx as (pp & <- & Hpp).
      cbn [fst snd strip_minmax c_indexes pl_cellh].
      destruct (In_nth_error _ _ Hpp) as [k Hk]. destruct (HLL k pp Hk) as (_ & _ & E). rewrite E. apply same_indexes_refl. }
  cbn [obind].
  replace (negb (length names1 =? 0)%nat) with true by (destruct names1; [congruence | reflexivity]).
  replace (negb (length names2 =? 0)%nat) with true by (destruct names2; [congruence | reflexivity]).
  cbn [obind]. rewrite Ev1, Ev2. cbn [obind]. cbv zeta.
  destruct (omap_field_index_range _ _ _ Ev1) as [Hv1 Hl1]. destruct (omap_field_index_range _ _ _ Ev2) as [Hv2 Hl2].
  assert (Hv1' : Forall (fun i => 0 <= i < pf_nfields pf1) v1) by (unfold pf_nfields; unfold blen in *; rewrite field_keys_length in Hv1; exact Hv1).
  assert (Hv2' : Forall (fun i => 0 <= i < pf_nfields pf2) v2) by (unfold pf_nfields; unfold blen in *; rewrite field_keys_length in Hv2; exact Hv2).
  assert (Hne : v1 ++ v2 <> []) by (destruct v1; [destruct names1; [congruence | discriminate] | discriminate]).
  assert (Hnf : blen names1 + blen names2 = blen v1 + blen v2) by (unfold blen; rewrite Hl1, Hl2; reflexivity).
  rewrite Hnf.
  (* the mode and what it implies on every level *)
  rewrite !map_map. cbn [snd].
  set (cs := combine (map (fun pl => strip_minmax (pl_cellh pl)) L1) (map (fun pl => strip_minmax (pl_cellh pl)) L2)).
  set (mode := choose_mode cs ByFile).
  assert (Hcs : cs = map (fun pp => (strip_minmax (pl_cellh (fst pp)), strip_minmax (pl_cellh (snd pp)))) LL)
    by (exact (combine_map2 (fun pl => strip_minmax (pl_cellh pl)) (fun pl => strip_minmax (pl_cellh pl)) L1 L2)).
  assert (Hsame : mode <> ByBox -> forall pp, In pp LL -> level_same_files (strip_minmax (pl_cellh (fst pp)), strip_minmax (pl_cellh (snd pp)))).
  { intros Hm pp Hpp. pose proof (choose_mode_same_files cs ByFile ltac:(discriminate) Hm) as HF.
    rewrite Forall_forall in HF. apply HF. rewrite Hcs. apply in_map_iff. exists pp. split; [reflexivity | exact Hpp]. }
  assert (Hfile : mode = ByFile -> forall pp, In pp LL -> level_box_order (strip_minmax (pl_cellh (fst pp)), strip_minmax (pl_cellh (snd pp)))).
  { intros Hm pp Hpp. pose proof (choose_mode_byfile cs Hm) as HF.
    rewrite Forall_forall in HF. apply HF. rewrite Hcs. apply in_map_iff. exists pp. split; [reflexivity | exact Hpp]. }
  assert (Hdirs :
    omap_all (fun x : lvboxes * (ldir * cellh) * (ldir * cellh) =>
                let '(lb, (ld1, c1), (ld2, c2)) := x in
                do r <- combine_level mode (ld_files ld1) (ld_files ld2) c1 c2 v1 v2;
                do t1 <- ld_cellh ld1; do t2 <- ld_cellh ld2;
                do t' <- rewrite_level_header t1 t2 (blen v1 + blen v2) (snd r) v1 v2;
                Some (lb_cell_dir lb, {| ld_cellh := Some t'; ld_files := fst r |}))
             (combine (combine (restrict_levels (g_max_level (pf_g pf1)) (map pl_boxes L1))
                               (map (fun pl => (snd (pl_dir (pf_nfields pf1) pl), strip_minmax (pl_cellh pl))) L1))
                      (map (fun pl => (snd (pl_dir (pf_nfields pf2) pl), strip_minmax (pl_cellh pl))) L2))
    = Some (map (pl_dir (blen v1 + blen v2))
                (map (fun kl => combined_level (pf_g pf1) v1 v2 (fst kl) (snd kl)) (combine (seq 0 (length LL)) LL)))).
  { unfold restrict_levels. rewrite firstn_map. unfold L1 at 1. rewrite (firstn_levels pf1 Hwf1). fold L1.
    rewrite combine_map3. fold LL. rewrite omap_all_map_pre. cbn [fst snd].
    rewrite map_map.
    apply (omap_all_indexed _ (fun k pp => pl_dir (blen v1 + blen v2) (combined_level (pf_g pf1) v1 v2 k pp)) LL 0%nat).
    intros k pp Hk. cbn [Nat.add]. destruct (HLL k pp Hk) as (Hk1 & Hk2 & Eidx).
    destruct pp as [pl1 pl2]. cbn [fst snd] in *.
    apply (level_dir pf1 pf2 v1 v2 mode Hwf1 Hwf2 Hrows1 Hrows2 Hv1' Hv2' Hne k pl1 pl2
             (nth_error_In _ _ Hk1) (nth_error_In _ _ Hk2) Eidx (Hstd k pl1 Hk1)).
    - intros Hm. exact (Hsame Hm (pl1, pl2) (nth_error_In _ _ Hk)).
    - intros Hm. exact (Hfile Hm (pl1, pl2) (nth_error_In _ _ Hk)). }
  unfold opened_of at 1. cbn [o_levels]. fold L1.
  rewrite Hdirs. cbn [obind].
  unfold pf_disk, combine_spec. cbn [pf_g pf_levels]. fold L1 L2 LL. f_equal. f_equal.
  - f_equal. apply (combined_header_spec pf1 pf2 v1 v2 (names1 ++ names2) Hwf1 Hlen12).
  - unfold pf_nfields. cbn [pf_g combined_gheader g_names]. rewrite blen_app, Hnf. reflexivity.
Qed.

Print Assumptions combine_refines.

(* ------------------------------------------------------------------ *)
(** * the extracted pure operation is the specification of the theorem *)
Lemma list_Z_eqb_eq : forall a b, list_Z_eqb a b = true -> a = b.
Proof.
  induction a as [|x a IH]; intros [|y b] H; cbn [list_Z_eqb] in H; try discriminate; [reflexivity|].
  apply andb_true_iff in H. destruct H as [H1 H2]. apply Z.eqb_eq in H1. subst y. f_equal. apply IH. exact H2.
Qed.

Lemma same_indexes_eq : forall a b, same_indexes a b = true -> a = b.
Proof.
  induction a as [|[l1 h1] a IH]; intros [|[l2 h2] b] H; cbn [same_indexes] in H; try discriminate; [reflexivity|].
  apply andb_true_iff in H. destruct H as [H H3]. apply andb_true_iff in H. destruct H as [H1 H2].
  apply list_Z_eqb_eq in H1. apply list_Z_eqb_eq in H2. subst. f_equal. apply IH. exact H3.
Qed.

Lemma same_mesh_b_spec pf1 pf2 : same_mesh_b pf1 pf2 = true -> same_mesh pf1 pf2.
Proof.
  unfold same_mesh_b, same_mesh. intros H. apply andb_true_iff in H. destruct H as [H H3].
  apply andb_true_iff in H. destruct H as [H1 H2]. apply Z.eqb_eq in H1. apply Nat.eqb_eq in H2.
  split; [exact H1|]. rewrite forallb_forall in H3.
  revert H2 H3. generalize (pf_levels pf1) (pf_levels pf2). induction l as [|a l IH]; intros [|b l2] Hl H; try discriminate; [constructor|].
  constructor.
  - symmetry. apply same_indexes_eq. apply (H (a, b)). left. reflexivity.
  - apply IH; [cbn [length] in Hl; lia|]. intros pp Hpp. apply H. right. exact Hpp.
Qed.

Theorem combine_pure_refines : forall names1 names2 pf1 pf2 pf',
  wf_plotfile pf1 -> wf_plotfile pf2 -> std_dirs pf1 -> wf_rows pf1 -> wf_rows pf2 ->
  combine_pure names1 names2 pf1 pf2 = Some pf' ->
  combine_tool names1 names2 (pf_disk pf1) (pf_disk pf2) = Some (pf_disk pf').
Proof.
  intros names1 names2 pf1 pf2 pf' W1 W2 S R1 R2 H. unfold combine_pure in H.
  destruct (same_mesh_b pf1 pf2) eqn:Em; cbn [obind] in H; [|discriminate].
  destruct ((3 <=? g_ndims (pf_g pf1)) && (3 <=? g_ndims (pf_g pf2))) eqn:Ed; cbn [obind] in H; [|discriminate].
  destruct (negb (length names1 =? 0)%nat) eqn:E1; cbn [obind] in H; [|discriminate].
  destruct (negb (length names2 =? 0)%nat) eqn:E2; cbn [obind] in H; [|discriminate].
  destruct (omap_all (field_index (field_keys (g_names (pf_g pf1)) [])) names1) as [v1|] eqn:Ev1; cbn [obind] in H; [|discriminate].
  destruct (omap_all (field_index (field_keys (g_names (pf_g pf2)) [])) names2) as [v2|] eqn:Ev2; cbn [obind] in H; [|discriminate].
  injection H as <-. apply andb_true_iff in Ed. destruct Ed as [D1 D2]. apply Z.leb_le in D1. apply Z.leb_le in D2.
  apply combine_refines; try assumption.
  - apply same_mesh_b_spec. exact Em.
  - intros ->. discriminate.
  - intros ->. discriminate.
Qed.

Print Assumptions combine_pure_refines.
