(* chk2plt with the pressure gradient and / or the reaction rates: the per-box
   hypotheses of the level theorem discharged when those data subsets are
   themselves well-formed levels (FABs without ghost cells on the boxes'
   interiors, ANY file layout of their own) read through their (file, offset)
   tables.  Flooring enters as the table of the rescaled species components (a
   floating-point result): its entries replace the species components of the interior.
   Standard library only, no axioms. *)
From AK Require Import Base.Prelude Bytes.Text Bytes.FabHeader Bytes.FabHeaderProofs
  Bytes.BinFile Reader.Select Reader.BoxRead Reader.Level Reader.ReadSpec Reader.ReadProofs Reader.LayoutProofs Reader.IterProofs
  Plotfile.TextHeader Plotfile.Abstract Taste.Taste Writers.Colander Writers.ColanderProofs Writers.CombineProofs Writers.Chef
  Writers.Chk2plt Writers.Chk2pltProofs Writers.ScatterProofs Writers.Chk2pltLevelProofs.

(* a whole FAB read at the recorded location of box b of a well-formed level *)
Lemma read_fab_at_level : forall glv b c,
  wf_level glv = true -> (b < length (lv_fabs glv))%nat -> locate glv (lv_files glv) b = Some c ->
  read_fab_at (lv_disk glv) (fst c) (snd c)
  = Some (fab_data (nth b (lv_fabs glv) dummy_fab), fab_nc (nth b (lv_fabs glv) dummy_fab), fab_shape (nth b (lv_fabs glv) dummy_fab)).
Proof.
  intros glv b c Hwf Hb Hloc.
  destruct (locate_spec glv b c Hwf Hb Hloc) as (pre & post & Hlk & Hpre).
  set (fb := nth b (lv_fabs glv) dummy_fab) in *.
  assert (Hok : fab_ok fb = true).
  { pose proof (wf_level_fabs_ok glv Hwf) as H. rewrite forallb_forall in H. apply H. apply nth_In. exact Hb. }
  unfold read_fab_at. rewrite Hlk. cbn [obind]. rewrite <- Hpre.
  pose proof (blen_nonneg pre) as Hp. replace (0 <=? blen pre) with true by (symmetry; apply Z.leb_le; exact Hp). cbn [obind].
  rewrite (read_header_at pre fb post Hok). cbn [obind h_nc].
  rewrite (whole_payload pre fb post Hok).
  destruct (fab_ok_inv fb Hok) as (_ & _ & _ & Hsh & Hnc & Hd).
  replace (reshape_ok (fab_data fb) (fab_shape fb ++ [fab_nc fb])) with true; [reflexivity|].
  symmetry. unfold reshape_ok. apply andb_true_iff. split.
  - rewrite forallb_app. apply andb_true_iff. split.
    + rewrite forallb_forall in Hsh |- *. intros d Hd'. specialize (Hsh d Hd'). apply Z.leb_le in Hsh. apply Z.leb_le. lia.
    + cbn [forallb]. rewrite andb_true_r. apply Z.leb_le. exact Hnc.
  - apply Z.eqb_eq. rewrite zprod_app1. change (zprod (fab_shape fb)) with (fab_cells fb). rewrite Hd. ring.
Qed.

(* the components of a FAB as contiguous blocks *)
Definition fab_blocks (f : fab) : list bytes :=
  map (fun c => sub (8 * fab_cells f * c) (8 * fab_cells f) (fab_data f)) (zrange 0 (fab_nc f)).

Lemma fab_blocks_shape f : fab_ok f = true ->
  length (fab_blocks f) = Z.to_nat (fab_nc f) /\ Forall (fun c => blen c = 8 * fab_cells f) (fab_blocks f).
Proof.
  intros Hok. destruct (fab_ok_inv f Hok) as (_ & _ & _ & _ & Hnc & Hd). pose proof (fab_cells_pos f Hok) as Hc.
  unfold fab_blocks. split.
  - rewrite map_length, zrange_length. f_equal. lia.
  - apply Forall_map. apply Forall_forall. intros c Hin.
    unfold zrange in Hin. apply in_map_iff in Hin. destruct Hin as (q & <- & Hq). apply in_seq in Hq.
    apply blen_sub; [nia | lia | rewrite Hd; nia].
Qed.

(* the converted box: interior of the state, then the pressure gradient, then the reaction rates *)
Definition floored_comps (g : Z) (sfb : fab) (fl : option (list bytes)) (ys : Z) : list bytes :=
  match fl with
  | None => plain_comps g sfb
  | Some new => replace_range (Z.to_nat ys) new (plain_comps g sfb)
  end.

Definition full_comps (g : Z) (sfb : fab) (fl : option (list bytes)) (ys : Z) (gfb rfb : option fab) : list bytes :=
  floored_comps g sfb fl ys
  ++ (match gfb with Some f => fab_blocks f | None => [] end)
  ++ (match rfb with Some f => fab_blocks f | None => [] end).

Lemma Forall_firstn_ {A} (Q : A -> Prop) n l : Forall Q l -> Forall Q (firstn n l).
Proof. intros H. revert n. induction H as [|x l Hx _ IH]; intros [|n]; cbn [firstn]; constructor; auto. Qed.
Lemma Forall_skipn_ {A} (Q : A -> Prop) n l : Forall Q l -> Forall Q (skipn n l).
Proof. intros H. revert n. induction H as [|x l Hx Hl IH]; intros [|n]; cbn [skipn]; auto. Qed.

Lemma replace_range_nonempty {A} (start : nat) (new l : list A) : l <> [] -> replace_range start new l <> [].
Proof.
  intros Hl. unfold replace_range. destruct l as [|x l]; [congruence|].
  destruct start as [|start]; cbn [firstn app Nat.add].
  - destruct new as [|y new]; cbn [app length skipn]; discriminate.
  - discriminate.
Qed.

Definition interior_cells (b : list Z * list Z) : Z := zprod (zip_with (fun l h => h - l + 1) (fst b) (snd b)).

Lemma full_box : forall g sfb b i (gfiles rfiles : list (bytes * bytes)) gc rc (gfb rfb : option fab)
    (floored : option (list (list bytes))) (ys ns : Z),
  1 <= g -> fab_ok sfb = true -> ghosted g sfb b ->
  match floored with
  | Some tbl => exists new, nth_error tbl i = Some new /\ Z.of_nat (length new) = ns /\
                            Forall (fun c => blen c = 8 * interior_cells b) new
  | None => True end ->
  match gfb with
  | Some f => fab_ok f = true /\ fab_cells f = interior_cells b /\
              read_fab_at gfiles (fst gc) (snd gc) = Some (fab_data f, fab_nc f, fab_shape f)
  | None => True end ->
  match rfb with
  | Some f => fab_ok f = true /\ fab_cells f = interior_cells b /\
              read_fab_at rfiles (fst rc) (snd rc) = Some (fab_data f, fab_nc f, fab_shape f)
  | None => True end ->
  box_comps gfiles rfiles (match gfb with Some _ => true | None => false end) (match rfb with Some _ => true | None => false end)
            floored ys ns (fab_nc sfb) (fab_shape sfb) (fab_data sfb) (i, b, gc, rc)
  = Some (full_comps g sfb (match floored with Some tbl => Some (nth i tbl []) | None => None end) ys gfb rfb)
  /\ fab_ok (conv_fab (i, b, gc, rc)
                      (full_comps g sfb (match floored with Some tbl => Some (nth i tbl []) | None => None end) ys gfb rfb)) = true.
Proof.
  intros g sfb b i gfiles rfiles [gname goff] [rname roff] gfb rfb floored ys ns Hg Hok Hgh Hfl Hgf Hrf.
  pose proof Hgh as (l0 & l1 & l2 & h0 & h1 & h2 & Eb & H0 & H1 & H2 & Hlo & Hhi & Hnc). subst b.
  destruct (fab_ok_inv sfb Hok) as (_ & _ & _ & _ & _ & Hd).
  assert (Hshape : fab_shape sfb = [h0 - l0 + 1 + 2 * g; h1 - l1 + 1 + 2 * g; h2 - l2 + 1 + 2 * g]).
  { unfold fab_shape, box_shape. rewrite Hlo, Hhi. cbn [zip_with]. f_equal; [|f_equal; [|f_equal]]; ring. }
  assert (Hint : interior_cells ([l0; l1; l2], [h0; h1; h2]) = (h0 - l0 + 1) * ((h1 - l1 + 1) * ((h2 - l2 + 1) * 1))) by reflexivity.
  set (bx := h0 - l0 + 1) in *. set (by_ := h1 - l1 + 1) in *. set (bz := h2 - l2 + 1) in *.
  assert (Hcells : fab_cells sfb = (bx + 2 * g) * ((by_ + 2 * g) * ((bz + 2 * g) * 1))) by (unfold fab_cells; rewrite Hshape; reflexivity).
  assert (Hdata : blen (fab_data sfb) = 8 * ((bx + 2 * g) * (by_ + 2 * g) * (bz + 2 * g) * fab_nc sfb)) by (rewrite Hd, Hcells; ring).
  assert (Hgx : forall b0, (b0 + 2 * g - b0) / 2 = g) by (intros b0; replace (b0 + 2 * g - b0) with (g * 2) by ring; apply Z.div_mul; lia).
  destruct (strip_ghosts_shape (bx + 2 * g) (by_ + 2 * g) (bz + 2 * g) g g g (fab_nc sfb) (fab_data sfb)
              ltac:(lia) ltac:(lia) ltac:(lia) ltac:(unfold bx; lia) ltac:(unfold by_; lia) ltac:(unfold bz; lia) ltac:(lia) Hdata) as [Hlen Hall].
  set (st := strip_ghosts (bx + 2 * g) (by_ + 2 * g) (bz + 2 * g) g g g (fab_nc sfb) (fab_data sfb)) in *.
  assert (Hst : plain_comps g sfb = st) by (unfold plain_comps; rewrite Hshape; reflexivity).
  assert (Hsz : Forall (fun c => blen c = 8 * (bx * (by_ * bz))) st).
  { eapply Forall_impl; [|exact Hall]. intros c Hc. rewrite Hc. f_equal. ring. }
  (* flooring: the species components replaced by the table's *)
  set (fl := match floored with Some tbl => Some (nth i tbl []) | None => None end).
  set (st' := match fl with None => st | Some new => replace_range (Z.to_nat ys) new st end).
  assert (Hst' : floored_comps g sfb fl ys = st') by (unfold floored_comps, st'; rewrite Hst; reflexivity).
  assert (Hne : st' <> []).
  { assert (Hstne : st <> []) by (intros E; rewrite E in Hlen; cbn in Hlen; lia).
    unfold st'. destruct fl as [new|]; [apply replace_range_nonempty; exact Hstne | exact Hstne]. }
  rewrite Hint in Hfl.
  assert (Hsz' : Forall (fun c => blen c = 8 * (bx * (by_ * bz))) st').
  { unfold st', fl. destruct floored as [tbl|]; [|exact Hsz].
    destruct Hfl as (new & Hn & _ & Hnew). rewrite (nth_error_nth tbl i [] Hn).
    unfold replace_range. apply Forall_app. split; [apply Forall_firstn_; exact Hsz|].
    apply Forall_app. split; [|apply Forall_skipn_; exact Hsz].
    eapply Forall_impl; [|exact Hnew]. intros c Hc. rewrite Hc. f_equal. ring. }
  assert (Hflo : match floored with
                 | None => Some st
                 | Some tbl => do new <- nth_error tbl i;
                               guard (Z.of_nat (length new) =? ns);
                               Some (replace_range (Z.to_nat ys) new st)
                 end = Some st').
  { unfold st', fl. destruct floored as [tbl|]; [|reflexivity].
    destruct Hfl as (new & Hn & Hl & _). rewrite Hn. cbn [obind]. rewrite Hl, Z.eqb_refl. cbn [obind].
    rewrite (nth_error_nth tbl i [] Hn). reflexivity. }
  (* the interior's cell count as the code computes it *)
  assert (Ecells : (if g =? 0 then 0 else bx + 2 * g - 2 * g) * (if g =? 0 then 0 else by_ + 2 * g - 2 * g)
                   * (if g =? 0 then 0 else bz + 2 * g - 2 * g) = bx * by_ * bz).
  { replace (g =? 0) with false by lia. ring. }
  (* the two optional blocks *)
  assert (Hopt : forall (files : list (bytes * bytes)) (name : bytes) (off : Z) (ofb : option fab) (pre : list bytes),
     match ofb with
     | Some f => fab_ok f = true /\ fab_cells f = bx * (by_ * (bz * 1)) /\
                 read_fab_at files name off = Some (fab_data f, fab_nc f, fab_shape f)
     | None => True end ->
     (if match ofb with Some _ => true | None => false end then
        do r <- read_fab_at files name off;
        let '(d, nc', gshp) := r in
        guard (zprod gshp =? bx * by_ * bz);
        Some (pre ++ map (fun c => sub (8 * (bx * by_ * bz) * c) (8 * (bx * by_ * bz)) d) (zrange 0 nc'))
      else Some pre)
     = Some (pre ++ match ofb with Some f => fab_blocks f | None => [] end)).
  { intros files name off [f|] pre H; [|rewrite app_nil_r; reflexivity].
    destruct H as (Hfok & Hfc & Hrd). rewrite Hrd. cbn [obind].
    change (zprod (fab_shape f)) with (fab_cells f). rewrite Hfc.
    replace (bx * (by_ * (bz * 1)) =? bx * by_ * bz) with true by (symmetry; apply Z.eqb_eq; ring). cbn [obind].
    unfold fab_blocks. rewrite Hfc. f_equal. f_equal. apply map_ext. intros c.
    replace (8 * (bx * by_ * bz)) with (8 * (bx * (by_ * (bz * 1)))) by ring. reflexivity. }
  rewrite Hint in Hgf, Hrf.
  split.
  - unfold box_comps. rewrite Hshape.
    replace (reshape_ok (fab_data sfb) ([bx + 2 * g; by_ + 2 * g; bz + 2 * g] ++ [fab_nc sfb])) with true.
    2:{ symmetry. unfold reshape_ok. cbn [app forallb zprod fold_right]. apply andb_true_iff. split.
        - repeat (apply andb_true_iff; split); try reflexivity; apply Z.leb_le; unfold bx, by_, bz; lia.
        - apply Z.eqb_eq. rewrite Hdata. ring. }
    cbn [obind]. fold bx by_ bz. rewrite !Hgx.
    replace ((0 <=? g) && (0 <=? g) && (0 <=? g)) with true by (symmetry; rewrite !andb_true_iff; repeat split; apply Z.leb_le; lia).
    cbn [obind]. fold st. rewrite Hflo. cbn [obind]. rewrite Ecells.
    rewrite (Hopt gfiles gname goff gfb st' Hgf). cbn [obind].
    rewrite (Hopt rfiles rname roff rfb _ Hrf). cbn [obind].
    unfold full_comps. fold fl. rewrite Hst', <- app_assoc.
    replace (negb (length (st' ++ match gfb with Some f => fab_blocks f | None => [] end
                              ++ match rfb with Some f => fab_blocks f | None => [] end) =? 0)%nat) with true.
    2:{ symmetry. apply negb_true_iff. apply Nat.eqb_neq. rewrite app_length. destruct st'; [congruence|cbn [length]; lia]. }
    reflexivity.
  - unfold full_comps. fold fl. rewrite Hst'.
    assert (Hall3 : Forall (fun c => blen c = 8 * (bx * (by_ * bz)))
                      (st' ++ match gfb with Some f => fab_blocks f | None => [] end ++ match rfb with Some f => fab_blocks f | None => [] end)).
    { apply Forall_app. split; [exact Hsz'|]. apply Forall_app. split.
      - destruct gfb as [f|]; [|constructor]. destruct Hgf as (Hfok & Hfc & _).
        eapply Forall_impl; [|exact (proj2 (fab_blocks_shape f Hfok))]. intros c Hc. rewrite Hc, Hfc. f_equal. ring.
      - destruct rfb as [f|]; [|constructor]. destruct Hrf as (Hfok & Hfc & _).
        eapply Forall_impl; [|exact (proj2 (fab_blocks_shape f Hfok))]. intros c Hc. rewrite Hc, Hfc. f_equal. ring. }
    set (comps := st' ++ match gfb with Some f => fab_blocks f | None => [] end ++ match rfb with Some f => fab_blocks f | None => [] end) in *.
    unfold fab_ok, conv_fab, job_lo, job_hi. cbn [fst snd fab_lo fab_hi fab_nc fab_data fab_shape fab_cells box_shape length Nat.eqb negb andb].
    cbn [zip_with forallb zprod fold_right]. fold bx by_ bz.
    rewrite (blen_concat_const _ (8 * (bx * (by_ * bz))) Hall3).
    repeat (apply andb_true_iff; split); try reflexivity; try (apply Z.leb_le; unfold bx, by_, bz; lia).
    + apply Z.leb_le. apply blen_nonneg.
    + apply Z.eqb_eq. unfold fab_cells, fab_shape, box_shape. cbn [fab_lo fab_hi zip_with zprod fold_right]. fold bx by_ bz.
      change (@blen bytes comps) with (@blen (list ascii) comps). ring.
Qed.

Section Subsets.
Variable slv : level.
Variable boxes : list (list Z * list Z).
Let n := length (lv_fabs slv).

Definition subset_ok (olv : option level) : Prop :=
  match olv with
  | Some lv => wf_level lv = true /\ length (lv_fabs lv) = n /\
               forall i, (i < n)%nat -> fab_cells (nth i (lv_fabs lv) dummy_fab) = interior_cells (nth i boxes ([], []))
  | None => True
  end.

Definition sub_files (olv : option level) : list (bytes * bytes) := match olv with Some lv => lv_disk lv | None => [] end.
Definition sub_cells (olv : option level) : list (bytes * Z) := match olv with Some lv => cells_or_nil lv | None => [] end.
Definition sub_on (olv : option level) : bool := match olv with Some _ => true | None => false end.
Definition sub_fab (olv : option level) (i : nat) : option fab :=
  match olv with Some lv => Some (nth i (lv_fabs lv) dummy_fab) | None => None end.


Lemma subset_read olv i : subset_ok olv -> (i < n)%nat ->
  match sub_fab olv i with
  | Some f => fab_ok f = true /\ fab_cells f = interior_cells (nth i boxes ([], [])) /\
              read_fab_at (sub_files olv) (fst (nth i (sub_cells olv) ([], 0))) (snd (nth i (sub_cells olv) ([], 0)))
              = Some (fab_data f, fab_nc f, fab_shape f)
  | None => True end.
Proof.
  destruct olv as [lv|]; [|intros _ _; exact I].
  intros (Hw & Hl & Hc) Hi. cbn [sub_fab sub_files sub_cells].
  assert (Hi' : (i < length (lv_fabs lv))%nat) by lia.
  split; [|split].
  - pose proof (wf_level_fabs_ok lv Hw) as H. rewrite forallb_forall in H. apply H. apply nth_In. exact Hi'.
  - apply Hc. exact Hi.
  - destruct (lv_cells_spec lv Hw) as (cells & Hcs & Hlen & Hnth).
    unfold cells_or_nil. rewrite Hcs.
    pose proof (Hnth i Hi') as E.
    assert (Hlt : (i < length cells)%nat) by lia.
    rewrite (nth_error_nth' cells ([], 0) Hlt) in E.
    apply read_fab_at_level; [exact Hw | exact Hi' | symmetry; exact E].
Qed.

End Subsets.

(* ------------------------------------------------------------------ *)
(** * A whole level with gradp / I_R: no per-box hypothesis left *)
Section FullLevel.
Variable g : Z.
Hypothesis Hg : 1 <= g.
Variable slv : level.                          (* the ghosted state level *)
Hypothesis Hwf : wf_level slv = true.
Variable boxes : list (list Z * list Z).
Hypothesis Hboxes : length boxes = length (lv_fabs slv).
Hypothesis Hghost : forall i, (i < length (lv_fabs slv))%nat -> ghosted g (nth i (lv_fabs slv) dummy_fab) (nth i boxes ([], [])).
Hypothesis Hnames : NoDup (map (fun nf : bytes * list nat => cell_name (fst nf)) (lv_files slv)).
Variable glv rlv : option level.               (* the gradp / I_R subsets, when converted: levels of their own, any layout *)
Variable floored : option (list (list bytes)). (* flooring: per box the rescaled species components (a floating-point table) *)
Variable ys ns : Z.

Let n := length (lv_fabs slv).

(* the table has, for every box, as many components as there are species, each of the interior's size *)
Hypothesis Hfl : forall i, (i < n)%nat ->
  match floored with
  | Some tbl => exists new, nth_error tbl i = Some new /\ Z.of_nat (length new) = ns /\
                            Forall (fun c => blen c = 8 * interior_cells (nth i boxes ([], []))) new
  | None => True end.

Hypothesis Hglv : subset_ok slv boxes glv.
Hypothesis Hrlv : subset_ok slv boxes rlv.

Definition full_of (i : nat) : list bytes :=
  full_comps g (nth i (lv_fabs slv) dummy_fab) (match floored with Some tbl => Some (nth i tbl []) | None => None end) ys
             (sub_fab glv i) (sub_fab rlv i).

(* chk2plt on one level with the pressure gradient and / or the reaction rates, ANY layout of each of the three data
   subsets: every box converts to interior ++ gradp ++ I_R, the written level is well-formed, files / (file, offset) table /
   extrema as in the level theorem *)
Theorem convert_level_full :
  let out := conv_lv (sub_cells glv) (sub_cells rlv) slv boxes full_of in
  convert_level boxes (lv_disk slv) (cells_or_nil slv) (sub_files glv) (sub_cells glv) (sub_files rlv) (sub_cells rlv)
                (sub_on glv) (sub_on rlv) floored ys ns
  = Some (map (fun name => (cell_name name, encode_file (file_fabs out (ids_of slv name)))) (np_unique (map fst (cells_or_nil slv))),
          cells_or_nil out,
          map (fun i => map comp_min (full_of i)) (seq 0 n),
          map (fun i => map comp_max (full_of i)) (seq 0 n))
  /\ wf_level out = true.
Proof.
  assert (Hfok : forall i, (i < n)%nat -> fab_ok (nth i (lv_fabs slv) dummy_fab) = true).
  { intros i Hi. pose proof (wf_level_fabs_ok slv Hwf) as H. rewrite forallb_forall in H. apply H. apply nth_In. exact Hi. }
  assert (Hbox : forall i, (i < n)%nat ->
     box_comps (sub_files glv) (sub_files rlv) (sub_on glv) (sub_on rlv) floored ys ns
               (fab_nc (nth i (lv_fabs slv) dummy_fab)) (fab_shape (nth i (lv_fabs slv) dummy_fab)) (fab_data (nth i (lv_fabs slv) dummy_fab))
               (jobi (sub_cells glv) (sub_cells rlv) boxes i) = Some (full_of i)
     /\ fab_ok (conv_fab (jobi (sub_cells glv) (sub_cells rlv) boxes i) (full_of i)) = true).
  { intros i Hi. unfold jobi, full_of.
    pose proof (full_box g (nth i (lv_fabs slv) dummy_fab) (nth i boxes ([], [])) i (sub_files glv) (sub_files rlv)
                  (nth i (sub_cells glv) ([], 0)) (nth i (sub_cells rlv) ([], 0)) (sub_fab glv i) (sub_fab rlv i) floored ys ns
                  Hg (Hfok i Hi) (Hghost i Hi) (Hfl i Hi) (subset_read slv boxes glv i Hglv Hi) (subset_read slv boxes rlv i Hrlv Hi)) as H.
    replace (match sub_fab glv i with Some _ => true | None => false end) with (sub_on glv) in H by (destruct glv; reflexivity).
    replace (match sub_fab rlv i with Some _ => true | None => false end) with (sub_on rlv) in H by (destruct rlv; reflexivity).
    exact H. }
  apply (convert_level_layout (sub_files glv) (sub_files rlv) (sub_cells glv) (sub_cells rlv) (sub_on glv) (sub_on rlv) floored ys ns
           slv Hwf boxes Hboxes full_of).
  - intros i Hi. exact (proj1 (Hbox i Hi)).
  - exact Hnames.
  - intros i Hi. unfold conv_i. exact (proj2 (Hbox i Hi)).
Qed.
End FullLevel.

Print Assumptions convert_level_full.

(* ------------------------------------------------------------------ *)
(** * How many components a converted box has *)
Lemma plain_comps_length g sfb b : 1 <= g -> fab_ok sfb = true -> ghosted g sfb b ->
  length (plain_comps g sfb) = Z.to_nat (fab_nc sfb).
Proof.
  intros Hg Hok (l0 & l1 & l2 & h0 & h1 & h2 & -> & H0 & H1 & H2 & Hlo & Hhi & Hnc).
  destruct (fab_ok_inv sfb Hok) as (_ & _ & _ & _ & _ & Hd).
  assert (Hshape : fab_shape sfb = [h0 - l0 + 1 + 2 * g; h1 - l1 + 1 + 2 * g; h2 - l2 + 1 + 2 * g]).
  { unfold fab_shape, box_shape. rewrite Hlo, Hhi. cbn [zip_with]. f_equal; [|f_equal; [|f_equal]]; ring. }
  set (bx := h0 - l0 + 1) in *. set (by_ := h1 - l1 + 1) in *. set (bz := h2 - l2 + 1) in *.
  assert (Hcells : fab_cells sfb = (bx + 2 * g) * ((by_ + 2 * g) * ((bz + 2 * g) * 1))) by (unfold fab_cells; rewrite Hshape; reflexivity).
  assert (Hdata : blen (fab_data sfb) = 8 * ((bx + 2 * g) * (by_ + 2 * g) * (bz + 2 * g) * fab_nc sfb)) by (rewrite Hd, Hcells; ring).
  unfold plain_comps. rewrite Hshape.
  exact (proj1 (strip_ghosts_shape (bx + 2 * g) (by_ + 2 * g) (bz + 2 * g) g g g (fab_nc sfb) (fab_data sfb)
                  ltac:(lia) ltac:(lia) ltac:(lia) ltac:(unfold bx; lia) ltac:(unfold by_; lia) ltac:(unfold bz; lia) ltac:(lia) Hdata)).
Qed.

Lemma replace_range_length {A} (start : nat) (new l : list A) :
  (start + length new <= length l)%nat -> length (replace_range start new l) = length l.
Proof.
  intros H. unfold replace_range. rewrite !app_length, firstn_length, skipn_length. lia.
Qed.

(* interior components (as many as the state has, flooring replaces some of them in place) + gradient + rates *)
Lemma full_comps_length g sfb b fl ys gfb rfb :
  1 <= g -> fab_ok sfb = true -> ghosted g sfb b ->
  match fl with Some new => 0 <= ys /\ ys + blen new <= fab_nc sfb | None => True end ->
  match gfb with Some f => fab_ok f = true | None => True end ->
  match rfb with Some f => fab_ok f = true | None => True end ->
  blen (full_comps g sfb fl ys gfb rfb)
  = fab_nc sfb + match gfb with Some f => fab_nc f | None => 0 end + match rfb with Some f => fab_nc f | None => 0 end.
Proof.
  intros Hg Hok Hgh Hfl Hgf Hrf.
  pose proof (plain_comps_length g sfb b Hg Hok Hgh) as Hp.
  assert (Hnc : 1 <= fab_nc sfb) by (destruct Hgh as (? & ? & ? & ? & ? & ? & _ & _ & _ & _ & _ & _ & H); exact H).
  unfold full_comps, blen. rewrite !app_length.
  assert (E1 : length (floored_comps g sfb fl ys) = Z.to_nat (fab_nc sfb)).
  { unfold floored_comps. destruct fl as [new|]; [|exact Hp].
    destruct Hfl as [Hy Hle]. unfold blen in Hle. rewrite replace_range_length; [exact Hp|]. rewrite Hp. lia. }
  assert (E2 : forall ofb : option fab, match ofb with Some f => fab_ok f = true | None => True end ->
               Z.of_nat (length (match ofb with Some f => fab_blocks f | None => [] end)) = match ofb with Some f => fab_nc f | None => 0 end).
  { intros [f|] H; [|reflexivity]. rewrite (proj1 (fab_blocks_shape f H)).
    destruct (fab_ok_inv f H) as (_ & _ & _ & _ & Hn & _). lia. }
  rewrite !Nat2Z.inj_add, E1, (E2 gfb Hgf), (E2 rfb Hrf). lia.
Qed.
