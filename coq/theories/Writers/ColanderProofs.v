(* The binary core of colander: the per-file worker (parallel_strain_2d/3d,
   modelled by [strain_boxes]) on the image of ANY list of well-formed FABs,
   for ANY choice and order of the boxes handed to it, writes exactly the
   image of the kept components of those boxes, in the order handed, and
   returns the byte positions at which it wrote them.  Standard library
   only, no axioms. *)
From AK Require Import Base.Prelude Bytes.Text Bytes.FabHeader Bytes.FabHeaderProofs
  Bytes.BinFile Reader.Select Reader.BoxRead Reader.Level Reader.ReadSpec
  Reader.LayoutProofs Reader.ReadProofs
  Plotfile.TextHeader Taste.Taste Plotfile.Abstract Writers.Colander Writers.ColanderSpec.

(* ------------------------------------------------------------------ *)
(** * str.replace(f"{nvars}\n", f"{nkept}\n") touches only the count *)

Lemma is_prefix_app p r : is_prefix p (p ++ r) = true.
Proof.
  induction p as [|c p IH]; cbn [is_prefix app]; [reflexivity|].
  rewrite IH. destruct (Ascii.eqb_spec c c); [reflexivity|congruence].
Qed.

Lemma is_prefix_true p : forall s, is_prefix p s = true -> exists r, s = p ++ r.
Proof.
  induction p as [|c p IH]; intros s H.
  - exists s. reflexivity.
  - destruct s as [|y s]; cbn [is_prefix] in H; [discriminate|].
    apply andb_true_iff in H. destruct H as [H1 H2].
    apply Ascii.eqb_eq in H1. subst y.
    destruct (IH s H2) as [r ->]. exists r. reflexivity.
Qed.

Lemma replace_skip_all old new : forall s k, (length s <= k)%nat -> replace_aux old new k s = [].
Proof.
  induction s as [|c s IH]; intros k Hk; cbn [replace_aux]; [reflexivity|].
  destruct k as [|k]; [cbn in Hk; lia|]. apply IH. cbn in Hk. lia.
Qed.

(* a line [s1 ++ d ++ "\n"] whose only newline is the last byte: the pattern
   [d ++ "\n"] occurs exactly once, at the end *)
Lemma replace_tail (d new : bytes) : forall s1,
  ~ In nl s1 -> ~ In nl d ->
  py_replace (d ++ [nl]) new (s1 ++ d ++ [nl]) = s1 ++ new.
Proof.
  unfold py_replace.
  induction s1 as [|c s1 IH]; intros H1 Hd.
  - cbn [app]. destruct (d ++ [nl]) as [|x p] eqn:E.
    { destruct d; discriminate. }
    cbn [replace_aux].
    pose proof (is_prefix_app (x :: p) []) as Hp. rewrite app_nil_r in Hp. rewrite Hp.
    rewrite replace_skip_all; [rewrite app_nil_r; reflexivity|]. cbn [length]. lia.
  - cbn [app replace_aux].
    destruct (is_prefix (d ++ [nl]) (c :: s1 ++ d ++ [nl])) eqn:E.
    + exfalso. apply is_prefix_true in E. destruct E as [r E].
      (* the newline of the pattern would sit inside c :: s1 ++ d *)
      assert (Hin : In nl (firstn (length d + 1) (c :: s1 ++ d ++ [nl]))).
      { rewrite E. rewrite <- app_assoc. rewrite firstn_app.
        replace (length d + 1 - length d)%nat with 1%nat by lia.
        rewrite firstn_all2 by lia. apply in_or_app. right. cbn. left. reflexivity. }
      replace (c :: s1 ++ d ++ [nl]) with ((c :: s1 ++ d) ++ [nl]) in Hin
        by (cbn [app]; rewrite <- app_assoc; reflexivity).
      rewrite firstn_app in Hin.
      replace (length d + 1 - length (c :: s1 ++ d))%nat with 0%nat in Hin
        by (cbn [length]; rewrite app_length; lia).
      cbn [firstn] in Hin. rewrite app_nil_r in Hin.
      assert (Hin2 : In nl (c :: s1 ++ d)).
      { revert Hin. generalize (length d + 1)%nat (c :: s1 ++ d). clear.
        intros n l. revert n. induction l as [|y l IHl]; intros [|n] H; cbn in H; try contradiction.
        destruct H as [H|H]; [left; exact H | right; exact (IHl n H)]. }
      destruct Hin2 as [Hc|Hin2]; [apply H1; left; exact Hc|].
      apply in_app_or in Hin2. destruct Hin2 as [Hs|Hdd]; [apply H1; right; exact Hs | exact (Hd Hdd)].
    + f_equal. apply IH; [|exact Hd]. intros Hc. apply H1. right. exact Hc.
Qed.

Definition hdr_prefix (lo hi : list Z) : bytes :=
  hdr_const ++ bs "((" ++ join_ints lo ++ bs ") (" ++ join_ints hi ++ bs ") ("
            ++ join_ints (map (fun _ => 0) hi) ++ bs ")) ".

Lemma print_hdr_prefix lo hi nc : print_hdr lo hi nc = hdr_prefix lo hi ++ str_of_Z nc ++ [nl].
Proof. unfold print_hdr, hdr_prefix. repeat rewrite <- app_assoc. reflexivity. Qed.

Lemma forallb_hch_no_nl s : forallb hch s = true -> ~ In nl s.
Proof.
  intros H Hin. rewrite forallb_forall in H. specialize (H nl Hin).
  unfold hch in H. rewrite Ascii.eqb_refl in H. discriminate.
Qed.

(* the header rewrite of the worker: only the component count changes *)
Theorem replace_count_in_header : forall lo hi nvars nkept,
  py_replace (str_of_Z nvars ++ [nl]) (str_of_Z nkept ++ [nl]) (print_hdr lo hi nvars)
  = print_hdr lo hi nkept.
Proof.
  intros lo hi nvars nkept. rewrite !print_hdr_prefix.
  apply replace_tail; apply forallb_hch_no_nl.
  - unfold hdr_prefix. repeat rewrite forallb_app. rewrite !join_hch. reflexivity.
  - apply str_hch.
Qed.

(* ------------------------------------------------------------------ *)
(** * the worker on an encoded file *)

Definition box_of (fs : list fab) (k : nat) : list Z * list Z * Z :=
  let fb := nth k fs dummy_fab in (fab_lo fb, fab_hi fb, fab_offset fs k).

Lemma fab_offset_nonneg fs k : 0 <= fab_offset fs k.
Proof.
  unfold fab_offset. rewrite <- blen_encode_file. apply blen_nonneg.
Qed.

Lemma comps_norm_id n kept : Forall (fun i => 0 <= i < n) kept -> comps_norm n kept = Some kept.
Proof.
  intros H. unfold comps_norm. rewrite (omap_all_map _ (fun i => i)).
  - rewrite map_id. reflexivity.
  - intros i Hi. rewrite Forall_forall in H. specialize (H i Hi).
    unfold norm_index. destruct ((0 <=? i) && (i <? n)) eqn:E; [reflexivity|lia].
Qed.

Lemma fab_offset_0 x l : fab_offset (x :: l) 0 = 0.
Proof. reflexivity. Qed.

Lemma fab_offset_S x l j : fab_offset (x :: l) (S j) = fab_size x + fab_offset l j.
Proof. unfold fab_offset. cbn [firstn map]. unfold zsum. cbn [fold_right]. reflexivity. Qed.

Theorem strain_boxes_spec : forall (fs : list fab) (nvars : Z) (kept : list Z) (sel : list nat) (out0 : bytes),
  Forall (fun fb => fab_ok fb = true /\ fab_nc fb = nvars) fs ->
  Forall (fun i => 0 <= i < nvars) kept ->
  Forall (fun k => (k < length fs)%nat) sel ->
  let picked := map (fun k => nth k fs dummy_fab) sel in
  strain_boxes (encode_file fs) nvars kept (map (box_of fs) sel) out0
  = Some (out0 ++ encode_file (map (keep_fab kept) picked),
          map (fun j => blen out0 + fab_offset (map (keep_fab kept) picked) j) (seq 0 (length sel))).
Proof.
  intros fs nvars kept sel out0 Hfs Hkept Hsel. cbv zeta. revert out0.
  induction sel as [|k sel IH]; intros out0.
  - cbn [map strain_boxes seq length]. rewrite encode_file_nil, app_nil_r. reflexivity.
  - inversion Hsel as [|? ? Hk Hsel']; subst.
    specialize (IH Hsel').
    set (fb := nth k fs dummy_fab).
    assert (Hfb : fab_ok fb = true /\ fab_nc fb = nvars).
    { rewrite Forall_forall in Hfs. apply Hfs. apply nth_In. exact Hk. }
    destruct Hfb as [Hok Hnc].
    destruct (fab_ok_inv fb Hok) as (Hlo & Hhi & Hlen & Hshape & Hncpos & Hdata).
    pose proof (fab_cells_pos fb Hok) as Hcells.
    destruct (encode_file_split fs k Hk) as [Hsplit Hoff].
    fold fb in Hsplit.
    cbn [map]. unfold box_of at 1. fold fb. cbv zeta. cbn [strain_boxes].
    pose proof (fab_offset_nonneg fs k) as Hnn.
    destruct (0 <=? fab_offset fs k) eqn:E0; [|lia]. cbn [obind].
    (* the header line *)
    assert (Hline : readline (encode_file fs) (fab_offset fs k) = fab_hdr fb).
    { unfold readline, rest. rewrite Hsplit at 1. rewrite <- Hoff.
      rewrite zskipn_app_exact. unfold encode_fab. rewrite <- app_assoc.
      unfold fab_hdr. apply take_line_print_hdr. }
    rewrite Hline.
    assert (Hasc : is_ascii (fab_hdr fb) = true) by apply print_hdr_is_ascii.
    assert (Hrep : py_replace (str_of_Z nvars ++ [nl]) (str_of_Z (blen kept) ++ [nl]) (fab_hdr fb)
                   = print_hdr (fab_lo fb) (fab_hi fb) (blen kept)).
    { unfold fab_hdr. rewrite Hnc. apply replace_count_in_header. }
    rewrite Hasc, Hrep.
    (* the shape *)
    assert (Hshp : np_binop (fun h l => h - l + 1) (fab_hi fb) (fab_lo fb) = Some (fab_shape fb)).
    { unfold np_binop. rewrite <- Hlen, Nat.eqb_refl. reflexivity. }
    rewrite Hshp. cbn [obind].
    (* the payload *)
    assert (Hdata' : fromfile (encode_file fs) (fab_offset fs k + blen (fab_hdr fb))
                              (zprod (fab_shape fb ++ [nvars])) = fab_data fb).
    { rewrite Hsplit. rewrite <- Hoff. unfold encode_fab. rewrite <- app_assoc.
      pose proof (fromfile_at (encode_file (firstn k fs)) (fab_hdr fb) (fab_data fb)
                              (encode_file (skipn (S k) fs)) 0 (zprod (fab_shape fb ++ [nvars]))) as F.
      rewrite zprod_app1 in *. change (zprod (fab_shape fb)) with (fab_cells fb) in *.
      rewrite Z.mul_0_l, Z.add_0_r in F.
      rewrite F; [| lia | nia | rewrite Hdata, Hnc; lia ].
      unfold sub. change (8 * 0) with 0. unfold zskipn. cbn [Z.to_nat skipn].
      unfold zfirstn. rewrite firstn_all2; [reflexivity|].
      assert (blen (fab_data fb) = 8 * (fab_cells fb * nvars)) by (rewrite Hdata, Hnc; ring).
      unfold blen in *. lia. }
    rewrite Hdata'.
    assert (Hresh : reshape_ok (fab_data fb) (fab_shape fb ++ [nvars]) = true).
    { apply reshape_ok_true.
      - apply forallb_app1; [|apply Z.leb_le; lia].
        apply (forallb_imp (fun d => 1 <=? d)); [|exact Hshape]. intros d Hd. lia.
      - rewrite zprod_app1. change (zprod (fab_shape fb)) with (fab_cells fb).
        rewrite Hdata, Hnc. ring. }
    rewrite Hresh. cbn [obind].
    rewrite (comps_norm_id nvars kept Hkept). cbn [obind].
    (* what was appended is the image of the strained box *)
    assert (Happ : print_hdr (fab_lo fb) (fab_hi fb) (blen kept)
                   ++ take_comps (8 * zprod (fab_shape fb)) kept (fab_data fb)
                   = encode_fab (keep_fab kept fb)).
    { reflexivity. }
    rewrite Happ.
    rewrite (IH (out0 ++ encode_fab (keep_fab kept fb))). cbn [obind fst snd].
    f_equal. f_equal.
    + rewrite encode_file_cons, <- app_assoc. reflexivity.
    + cbn [length seq map]. rewrite fab_offset_0, Z.add_0_r. f_equal.
      rewrite <- seq_shift. rewrite (map_map S). apply map_ext. intros j.
      rewrite fab_offset_S, blen_app. unfold fab_size. lia.
Qed.

(* ------------------------------------------------------------------ *)
(** * contents of a strained box *)

Lemma blen_fab_comp_local fb i :
  fab_ok fb = true -> 0 <= i < fab_nc fb -> blen (fab_comp fb i) = 8 * fab_cells fb.
Proof.
  intros Hok Hi. pose proof (fab_cells_pos fb Hok) as Hc.
  destruct (fab_ok_inv fb Hok) as (_ & _ & _ & _ & Hnc & Hlen).
  unfold fab_comp. apply blen_sub; nia.
Qed.

Lemma fab_cells_keep kept fb : fab_cells (keep_fab kept fb) = fab_cells fb.
Proof. reflexivity. Qed.

Lemma sub_concat_nth (c : Z) : forall (l : list bytes) (j : nat),
  0 <= c -> Forall (fun x => blen x = c) l -> (j < length l)%nat ->
  sub (c * Z.of_nat j) c (concat l) = nth j l [].
Proof.
  induction l as [|x l IH]; intros j Hc Hl Hj; [cbn in Hj; lia|].
  inversion Hl as [|? ? Hx Hl']; subst.
  destruct j as [|j].
  - cbn [nth concat]. unfold sub. rewrite Z.mul_0_r. unfold zskipn. cbn [Z.to_nat skipn].
    rewrite zfirstn_app_le by lia. unfold zfirstn. apply firstn_all2. unfold blen. lia.
  - cbn [nth concat]. unfold sub.
    replace (blen x * Z.of_nat (S j)) with (blen x + blen x * Z.of_nat j) by lia.
    assert (0 <= blen x * Z.of_nat j) by (apply Z.mul_nonneg_nonneg; lia).
    rewrite zskipn_app_ge by lia.
    replace (blen x + blen x * Z.of_nat j - blen x) with (blen x * Z.of_nat j) by lia.
    apply (IH j); [lia | exact Hl' | cbn in Hj; lia].
Qed.

(* component j of the strained box is, bit for bit, component kept[j] of the
   input box *)
Theorem keep_fab_comp : forall kept fb j,
  fab_ok fb = true -> Forall (fun i => 0 <= i < fab_nc fb) kept -> (j < length kept)%nat ->
  fab_comp (keep_fab kept fb) (Z.of_nat j) = fab_comp fb (nth j kept 0).
Proof.
  intros kept fb j Hok Hk Hj.
  pose proof (fab_cells_pos fb Hok) as Hc.
  unfold fab_comp at 1. rewrite fab_cells_keep. cbn [keep_fab fab_data].
  rewrite (sub_concat_nth (8 * fab_cells fb)).
  - rewrite (nth_indep _ [] (fab_comp fb 0)) by (rewrite map_length; exact Hj).
    apply map_nth.
  - lia.
  - apply Forall_map. revert Hk. apply Forall_impl. intros i Hi.
    apply blen_fab_comp_local; assumption.
  - rewrite map_length. exact Hj.
Qed.
