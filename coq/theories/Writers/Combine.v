(* amr_kitchen/combine/combine.py (with the repairs recorded in
   KNOWN_FINDINGS.txt) as a function from the two input directory images to
   the output directory image.  The field selections arrive resolved (names
   taken from each side); their string/list parsing is Python-specific and
   is covered by the correspondence at property level. *)
From AK Require Import Base.Prelude Bytes.Text Bytes.FabHeader Bytes.BinFile
  Reader.Select Reader.BoxRead Reader.Level Plotfile.TextHeader Taste.Taste Writers.Colander.

(* ---- one pair of boxes: what every worker writes for it ----
   h1 = bf1.readline(); shape1 = shape_from_header(h1); idx1 = indices_from_header(h1)
   (same for 2); hw = header_from_indices(idx1[0], idx1[1], n1 + n2)
   data_k = fromfile(prod(shape_k)).reshape(shape_k, 'F')[..., vidxs_k] *)
Definition merge_pair (f1 : bytes) (pos1 : Z) (f2 : bytes) (pos2 : Z) (v1 v2 : list Z)
  : option (bytes * Z * Z) :=          (* chunk written, position after box 1, after box 2 *)
  guard (0 <=? pos1); guard (0 <=? pos2);
  do (h1, shp1, p1) <- read_header f1 pos1;
  do (h2, shp2, p2) <- read_header f2 pos2;
  let tot1 := shp1 ++ [h_nc h1] in
  let tot2 := shp2 ++ [h_nc h2] in
  let d1 := fromfile f1 p1 (zprod tot1) in
  guard reshape_ok d1 tot1;
  do c1 <- comps_norm (h_nc h1) v1;
  let d2 := fromfile f2 p2 (zprod tot2) in
  guard reshape_ok d2 tot2;
  do c2 <- comps_norm (h_nc h2) v2;
  Some (print_hdr (h_lo h1) (h_hi h1) (blen v1 + blen v2)
          ++ take_comps (8 * zprod shp1) c1 d1 ++ take_comps (8 * zprod shp2) c2 d2,
        p1 + blen d1, p2 + blen d2).

(* ---- parallel_combine_by_binfile: both files front to back, in lock step;
   the scan ends when a header of either file fails to parse ---- *)
Fixpoint combine_scan (fuel : nat) (f1 f2 : bytes) (pos1 pos2 : Z) (v1 v2 : list Z) (out : bytes)
  : option (bytes * list Z) :=
  match fuel with
  | O => Some (out, [])
  | S fuel' =>
      match read_header f1 pos1, read_header f2 pos2 with
      | Some _, Some _ =>
          do r <- merge_pair f1 pos1 f2 pos2 v1 v2;
          let '(chunk, n1, n2) := r in
          do rest <- combine_scan fuel' f1 f2 n1 n2 v1 v2 (out ++ chunk);
          Some (fst rest, blen out :: snd rest)
      | _, _ => Some (out, [])
      end
  end.

(* ---- parallel_combine_by_binfile_offsets / _by_boxes_offsets: box by box
   at the recorded offsets (in the order handed) ---- *)
Fixpoint combine_at (f1 : bytes) (jobs : list (Z * bytes * Z)) (v1 v2 : list Z) (out : bytes)
  : option (bytes * list Z) :=
  match jobs with
  | [] => Some (out, [])
  | (off1, f2, off2) :: rest =>
      do r <- merge_pair f1 off1 f2 off2 v1 v2;
      let '(chunk, _, _) := r in
      do r2 <- combine_at f1 rest v1 v2 (out ++ chunk);
      Some (fst r2, blen out :: snd r2)
  end.

(* ---- mode choice (validate_combine_input) ---- *)
Inductive cmode := ByFile | ByOffset | ByBox.

Fixpoint increasing (l : list Z) : bool :=
  match l with
  | a :: (b :: _) as l' => (a <? b) && increasing l'
  | _ => true
  end.

Fixpoint list_bytes_eqb (a b : list bytes) : bool :=
  match a, b with
  | [], [] => true
  | x :: a', y :: b' => bytes_eqb x y && list_bytes_eqb a' b'
  | _, _ => false
  end.

Definition offsets_in (c : cellh) (name : bytes) : list Z :=
  map (fun fo => snd fo) (filter (fun fo => bytes_eqb (fst fo) name) (combine (c_files c) (c_offsets c))).

Fixpoint choose_mode (cs : list (cellh * cellh)) (m : cmode) : cmode :=
  match cs with
  | [] => m
  | (c1, c2) :: rest =>
      if negb (list_bytes_eqb (c_files c1) (c_files c2)) then ByBox
      else
        let ok := forallb (fun name => increasing (offsets_in c1 name) && increasing (offsets_in c2 name))
                          (np_unique (c_files c1)) in
        choose_mode rest (if ok then m else ByOffset)
  end.

(* ---- one level ---- *)
Definition nth_bytes (l : list bytes) (i : nat) : bytes := nth i l [].

Definition combine_level (mode : cmode) (files1 files2 : list (bytes * bytes)) (c1 c2 : cellh)
           (v1 v2 : list Z) : option (list (bytes * bytes) * list Z) :=
  let all := zip_boxes (c_indexes c1) (c_files c1) (c_offsets c1) in
  let names := np_unique (c_files c1) in
  do results <- omap_all (fun name =>
      do f1 <- lookup name files1;
      let bx := boxes_of_file name all 0 in          (* box indices of the file, ascending *)
      let ids := map fst bx in
      do r <- match mode with
              | ByFile =>
                  match ids with
                  | [] => None
                  | i0 :: _ =>
                      do f2 <- lookup (nth_bytes (c_files c2) i0) files2;
                      combine_scan (S (length f1)) f1 f2 0 0 v1 v2 []
                  end
              | ByOffset =>
                  match ids with
                  | [] => None
                  | i0 :: _ =>
                      do f2 <- lookup (nth_bytes (c_files c2) i0) files2;
                      combine_at f1 (map (fun i => (nth i (c_offsets c1) 0, f2, nth i (c_offsets c2) 0)) ids) v1 v2 []
                  end
              | ByBox =>
                  do jobs <- omap_all (fun i => do f2 <- lookup (nth_bytes (c_files c2) i) files2;
                                                Some (nth i (c_offsets c1) 0, f2, nth i (c_offsets c2) 0)) ids;
                  combine_at f1 jobs v1 v2 []
              end;
      (* mapped_offsets[file_idxs] = offsets needs matching lengths *)
      guard (length (snd r) =? length ids)%nat;
      Some (name, fst r, ids, snd r)) names;
  let newfiles := map (fun r => (fst (fst (fst r)), snd (fst (fst r)))) results in
  let offs := fold_left (fun acc r => scatter (snd (fst r)) (snd r) acc) results
                        (map (fun _ => 0) (c_indexes c1)) in
  Some (newfiles, offs).

(* ---- rewrite_level_header: the two level headers read in lock step ---- *)
Definition minmax_block2 (v1 v2 : list Z) (nfields : Z) (t1 t2 : text) : option (text * text * text) :=
  match t1, t2 with
  | blank :: l :: r1, _ :: _ :: r2 =>
      match split_on ","%char (join_line l) with
      | [ncells; _] =>
          do n <- py_int ncells;
          let fix rows (k : nat) (a b : text) : option (text * text * text) :=
              match k with
              | O => Some ([], a, b)
              | S k' =>
                  let la := match a with x :: _ => x | [] => [] end in
                  let lb := match b with x :: _ => x | [] => [] end in
                  do ra <- project_row v1 (drop_last (split_on ","%char (join_line la)));
                  do rb <- project_row v2 (drop_last (split_on ","%char (join_line lb)));
                  do rest <- rows k' (tl a) (tl b);
                  let '(out, a', b') := rest in
                  Some ([row_token_w (ra ++ rb)] :: out, a', b')
              end in
          do r <- rows (Z.to_nat n) r1 r2;
          let '(out, a', b') := r in
          Some ([blank; [ncells ++ bs "," ++ str_of_Z nfields]] ++ out, a', b')
      | _ => None
      end
  | _, _ => None
  end.

Definition rewrite_level_header (t1 t2 : text) (nfields : Z) (offs : list Z) (v1 v2 : list Z) : option text :=
  match t1, t2 with
  | l0 :: l1 :: _ :: t13, _ :: _ :: _ :: t23 =>
      match offs with
      | [] => None
      | o0 :: offs' =>
          do r <- copy_until_fod (S (length t13)) t13 [];
          let '(mesh, fl, rest1) := r in
          (* the second header is read in lock step: one line per line of the first *)
          let rest2 := skipn (S (length mesh)) t23 in
          do r2 <- rewrite_fods offs' rest1;
          let rest2' := skipn (length offs') rest2 in
          do mm <- minmax_block2 v1 v2 nfields (snd r2) rest2';
          let '(mins, a, b) := mm in
          do mm2 <- minmax_block2 v1 v2 nfields a b;
          let '(maxs, _, _) := mm2 in
          Some ([l0; l1; [str_of_Z nfields]] ++ mesh ++ [set_last_token fl (str_of_Z o0)] ++ fst r2 ++ mins ++ maxs)
      end
  | _, _ => None
  end.

(* ---- write_global_header_new_fields ---- *)
Definition combined_header (op : opened) (names : list bytes) : text :=
  let g := o_g op in
  let lim := o_limit op in
  let n := Z.to_nat (lim + 1) in
  let g' := {| g_version := g_version g; g_names := names; g_ndims := g_ndims g;
               g_time := g_time g; g_max_level := lim;
               g_geo_low := g_geo_low g; g_geo_high := g_geo_high g;
               g_factors := firstn n (g_factors g);
               g_grid_hi := firstn n (g_grid_hi g);
               g_steps := firstn n (g_steps g);
               g_dx := firstn n (g_dx g);
               g_sys_coord := g_sys_coord g |} in
  let lvs := map (fun kl =>
                    {| lb_ncells := blen (lb_boxes (snd kl));
                       lb_step_line := [str_of_Z (nth (fst kl) (g_steps g) 0)];
                       lb_boxes := lb_boxes (snd kl);
                       lb_cell_dir := level_name (Z.of_nat (fst kl));
                       lb_time_tok := g_time g |})
                 (combine (seq 0 (length (o_levels op))) (o_levels op)) in
  print_header g' lvs.

(* ---- PlotfileCooker.__eq__ on the index structure ---- *)
Fixpoint list_Z_eqb (a b : list Z) : bool :=
  match a, b with
  | [], [] => true
  | x :: a', y :: b' => (x =? y) && list_Z_eqb a' b'
  | _, _ => false
  end.

Fixpoint same_indexes (a b : list (list Z * list Z)) : bool :=
  match a, b with
  | [], [] => true
  | (l1, h1) :: a', (l2, h2) :: b' => list_Z_eqb l1 l2 && list_Z_eqb h1 h2 && same_indexes a' b'
  | _, _ => false
  end.

(* ---- combine(pck1, pck2, pltout, vars1, vars2) ---- *)
Definition combine_tool (names1 names2 : list bytes) (d1 d2 : pdisk) : option pdisk :=
  do ht1 <- pd_header d1; do op1 <- open_header ht1 None; do lv1 <- open_levels d1 op1 false;
  do ht2 <- pd_header d2; do op2 <- open_header ht2 None; do lv2 <- open_levels d2 op2 false;
  guard ((3 <=? g_ndims (o_g op1)) && (3 <=? g_ndims (o_g op2)));
  (* args[0] != args[1]: level count, then the boxes of every level *)
  guard (o_limit op1 =? o_limit op2);
  guard forallb (fun cc => same_indexes (c_indexes (snd (fst cc))) (c_indexes (snd (snd cc)))) (combine lv1 lv2);
  guard negb (length names1 =? 0)%nat; guard negb (length names2 =? 0)%nat;
  do v1 <- omap_all (field_index (o_keys op1)) names1;
  do v2 <- omap_all (field_index (o_keys op2)) names2;
  let nfields := blen names1 + blen names2 in
  let mode := choose_mode (combine (map snd lv1) (map snd lv2)) ByFile in
  do dirs <- omap_all (fun x =>
                 let '(lb, (ld1, c1), (ld2, c2)) := x in
                 do r <- combine_level mode (ld_files ld1) (ld_files ld2) c1 c2 v1 v2;
                 do t1 <- ld_cellh ld1; do t2 <- ld_cellh ld2;
                 do t' <- rewrite_level_header t1 t2 nfields (snd r) v1 v2;
                 Some (lb_cell_dir lb, {| ld_cellh := Some t'; ld_files := fst r |}))
              (combine (combine (o_levels op1) lv1) lv2);
  Some {| pd_header := Some (combined_header op1 (names1 ++ names2)); pd_dirs := dirs |}.
