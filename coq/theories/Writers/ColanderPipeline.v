(* colander outputs are well-formed plotfiles again: the strained plotfile of a
   good plotfile is good, hence (a) accepted by the validator and (b) a valid
   input of the next run - for every finite sequence of colander runs.
   Standard library only, no axioms. *)
From AK Require Import Base.Prelude Bytes.Text Bytes.FabHeader Bytes.FabHeaderProofs
  Bytes.BinFile Reader.Select Reader.BoxRead Reader.Level Reader.ReadSpec
  Reader.LayoutProofs Reader.ReadProofs Reader.IterProofs
  Plotfile.TextHeader Plotfile.HeaderSpec Plotfile.HeaderProofs
  Taste.Taste Taste.TasteSpec Plotfile.Abstract Taste.CompleteProofs Taste.DataProofs
  Writers.Colander Writers.ColanderSpec Writers.ColanderSpecProofs Writers.ColanderProofs
  Writers.ColanderLevelProofs Writers.ColanderHeaderProofs Writers.ColanderToolProofs Writers.Pipeline.

Definition good (pf : plotfile) : Prop := wf_plotfile pf /\ std_dirs pf /\ wf_counts pf /\ wf_rows pf.

(* ------------------------------------------------------------------ *)
(** * small facts *)
Lemma level_name_no_slash k : no_char "/"%char (level_name k).
Proof.
  unfold level_name, no_char. apply Forall_app. split.
  - repeat constructor; discriminate.
  - pose proof (str_numch k) as H. rewrite forallb_forall in H. apply Forall_forall. intros c Hc Hs. subst c.
    specialize (H _ Hc). vm_compute in H. discriminate.
Qed.

Lemma level_name_inj j k : level_name j = level_name k -> j = k.
Proof. unfold level_name. intros H. apply app_inv_head in H. apply str_of_Z_inj. exact H. Qed.

Lemma blen_firstn {A} (l : list A) m : 0 <= m <= blen l -> blen (firstn (Z.to_nat m) l) = m.
Proof. intros H. unfold blen in *. rewrite firstn_length. lia. Qed.

Lemma combine_seq_length {A} (l : list A) s : length (combine (seq s (length l)) l) = length l.
Proof. rewrite combine_length, seq_length. lia. Qed.

Lemma nth_error_combine_seq' {A} : forall (l : list A) s k x,
  nth_error (combine (seq s (length l)) l) k = Some x -> fst x = (s + k)%nat /\ nth_error l k = Some (snd x).
Proof.
  induction l as [|a l IH]; intros s k x H; [destruct k; discriminate|].
  cbn [length seq combine] in H. destruct k as [|k]; cbn [nth_error] in *.
  - injection H as <-. cbn [fst snd]. split; [lia | reflexivity].
  - destruct (IH (S s) k x H) as [H1 H2]. split; [lia | exact H2].
Qed.

Lemma project_in kept (row : list token) t :
  Forall (fun i => 0 <= i < blen row) kept -> In t (project kept row) -> In t row.
Proof.
  intros Hk Ht. unfold project in Ht. apply in_map_iff in Ht. destruct Ht as (i & <- & Hi).
  rewrite Forall_forall in Hk. specialize (Hk i Hi). apply nth_In. unfold blen in Hk. lia.
Qed.

(* ------------------------------------------------------------------ *)
(** * the strained plotfile is good *)
Section Good.
Variables (pf : plotfile) (vars : list bytes) (lim : Z).
Hypothesis Hgood : good pf.
Hypothesis Hlim : 0 <= lim <= g_max_level (pf_g pf).

Let keys := field_keys (g_names (pf_g pf)) [].
Let kept := fst (resolve_vars keys vars).
Let names := snd (resolve_vars keys vars).
Let L := firstn (Z.to_nat (lim + 1)) (pf_levels pf).

Lemma spec_eq : colander_spec vars lim pf =
  {| pf_g := strained_gheader (pf_g pf) lim names;
     pf_levels := map (fun kl => strained_level (pf_g pf) kept (fst kl) (snd kl)) (combine (seq 0 (length L)) L) |}.
Proof.
  unfold colander_spec, kept, names, keys, L. destruct (resolve_vars (field_keys (g_names (pf_g pf)) []) vars). reflexivity.
Qed.

Lemma kept_range : Forall (fun i => 0 <= i < pf_nfields pf) kept /\ length kept = length names.
Proof.
  unfold kept, names. destruct (resolve_vars keys vars) as [k n] eqn:E.
  destruct (resolve_vars_range _ _ _ _ E) as [H1 H2]. cbn [fst snd]. split; [|exact H1].
  unfold pf_nfields. unfold keys, blen in H2. rewrite field_keys_length in H2. exact H2.
Qed.

Lemma L_length : blen L = lim + 1.
Proof.
  destruct Hgood as ((_ & Hlen & _) & _). unfold L. apply blen_firstn. lia.
Qed.

Lemma L_in pl : In pl L -> In pl (pf_levels pf).
Proof. apply In_firstn. Qed.

Theorem spec_wf : wf_plotfile (colander_spec vars lim pf).
Proof.
  rewrite spec_eq. destruct Hgood as ((Hg & Hlen & Hnd & Hlv) & Hstd & (Hc1 & Hc2 & Hc3) & Hrows).
  destruct kept_range as [Hk Hkl].
  destruct Hg as (G1 & G2 & G3 & G4 & G5 & G6 & G7 & G8).
  unfold wf_plotfile. cbn [pf_g pf_levels]. split; [|split; [|split]].
  - unfold wf_gheader, strained_gheader. cbn [g_ndims g_max_level g_time g_geo_low g_geo_high g_grid_hi g_dx].
    repeat split; try assumption; try lia.
    + apply Forall_firstn'. exact G6.
    + apply blen_firstn. lia.
    + apply Forall_firstn'. exact G8.
  - cbn [strained_gheader g_max_level]. unfold blen. rewrite map_length, combine_seq_length.
    exact L_length.
  - rewrite map_map. cbn [strained_level pl_boxes lb_cell_dir].
    assert (G : forall (l : list plevel) s,
               NoDup (map (fun x : nat * plevel => level_name (Z.of_nat (fst x))) (combine (seq s (length l)) l))).
    { induction l as [|a l IH]; intros s; [constructor|]. cbn [length seq combine map fst]. constructor; [|apply IH].
      intros Hin. apply in_map_iff in Hin. destruct Hin as ([k p] & E & Hkp). cbn [fst] in E.
      apply level_name_inj in E. apply in_combine_l in Hkp. apply in_seq in Hkp. lia. }
    apply G.
  - apply Forall_forall. intros pl' Hpl'. apply in_map_iff in Hpl'. destruct Hpl' as ([k pl] & <- & Hkpl).
    cbn [fst snd]. apply in_combine_r in Hkpl. apply L_in in Hkpl.
    rewrite Forall_forall in Hlv. destruct (Hlv pl Hkpl) as (Hb & Hwl & Hne & Hncells & Hnc & Hmn & Hmx & Hmnf & Hmxf).
    unfold wf_rows in Hrows. rewrite Forall_forall in Hrows. destruct (Hrows pl Hkpl) as [Hr1 Hr2].
    destruct Hb as (B1 & B2 & B3).
    unfold wf_plevel, strained_level. cbn [pl_boxes pl_level pl_mins pl_maxs lv_fabs strained_gheader g_ndims g_names].
    unfold pf_nfields at 1. cbn [pf_g strained_gheader g_names].
    split; [|split; [|split; [|split; [|split; [|split; [|split; [|split]]]]]]].
    + unfold wf_lvboxes. cbn [lb_ncells lb_boxes lb_cell_dir]. split; [reflexivity|]. split; [exact B2 | apply level_name_no_slash].
    + exact (wf_strained (pl_level pl) Hwl kept (pf_nfields pf) Hnc Hk).
    + destruct (lv_fabs (pl_level pl)); [congruence | discriminate].
    + cbn [lb_ncells]. rewrite blen_map. rewrite <- B1. exact Hncells.
    + apply Forall_map. apply Forall_forall. intros fb _. cbn [keep_fab fab_nc]. unfold blen. rewrite Hkl. reflexivity.
    + rewrite !map_length. exact Hmn.
    + rewrite !map_length. exact Hmx.
    + apply Forall_map. rewrite Forall_forall in Hmnf, Hr1. apply Forall_forall. intros r Hr.
      apply Forall_forall. intros t Ht.
      assert (Hin : In t r).
      { apply (project_in kept r t); [|exact Ht]. eapply Forall_impl; [|exact Hk]. cbv beta. intros i Hi.
        exact (eq_rect _ (fun z => 0 <= i < z) Hi _ (eq_sym (Hr1 r Hr))). }
      specialize (Hmnf r Hr). rewrite Forall_forall in Hmnf. apply Hmnf. exact Hin.
    + apply Forall_map. rewrite Forall_forall in Hmxf, Hr2. apply Forall_forall. intros r Hr.
      apply Forall_forall. intros t Ht.
      assert (Hin : In t r).
      { apply (project_in kept r t); [|exact Ht]. eapply Forall_impl; [|exact Hk]. cbv beta. intros i Hi.
        exact (eq_rect _ (fun z => 0 <= i < z) Hi _ (eq_sym (Hr2 r Hr))). }
      specialize (Hmxf r Hr). rewrite Forall_forall in Hmxf. apply Hmxf. exact Hin.
Qed.

Theorem spec_good : good (colander_spec vars lim pf).
Proof.
  split; [exact spec_wf|]. rewrite spec_eq.
  destruct Hgood as ((Hg & Hlen & Hnd & Hlv) & Hstd & (Hc1 & Hc2 & Hc3) & Hrows).
  destruct kept_range as [Hk Hkl].
  split; [|split].
  - (* std_dirs *)
    unfold std_dirs. cbn [pf_levels]. intros k pl' Hk'.
    rewrite nth_error_map in Hk'.
    destruct (nth_error (combine (seq 0 (length L)) L) k) as [[j pl]|] eqn:E; [|discriminate].
    injection Hk' as <-. destruct (nth_error_combine_seq' L 0%nat k (j, pl) E) as [Hj _]. cbn [fst snd] in *.
    subst j. reflexivity.
  - (* wf_counts *)
    unfold wf_counts. cbn [pf_g strained_gheader g_grid_hi g_max_level g_steps g_ndims].
    split; [|split; [|exact Hc3]].
    + apply blen_firstn. lia.
    + rewrite blen_firstn by lia. lia.
  - (* wf_rows *)
    unfold wf_rows. cbn [pf_levels]. apply Forall_forall. intros pl' Hpl'.
    apply in_map_iff in Hpl'. destruct Hpl' as ([k pl] & <- & _). cbn [fst snd strained_level pl_mins pl_maxs].
    unfold pf_nfields. cbn [pf_g strained_gheader g_names].
    split; apply Forall_map; apply Forall_forall; intros r _; unfold project, blen; rewrite map_length, Hkl; reflexivity.
Qed.
End Good.

(* ------------------------------------------------------------------ *)
(** * sequences of colander runs *)
Definition tool_step (o : col_op) (d : pdisk) : option pdisk := colander (fst o) (snd o) d.

Lemma step_refines o pf pf' : good pf -> spec_step o pf = Some pf' ->
  tool_step o (pf_disk pf) = Some (pf_disk pf') /\ good pf'.
Proof.
  intros Hg H. unfold spec_step in H.
  destruct (eff_limit (g_max_level (pf_g pf)) (snd o)) as [lim|] eqn:E; [|discriminate].
  destruct ((0 <=? lim) && negb (length (fst (resolve_vars (field_keys (g_names (pf_g pf)) []) (fst o))) =? 0)%nat) eqn:E2;
    [|discriminate].
  injection H as <-. apply andb_true_iff in E2. destruct E2 as [E2 E3].
  apply Z.leb_le in E2. apply negb_true_iff, Nat.eqb_neq in E3.
  pose proof (eff_limit_spec _ _ _ E) as Hl.
  assert (Hlim : 0 <= lim <= g_max_level (pf_g pf)) by (destruct Hl as [[_ ->]|[_ Hl]]; destruct Hg as ((Hw & _) & _); destruct Hw as (_ & ? & _); lia).
  split.
  - destruct Hg as (Hwf & Hstd & Hcnt & Hrows). unfold tool_step.
    apply colander_refines; try assumption.
    intros Hnil. apply E3. rewrite Hnil. reflexivity.
  - apply spec_good; assumption.
Qed.

(* Every finite sequence of colander runs whose pure counterpart is defined:
   the tool chain succeeds, ends on the directory image of the composed pure
   operations, and every intermediate directory is the image of a good
   plotfile. *)
Theorem colander_pipeline : forall ops pf pf',
  good pf -> spec_run ops pf = Some pf' ->
  run pdisk col_op tool_step ops (pf_disk pf) = Some (pf_disk pf') /\ good pf' /\
  Forall (fun d => exists p, good p /\ d = pf_disk p) (states pdisk col_op tool_step ops (pf_disk pf)).
Proof.
  induction ops as [|o ops IH]; intros pf pf' Hg H; cbn [spec_run run states] in *.
  - injection H as <-. split; [reflexivity|]. split; [exact Hg|].
    constructor; [exists pf; split; [exact Hg | reflexivity] | constructor].
  - destruct (spec_step o pf) as [pf1|] eqn:E; [|discriminate].
    destruct (step_refines o pf pf1 Hg E) as [Ht Hg1]. rewrite Ht.
    destruct (IH pf1 pf' Hg1 H) as (H1 & H2 & H3).
    split; [exact H1|]. split; [exact H2|]. constructor; [exists pf; split; [exact Hg | reflexivity] | exact H3].
Qed.

(* ... and every one of these directories is accepted by the validator (the
   option sets that do not reach the binary-data check; any admissible limit) *)
Corollary colander_outputs_taste_good : forall close ops pf pf' o limit lim,
  good pf -> spec_run ops pf = Some pf' ->
  eff_limit (g_max_level (pf_g pf')) limit = Some lim -> 0 <= lim ->
  (t_data o && negb (t_headers o && t_shape o)) = false ->
  taste_good close o limit (pf_disk pf') = true.
Proof.
  intros close ops pf pf' o limit lim Hg H Heff Hlim Ho.
  destruct (colander_pipeline ops pf pf' Hg H) as (_ & ((Hwf & _) & _)).
  apply (taste_complete_nodata close pf' o limit lim Hwf Heff Hlim Ho).
Qed.

Print Assumptions colander_pipeline.
Print Assumptions colander_outputs_taste_good.
