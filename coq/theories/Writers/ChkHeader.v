(* amr_kitchen/chk2plt/checkpoint_reader.py: CheckpointReader.__init__ (the
   checkpoint Header) and amr_kitchen/chk2plt/chk2plt.py: field list of the
   output and write_global_header (the plotfile Header chk2plt writes).

   Lines are token lists as everywhere in TextHeader.v (a line that starts
   with blanks is not distinguished from one that does not: the
   `line.startswith('(')` of the reader is the first token starting with '(').

   Floating point enters through parameters:
   - [whole t] : float(t) % 1 == 0   (the reader's test for the optional
     coordinate-system line; the PINNED reader also used it on the time line)
   - [to_int t] : int(float(t))
   - [frepr t] : f'{float(t)}' (Python's shortest repr of the parsed number)
   - the cell sizes domain / grid size and the physical box bounds, as tables
     of printed tokens. *)
From AK Require Import Base.Prelude Bytes.Text Bytes.FabHeader Reader.Select Plotfile.TextHeader.

Record chk_tail := {
  ct_pressure : token;
  ct_sys : option Z;            (* the coordinate-system line, when it is there (then followed by a 0 line) *)
  ct_typvals : list token       (* typical values, one per line, to the end of the file *)
}.

Record chk_header := {
  ch_version : line;
  ch_max_level : Z;
  ch_step : Z;
  ch_int : option line;         (* "sometimes there is an int there" *)
  ch_time : token;
  ch_dt1 : token;
  ch_dt2 : token;
  ch_lo : list token;
  ch_hi : list token;
  ch_boxes : list (list (list Z * list Z));     (* per level: index ranges of the boxes *)
  ch_tail : chk_tail
}.

(* ---- the text PeleLMeX writes ---- *)
Definition print_chk_level (boxes : list (list Z * list Z)) : text :=
  [[bs "(" ++ str_of_Z (blen boxes); bs "0"]]
  ++ map (fun ix => triple (fst ix) (snd ix)) boxes
  ++ [[bs ")"]].

Definition print_chk_tail (t : chk_tail) : text :=
  [[ct_pressure t]]
  ++ (match ct_sys t with Some s => [[str_of_Z s]; [str_of_Z 0]] | None => [] end)
  ++ map (fun v => [v]) (ct_typvals t).

Definition print_chk (h : chk_header) : text :=
  [ch_version h; [str_of_Z (ch_max_level h)]; [str_of_Z (ch_step h)]]
  ++ (match ch_int h with Some l => [l] | None => [] end)
  ++ [[ch_time h]; [ch_dt1 h]; [ch_dt2 h]; ch_lo h; ch_hi h]
  ++ concat (map print_chk_level (ch_boxes h))
  ++ print_chk_tail (ch_tail h).

(* ---- the reader ---- *)
Definition starts_lp (l : line) : bool :=
  match l with
  | (c :: _) :: _ => Ascii.eqb c "("%char
  | _ => false
  end.

(* for line in iter(hfile.readline, ''): if line.startswith('('): break; nlines += 1 *)
Fixpoint lines_before_lp (t : text) : Z :=
  match t with
  | [] => 0
  | l :: t' => if starts_lp l then 0 else 1 + lines_before_lp t'
  end.

Definition p_chk_level : P (list (list Z * list Z)) :=
  pdo l <- rline;
  match l with
  | [a; b] =>
      pdo nb <- of_opt (py_int (remove_char "("%char a));
      pdo nfaces <- of_opt (py_int (remove_char "("%char b));
      pdo boxes <- prepeat (Z.to_nat nb) p_index_line;
      pdo close <- rline;
      pret boxes
  | _ => pfail
  end.

(* for l in hfile: typvals.append(float(l)) *)
Definition p_rest_floats : P (list token) :=
  fun t => match omap_all line_float t with Some v => Some (v, []) | None => None end.

Section Oracles.
Variable whole : token -> bool.
Variable to_int : token -> Z.

Definition p_chk_tail : P chk_tail :=
  pdo l <- rline; pdo pr <- of_opt (line_float l);
  pdo l <- rline; pdo v <- of_opt (line_float l);
  if whole v then
    pdo l <- rline; pdo z <- of_opt (line_int l);
    if negb (z =? 0) then pfail else
    pdo tv <- p_rest_floats;
    pret {| ct_pressure := pr; ct_sys := Some (to_int v); ct_typvals := tv |}
  else
    pdo tv <- p_rest_floats;
    pret {| ct_pressure := pr; ct_sys := None; ct_typvals := v :: tv |}.

(* everything after the time lines is read the same way by the pinned and by the repaired reader *)
Definition p_chk_after_time (version : line) (maxlv step : Z) (il : option line) (time : token) : P chk_header :=
  pdo l <- rline; pdo dt1 <- of_opt (line_float l);
  pdo l <- rline; pdo dt2 <- of_opt (line_float l);
  pdo l <- rline; pdo lo <- of_opt (line_floats l);
  pdo l <- rline; pdo hi <- of_opt (line_floats l);
  pdo boxes <- prepeat (Z.to_nat (maxlv + 1)) p_chk_level;
  pdo tail <- p_chk_tail;
  pret {| ch_version := version; ch_max_level := maxlv; ch_step := step; ch_int := il; ch_time := time;
          ch_dt1 := dt1; ch_dt2 := dt2; ch_lo := lo; ch_hi := hi; ch_boxes := boxes; ch_tail := tail |}.

(* the reader as repaired (commit d496cd6): the optional integer line is there when the box list starts one line
   later - six lines instead of five between the step number and the first '(' *)
Definition p_chk : P chk_header :=
  pdo version <- rline;
  pdo l <- rline; pdo maxlv <- of_opt (line_int l);
  pdo l <- rline; pdo step <- of_opt (line_int l);
  fun t =>
    (if lines_before_lp t =? 6 then
       pdo il <- rline;
       pdo l <- rline; pdo time <- of_opt (line_float l);
       p_chk_after_time version maxlv step (Some il) time
     else
       pdo l <- rline; pdo time <- of_opt (line_float l);
       p_chk_after_time version maxlv step None time) t.

(* the reader of the pinned commit: the line after the step number is the integer line when its VALUE is whole *)
Definition p_chk_pinned : P chk_header :=
  pdo version <- rline;
  pdo l <- rline; pdo maxlv <- of_opt (line_int l);
  pdo l <- rline; pdo step <- of_opt (line_int l);
  pdo l <- rline; pdo v <- of_opt (line_float l);
  if whole v then
    pdo l2 <- rline; pdo time <- of_opt (line_float l2);
    p_chk_after_time version maxlv step (Some l) time
  else
    p_chk_after_time version maxlv step None v.
End Oracles.

(* ---- what chk2plt derives from the header ---- *)
(* np.max(indices[:, 1, :], axis=0) + 1 *)
Fixpoint zmax_rows (rows : list (list Z)) : list Z :=
  match rows with
  | [] => []
  | [r] => r
  | r :: rest => map (fun ab => Z.max (fst ab) (snd ab)) (combine r (zmax_rows rest))
  end.

Definition grid0 (boxes0 : list (list Z * list Z)) : list Z := map (fun m => m + 1) (zmax_rows (map snd boxes0)).
Definition grid_at (g0 : list Z) (lv : Z) : list Z := map (fun s => s * 2 ^ lv) g0.

Definition levels_upto (maxlv : Z) : list Z := map Z.of_nat (seq 0 (Z.to_nat (maxlv + 1))).

Definition chk_fields (species : list bytes) (do_gradp do_ir : bool) : list bytes :=
  [bs "x_velocity"; bs "y_velocity"; bs "z_velocity"; bs "density"]
  ++ map (fun sp => bs "Y(" ++ sp ++ bs ")") species
  ++ [bs "rhoh"; bs "temp"; bs "RhoRT"]
  ++ (if do_gradp then [bs "gradpx"; bs "gradpy"; bs "gradpz"] else [])
  ++ (if do_ir then map (fun sp => bs "I_R(" ++ sp ++ bs ")") species else []).

(* nfields_out from the component counts of the checkpoint's level headers *)
Definition chk_nfields_out (n_state n_gradp n_ir : Z) (do_gradp do_ir : bool) : Z :=
  n_state + (if do_gradp then n_gradp else 0) + (if do_ir then n_ir else 0).

Section Written.
Variable frepr : token -> token.
Variable dx_row : Z -> list token.                       (* level -> printed cell sizes *)
Variable bounds : Z -> list (list (token * token)).      (* level -> per box, per direction: printed low and high *)

(* write_global_header, line by line *)
Definition write_global_header (h : chk_header) (fields : list bytes) (nfields_out : Z) : text :=
  let maxlv := ch_max_level h in
  let g0 := grid0 (hd [] (ch_boxes h)) in
  let tm := frepr (ch_time h) in
  [[bs "HyperCLaw-V1.1"]; [str_of_Z nfields_out]]
  ++ map (fun f => [f]) fields
  ++ [[str_of_Z (blen (ch_hi h))]; [tm]; [str_of_Z maxlv];
      map frepr (ch_lo h); map frepr (ch_hi h);
      map (fun _ => bs "2") (seq 0 (Z.to_nat maxlv));
      concat (map (fun lv => [bs "((0,0,0)"; bs "(" ++ join_ints (map (fun s => s - 1) (grid_at g0 lv)) ++ bs ")"; bs "(0,0,0))"])
                  (levels_upto maxlv));
      map (fun _ => str_of_Z (ch_step h)) (levels_upto maxlv)]
  ++ map dx_row (levels_upto maxlv)
  ++ [[bs "0"]; [bs "0"]]
  ++ concat (map (fun lv =>
        [[str_of_Z lv; str_of_Z (blen (nth (Z.to_nat lv) (ch_boxes h) [])); tm]; [str_of_Z (ch_step h)]]
        ++ concat (map (fun box => map (fun lh => [fst lh; snd lh]) box) (bounds lv))
        ++ [[bs "Level_" ++ str_of_Z lv ++ bs "/Cell"]])
      (levels_upto maxlv)).

(* the same as header records *)
Definition chk_g (h : chk_header) (fields : list bytes) : gheader :=
  let maxlv := ch_max_level h in
  let g0 := grid0 (hd [] (ch_boxes h)) in
  {| g_version := [bs "HyperCLaw-V1.1"]; g_names := fields; g_ndims := blen (ch_hi h);
     g_time := frepr (ch_time h); g_max_level := maxlv;
     g_geo_low := map frepr (ch_lo h); g_geo_high := map frepr (ch_hi h);
     g_factors := map (fun _ => 2) (seq 0 (Z.to_nat maxlv));
     g_grid_hi := map (fun lv => map (fun s => s - 1) (grid_at g0 lv)) (levels_upto maxlv);
     g_steps := map (fun _ => ch_step h) (levels_upto maxlv);
     g_dx := map dx_row (levels_upto maxlv);
     g_sys_coord := [bs "0"] |}.

Definition chk_lb (h : chk_header) (lv : Z) : lvboxes :=
  {| lb_ncells := blen (nth (Z.to_nat lv) (ch_boxes h) []);
     lb_step_line := [str_of_Z (ch_step h)];
     lb_boxes := bounds lv;
     lb_cell_dir := bs "Level_" ++ str_of_Z lv;
     lb_time_tok := frepr (ch_time h) |}.

Definition chk_lvs (h : chk_header) : list lvboxes := map (chk_lb h) (levels_upto (ch_max_level h)).
End Written.
