(* colander, the whole tool: on the directory image of EVERY well-formed
   plotfile (any number of levels, boxes, any box -> file distribution and
   on-disk order) the model of Colander(...).strain() writes exactly the
   directory image of the strained plotfile [colander_spec]: kept fields and
   levels only, bit for bit, with headers stating them.
   Standard library only, no axioms. *)
From AK Require Import Base.Prelude Bytes.Text Bytes.FabHeader Bytes.FabHeaderProofs
  Bytes.BinFile Reader.Select Reader.BoxRead Reader.Level Reader.ReadSpec
  Reader.LayoutProofs Reader.ReadProofs Reader.IterProofs
  Plotfile.TextHeader Plotfile.HeaderSpec Plotfile.HeaderProofs
  Taste.Taste Taste.TasteSpec Plotfile.Abstract Taste.CompleteProofs
  Writers.Colander Writers.ColanderSpec Writers.ColanderSpecProofs Writers.ColanderProofs
  Writers.ColanderLevelProofs Writers.ColanderHeaderProofs.

(* ------------------------------------------------------------------ *)
(** * list facts *)
Lemma omap_all_indexed {A B} (f : A -> option B) (h : nat -> A -> B) : forall (l : list A) s,
  (forall k x, nth_error l k = Some x -> f x = Some (h (s + k)%nat x)) ->
  omap_all f l = Some (map (fun kx => h (fst kx) (snd kx)) (combine (seq s (length l)) l)).
Proof.
  induction l as [|a l IH]; intros s H; [reflexivity|].
  cbn [omap_all length seq combine map fst snd].
  rewrite (H 0%nat a eq_refl), Nat.add_0_r. cbn [obind].
  rewrite (IH (S s)); [reflexivity|].
  intros k x Hk. rewrite (H (S k) x Hk). f_equal. f_equal. lia.
Qed.

Lemma combine_map_both {A B C} (f : A -> B) (g : A -> C) : forall l,
  combine (map f l) (map g l) = map (fun x => (f x, g x)) l.
Proof. induction l as [|a l IH]; [reflexivity|]. cbn [map combine]. rewrite IH. reflexivity. Qed.

Lemma combine_seq_map {A B} (f : A -> B) : forall (l : list A) s,
  combine (seq s (length (map f l))) (map f l) = map (fun kx => (fst kx, f (snd kx))) (combine (seq s (length l)) l).
Proof.
  induction l as [|a l IH]; intros s; [reflexivity|]. cbn [map length seq combine fst snd]. rewrite IH. reflexivity.
Qed.

Lemma nth_error_firstn_some {A} : forall n (l : list A) k x, nth_error (firstn n l) k = Some x -> nth_error l k = Some x.
Proof.
  induction n as [|n IH]; intros [|a l] k x H; cbn [firstn] in H; try (destruct k; discriminate).
  destruct k as [|k]; [exact H|]. cbn [nth_error] in *. apply IH. exact H.
Qed.

(* ------------------------------------------------------------------ *)
(** * one level directory *)
Section OneLevel.
Variables (pf : plotfile) (kept : list Z) (names : list bytes).
Hypothesis Hwf : wf_plotfile pf.
Hypothesis Hrows : wf_rows pf.
Hypothesis Hkept : Forall (fun i => 0 <= i < pf_nfields pf) kept.
Hypothesis Hne : kept <> [].
Hypothesis Hlen : length kept = length names.

Lemma level_dir : forall k pl, In pl (pf_levels pf) ->
  lb_cell_dir (pl_boxes pl) = level_name (Z.of_nat k) ->
  (do r <- strain_level (ld_files (snd (pl_dir (pf_nfields pf) pl))) (strip_minmax (pl_cellh pl)) (pf_nfields pf) kept;
   do t <- ld_cellh (snd (pl_dir (pf_nfields pf) pl));
   do t' <- update_cell_header t kept (snd r);
   Some (lb_cell_dir (pl_boxes pl), {| ld_cellh := Some t'; ld_files := fst r |}))
  = Some (pl_dir (blen names) (strained_level (pf_g pf) kept k pl)).
Proof.
  intros k pl Hin Hdir.
  destruct Hwf as (_ & _ & _ & Hlv). rewrite Forall_forall in Hlv.
  pose proof (Hlv pl Hin) as Hpl.
  destruct Hpl as (Hb & Hwl & Hnefabs & Hnc & Hncs & Hmn & Hmx & Hmnf & Hmxf).
  unfold wf_rows in Hrows. rewrite Forall_forall in Hrows. destruct (Hrows pl Hin) as [Hr1 Hr2].
  cbn [pl_dir snd ld_files ld_cellh].
  rewrite (strain_level_spec (pl_level pl) Hwl kept (pf_nfields pf) Hncs Hkept
             (strip_minmax (pl_cellh pl)) eq_refl eq_refl eq_refl).
  cbn [obind fst snd].
  assert (Hidxne : c_indexes (pl_cellh pl) <> []).
  { cbn [pl_cellh c_indexes]. destruct (lv_fabs (pl_level pl)); [congruence | discriminate]. }
  rewrite (update_cell_header_print (pf_nfields pf) (pl_cellh pl) kept _
             (wf_cellh_pl _ _ pl true (Hlv pl Hin)) Hidxne Hr1 Hr2 Hne Hkept).
  2:{ rewrite map_length, (cells_strained_length _ Hwl kept (pf_nfields pf) Hncs Hkept).
      cbn [pl_cellh c_indexes]. rewrite map_length. reflexivity. }
  cbn [obind]. unfold pl_dir, strained_level. cbn [pl_boxes lb_cell_dir pl_level]. rewrite Hdir.
  f_equal. f_equal. f_equal.
  - (* the level header *)
    f_equal.
    replace (blen names) with (blen kept) by (unfold blen; rewrite Hlen; reflexivity).
    f_equal. unfold strained_cellh, pl_cellh. cbn [c_indexes c_files c_offsets c_mins c_maxs pl_level pl_mins pl_maxs lv_fabs].
    change {| lv_fabs := map (keep_fab kept) (lv_fabs (pl_level pl)); lv_files := strained_files (pl_level pl) |}
      with (strained_lv (pl_level pl) kept).
    rewrite (strained_names _ Hwl kept (pf_nfields pf) Hncs Hkept).
    rewrite map_map. reflexivity.
Qed.
End OneLevel.

(* ------------------------------------------------------------------ *)
(** * the global header *)
Lemma strained_header_spec : forall pf lim kept names,
  length kept = length names ->
  let L := firstn (Z.to_nat (lim + 1)) (pf_levels pf) in
  strained_header (opened_of pf lim) kept names
  = print_header (strained_gheader (pf_g pf) lim names)
      (map pl_boxes (map (fun kl => strained_level (pf_g pf) kept (fst kl) (snd kl)) (combine (seq 0 (length L)) L))).
Proof.
  intros pf lim kept names Hlen L. unfold strained_header, opened_of. cbn [o_g o_limit o_levels].
  unfold restrict_levels. rewrite firstn_map. fold L.
  rewrite combine_seq_map, !map_map. cbn [fst snd].
  change {| g_version := g_version (pf_g pf); g_names := names; g_ndims := g_ndims (pf_g pf);
            g_time := g_time (pf_g pf); g_max_level := lim;
            g_geo_low := g_geo_low (pf_g pf); g_geo_high := g_geo_high (pf_g pf);
            g_factors := if 0 <? lim then firstn (Z.to_nat (lim + 1)) (g_factors (pf_g pf)) else [];
            g_grid_hi := firstn (Z.to_nat (lim + 1)) (g_grid_hi (pf_g pf));
            g_steps := firstn (Z.to_nat (lim + 1)) (g_steps (pf_g pf));
            g_dx := firstn (Z.to_nat (lim + 1)) (g_dx (pf_g pf));
            g_sys_coord := g_sys_coord (pf_g pf) |} with (strained_gheader (pf_g pf) lim names).
  set (lvs := map _ (combine (seq 0 (length L)) L)).
  unfold print_header, print_gheader. cbn [app g_version g_names strained_gheader].
  replace (blen kept) with (blen names) by (unfold blen; rewrite Hlen; reflexivity). reflexivity.
Qed.

(* ------------------------------------------------------------------ *)
(** * the tool *)
Theorem colander_refines : forall vars limit lim pf,
  wf_plotfile pf -> std_dirs pf -> wf_counts pf -> wf_rows pf ->
  eff_limit (g_max_level (pf_g pf)) limit = Some lim -> 0 <= lim ->
  fst (resolve_vars (field_keys (g_names (pf_g pf)) []) vars) <> [] ->
  colander vars limit (pf_disk pf) = Some (pf_disk (colander_spec vars lim pf)).
Proof.
  intros vars limit lim pf Hwf Hstd Hcnt Hrows Heff Hlim Hne.
  unfold colander.
  change (pd_header (pf_disk pf)) with (Some (print_header (pf_g pf) (map pl_boxes (pf_levels pf)))).
  cbn [obind].
  rewrite (open_header_complete pf limit lim Hwf Heff Hlim). cbn [obind].
  rewrite (open_levels_complete pf lim false Hwf). cbn [obind].
  destruct Hcnt as (_ & _ & Hnd).
  replace ((g_ndims (o_g (opened_of pf lim)) =? 2) || (g_ndims (o_g (opened_of pf lim)) =? 3)) with true.
  2:{ cbn [opened_of o_g]. destruct Hnd as [-> | ->]; reflexivity. }
  cbn [obind]. cbv zeta.
  change (o_keys (opened_of pf lim)) with (field_keys (g_names (pf_g pf)) []).
  unfold colander_spec.
  destruct (resolve_vars (field_keys (g_names (pf_g pf)) []) vars) as [kept names] eqn:Eres.
  cbn [fst] in Hne.
  destruct (resolve_vars_range _ _ _ _ Eres) as [Hlen Hk].
  assert (Hkept : Forall (fun i => 0 <= i < pf_nfields pf) kept).
  { unfold pf_nfields. unfold blen in *. rewrite field_keys_length in Hk. exact Hk. }
  set (L := firstn (Z.to_nat (lim + 1)) (pf_levels pf)).
  change (blen (g_names (o_g (opened_of pf lim)))) with (pf_nfields pf).
  assert (Hdirs :
    omap_all (fun lbc : lvboxes * (ldir * cellh) =>
                do r <- strain_level (ld_files (fst (snd lbc))) (snd (snd lbc)) (pf_nfields pf) kept;
                do t <- ld_cellh (fst (snd lbc));
                do t' <- update_cell_header t kept (snd r);
                Some (lb_cell_dir (fst lbc), {| ld_cellh := Some t'; ld_files := fst r |}))
             (combine (o_levels (opened_of pf lim)) (opened_levels pf lim false))
    = Some (map (pl_dir (blen names))
                (map (fun kl => strained_level (pf_g pf) kept (fst kl) (snd kl)) (combine (seq 0 (length L)) L)))).
  { unfold opened_of, opened_levels, restrict_levels. cbn [o_levels]. rewrite firstn_map. fold L.
    rewrite combine_map_both, omap_all_map_pre. cbn [fst snd].
    rewrite map_map.
    apply (omap_all_indexed _ (fun k pl => pl_dir (blen names) (strained_level (pf_g pf) kept k pl)) L 0%nat).
    intros k pl Hkpl. cbn [Nat.add].
    assert (Hnth : nth_error (pf_levels pf) k = Some pl) by (apply (nth_error_firstn_some _ _ _ _ Hkpl)).
    apply (level_dir pf kept names Hwf Hrows Hkept Hne Hlen k pl (nth_error_In _ _ Hnth) (Hstd k pl Hnth)). }
  rewrite Hdirs. cbn [obind].
  unfold pf_disk. cbn [pf_g pf_levels]. f_equal. f_equal.
  - f_equal. apply (strained_header_spec pf lim kept names Hlen).
Qed.

Print Assumptions colander_refines.
