(* The binary core of chef for user recipes: the scan of a binary file cooks
   every box of the file in file order; a cooked box holds the kept components
   bit for bit followed by the recipe's components; the per-box minima and
   maxima are true extrema of what was written. *)
From AK Require Import Base.Prelude Bytes.Text Bytes.FabHeader Bytes.FabHeaderProofs
  Bytes.BinFile Reader.Select Reader.BoxRead Reader.Level Reader.ReadSpec
  Reader.LayoutProofs Reader.ReadProofs Reader.IterProofs
  Plotfile.TextHeader Taste.Taste Plotfile.Abstract
  Writers.Colander Writers.ColanderSpec Writers.ColanderProofs Writers.CombineProofs Writers.Chef.
From AK Require Export Bytes.WordProofs.

Lemma combine_map_l_local {A B C} (f : A -> B) : forall (l : list A) (l' : list C),
  combine (map f l) l' = map (fun ac => (f (fst ac), snd ac)) (combine l l').
Proof.
  induction l as [|a l IH]; intros [|c l']; cbn [map combine]; try reflexivity.
  rewrite IH. reflexivity.
Qed.

(* ------------------------------------------------------------------ *)
(** * the scan of one binary file *)

Section Scan.
Variable recipe : nat -> list Z -> list Z -> bytes -> option (list bytes).
Variable lv : nat.

Definition cooked (keep : list Z) (new : list bytes) (fb : fab) : fab :=
  {| fab_lo := fab_lo fb; fab_hi := fab_hi fb; fab_nc := blen new + blen keep;
     fab_data := concat (map (fab_comp fb) keep ++ new) |}.

(* what the recipe returns for the boxes of the file *)
Definition recipe_ok (fb : fab) (new : list bytes) : Prop :=
  recipe lv (fab_lo fb) (fab_hi fb) (fab_data fb) = Some new /\
  Forall (fun c => blen c = 8 * fab_cells fb) new.

Theorem knife_scan_spec : forall (fs : list fab) (news : list (list bytes)) keep fuel pre out0,
  Forall2 (fun fb new => fab_ok fb = true /\ length (fab_lo fb) = 3%nat /\
                         Forall (fun i => 0 <= i < fab_nc fb) keep /\
                         recipe_ok fb new /\ (new <> [] \/ keep <> [])) fs news ->
  (length fs < fuel)%nat ->
  let cooked_fs := map (fun fn => cooked keep (snd fn) (fst fn)) (combine fs news) in
  knife_scan recipe lv fuel (pre ++ encode_file fs) (blen pre) keep out0
  = Some (out0 ++ encode_file cooked_fs,
          map (fun jfn => (blen out0 + fab_offset cooked_fs (fst jfn),
                           map comp_min (map (fab_comp (fst (snd jfn))) keep ++ snd (snd jfn)),
                           map comp_max (map (fab_comp (fst (snd jfn))) keep ++ snd (snd jfn))))
              (combine (seq 0 (length fs)) (combine fs news))).
Proof.
  intros fs news keep fuel pre out0 H. revert fuel pre out0.
  induction H as [|fb new fs news Hhd _ IH]; intros fuel pre out0 Hfuel; cbv zeta.
  - destruct fuel as [|fuel]; [cbn in Hfuel; lia|].
    cbn [knife_scan combine map length seq]. rewrite encode_file_nil, read_header_eof, app_nil_r. reflexivity.
  - destruct Hhd as (Hok & H3 & Hkeep & (Hrec & Hnew) & Hne).
    destruct fuel as [|fuel]; [cbn in Hfuel; lia|]. cbn [length] in Hfuel.
    cbn [knife_scan]. rewrite encode_file_cons.
    rewrite (read_header_at pre fb (encode_file fs) Hok).
    destruct (fab_ok_inv fb Hok) as (_ & _ & Hlen & _).
    assert (Hshp : exists a b c, fab_shape fb = [a; b; c]).
    { unfold fab_shape, box_shape.
      destruct (fab_lo fb) as [|? [|? [|? [|? ?]]]]; try (cbn in H3; lia).
      destruct (fab_hi fb) as [|? [|? [|? [|? ?]]]]; try (cbn in Hlen; lia).
      eexists. eexists. eexists. reflexivity. }
    destruct Hshp as (a & b & c & Hshp). rewrite Hshp. rewrite <- Hshp. cbv zeta.
    cbn [h_lo h_hi h_nc].
    rewrite (whole_payload pre fb (encode_file fs) Hok), (whole_reshape fb Hok).
    rewrite Hrec. cbn [obind].
    assert (Hline : readline (pre ++ encode_fab fb ++ encode_file fs) (blen pre) = fab_hdr fb).
    { unfold readline, rest. rewrite zskipn_app_exact. unfold encode_fab. rewrite <- app_assoc.
      unfold fab_hdr. apply take_line_print_hdr. }
    rewrite Hline.
    assert (Hrep : py_replace (str_of_Z (fab_nc fb) ++ [nl]) (str_of_Z (blen new + blen keep) ++ [nl]) (fab_hdr fb)
                   = print_hdr (fab_lo fb) (fab_hi fb) (blen new + blen keep))
      by (unfold fab_hdr; apply replace_count_in_header).
    rewrite Hrep.
    rewrite (comps_norm_id _ _ Hkeep). cbn [obind].
    change (zprod (fab_shape fb)) with (fab_cells fb).
    assert (Hf : forallb (fun c0 => blen c0 =? 8 * fab_cells fb) new = true).
    { apply forallb_forall. intros x Hx. rewrite Forall_forall in Hnew. rewrite (Hnew x Hx). apply Z.eqb_refl. }
    rewrite Hf.
    assert (Hall : (length (map (fun i => sub (8 * fab_cells fb * i) (8 * fab_cells fb) (fab_data fb)) keep ++ new) =? 0)%nat = false).
    { rewrite app_length, map_length. destruct Hne as [Hn|Hk].
      - destruct new; [congruence|]. cbn [length]. apply Nat.eqb_neq. lia.
      - destruct keep; [congruence|]. cbn [length]. apply Nat.eqb_neq. lia. }
    rewrite Hall. cbn [negb].
    destruct (fab_ok_inv fb Hok) as (_ & _ & _ & _ & _ & Hd).
    replace (blen pre + blen (fab_hdr fb) + blen (fab_data fb)) with (blen (pre ++ encode_fab fb))
      by (rewrite blen_app, (blen_encode_fab fb Hok), Hd; ring).
    replace (pre ++ encode_fab fb ++ encode_file fs) with ((pre ++ encode_fab fb) ++ encode_file fs)
      by (rewrite <- app_assoc; reflexivity).
    set (chunk := print_hdr (fab_lo fb) (fab_hi fb) (blen new + blen keep)
                  ++ concat (map (fun i => sub (8 * fab_cells fb * i) (8 * fab_cells fb) (fab_data fb)) keep ++ new)).
    assert (Hchunk : chunk = encode_fab (cooked keep new fb)) by reflexivity.
    rewrite (IH fuel (pre ++ encode_fab fb) (out0 ++ chunk) ltac:(lia)).
    cbn [obind fst snd]. rewrite Hchunk.
    apply f_equal. apply (f_equal2 pair).
    + cbn [combine map]. rewrite encode_file_cons, <- app_assoc. reflexivity.
    + cbn [length seq combine map fst snd]. rewrite fab_offset_0, Z.add_0_r.
      apply f_equal2; [reflexivity|].
      rewrite <- seq_shift. rewrite combine_map_l_local. rewrite map_map.
      apply map_ext. intros [j [fb' new']]. cbn [fst snd].
      rewrite fab_offset_S, blen_app. unfold fab_size. f_equal. f_equal. lia.
Qed.
End Scan.

(* ------------------------------------------------------------------ *)
(** * what a cooked box holds *)

Theorem cooked_kept : forall keep new fb j,
  fab_ok fb = true -> Forall (fun i => 0 <= i < fab_nc fb) keep ->
  Forall (fun c => blen c = 8 * fab_cells fb) new -> (j < length keep)%nat ->
  fab_comp (cooked keep new fb) (Z.of_nat j) = fab_comp fb (nth j keep 0).
Proof.
  intros keep new fb j Hok Hk Hn Hj.
  pose proof (fab_cells_pos fb Hok) as Hc.
  unfold fab_comp at 1. change (fab_cells (cooked keep new fb)) with (fab_cells fb).
  cbn [cooked fab_data].
  rewrite (sub_concat_nth (8 * fab_cells fb)).
  - rewrite app_nth1 by (rewrite map_length; exact Hj).
    rewrite (nth_indep _ [] (fab_comp fb 0)) by (rewrite map_length; exact Hj). apply map_nth.
  - lia.
  - apply Forall_app. split; [apply Forall_map|exact Hn].
    revert Hk. apply Forall_impl. intros i Hi. apply blen_fab_comp_local; assumption.
  - rewrite app_length, map_length. lia.
Qed.

Theorem cooked_new : forall keep new fb j,
  fab_ok fb = true -> Forall (fun i => 0 <= i < fab_nc fb) keep ->
  Forall (fun c => blen c = 8 * fab_cells fb) new -> (j < length new)%nat ->
  fab_comp (cooked keep new fb) (Z.of_nat (length keep + j)) = nth j new [].
Proof.
  intros keep new fb j Hok Hk Hn Hj.
  pose proof (fab_cells_pos fb Hok) as Hc.
  unfold fab_comp at 1. change (fab_cells (cooked keep new fb)) with (fab_cells fb).
  cbn [cooked fab_data].
  rewrite (sub_concat_nth (8 * fab_cells fb)).
  - rewrite app_nth2 by (rewrite map_length; lia). rewrite map_length. f_equal. lia.
  - lia.
  - apply Forall_app. split; [apply Forall_map|exact Hn].
    revert Hk. apply Forall_impl. intros i Hi. apply blen_fab_comp_local; assumption.
  - rewrite app_length, map_length. apply Nat.add_lt_mono_l. exact Hj.
Qed.
