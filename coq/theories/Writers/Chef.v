(* amr_kitchen/chef/chef.py for user recipes of the plotfile data
   (chefs_knife_user_pfile, Chef.cook, update_cell_header,
   write_global_header), as a function from the input directory image to the
   output directory image.

   The recipe is a parameter: [recipe lo hi data] gives the new components
   (each the raw float64 bytes of one nx*ny*nz array, Fortran order) computed
   from a box's data.  In the correspondence it is instantiated by a table of
   what the Python recipe returned for each box.  The Cantera-backed knives
   share this skeleton (scan, kept ++ new, per-box min/max) with the recipe
   replaced by a SolutionArray attribute. *)
From AK Require Import Base.Prelude Bytes.Text Bytes.FabHeader Bytes.BinFile
  Reader.Select Reader.BoxRead Reader.Level Plotfile.TextHeader Taste.Taste Writers.Colander.
From AK Require Export Bytes.Word.

(* a min/max value is printed by str(np.float64); the model prints a stand-in for
   the bit pattern, compared by value in the correspondence *)
Definition dec_digit (n : Z) : ascii := ascii_of_nat (Z.to_nat (48 + n)).
Definition dec3 (c : ascii) : bytes := [dec_digit (code c / 100); dec_digit (code c / 10 mod 10); dec_digit (code c mod 10)].
(* the stand-in stays inside the syntax of float literals (it is accepted wherever a printed float is: float() reads
   it as 0.0) and cannot be mistaken for a printed value: "0", the bytes of the word, most significant first, three
   decimal digits each, and the exponent "e-99999" *)
Definition word_token (w : bytes) : token := bs "0" ++ concat (map dec3 (rev w)) ++ bs "e-99999".

(* ---- chefs_knife_user_pfile: sequential scan of one binary file ---- *)
Section Knife.
(* the level is passed along so that a table can key boxes by (level, index range) *)
Variable recipe : nat -> list Z -> list Z -> bytes -> option (list bytes).

Fixpoint knife_scan (lv : nat) (fuel : nat) (f : bytes) (pos : Z) (keep : list Z) (out : bytes)
  : option (bytes * list (Z * list bytes * list bytes)) :=      (* file, per box (offset, mins, maxs) *)
  match fuel with
  | O => Some (out, [])
  | S fuel' =>
      match read_header f pos with
      | None => Some (out, [])                       (* not a header: the scan ends *)
      | Some (h, shp, p1) =>
          match shp with
          | [_; _; _] =>
              let line := readline f pos in
              let total := shp ++ [h_nc h] in
              let data := fromfile f p1 (zprod total) in
              guard reshape_ok data total;
              do new <- recipe lv (h_lo h) (h_hi h) data;
              let nfields := blen new + blen keep in
              let header_w := py_replace (str_of_Z (h_nc h) ++ [nl]) (str_of_Z nfields ++ [nl]) line in
              do kc <- comps_norm (h_nc h) keep;
              let chunk := 8 * zprod shp in
              let kept := map (fun i => sub (chunk * i) chunk data) kc in
              let all := kept ++ new in
              (* np.concatenate needs equal box shapes *)
              guard forallb (fun c => blen c =? chunk) new;
              guard negb (length all =? 0)%nat;
              do rest <- knife_scan lv fuel' f (p1 + blen data) keep (out ++ header_w ++ concat all);
              Some (fst rest, (blen out, map comp_min all, map comp_max all) :: snd rest)
          | _ => None                                (* datashape[2] on a 2D header *)
          end
      end
  end.

(* ---- Chef.cook: one level ---- *)
Definition off_ltb (a b : nat * (list Z * list Z * Z)) : bool := snd (snd a) <? snd (snd b).

Fixpoint insert_off (x : nat * (list Z * list Z * Z)) (l : list (nat * (list Z * list Z * Z))) :=
  match l with
  | [] => [x]
  | y :: l' => if off_ltb x y then x :: l else y :: insert_off x l'
  end.
(* bf_indexes[np.argsort(bf_offsets_r)] *)
Definition sort_off (l : list (nat * (list Z * list Z * Z))) := fold_right insert_off [] l.

Fixpoint scatter_rows {A} (idxs : list nat) (vals : list A) (acc : list A) : list A :=
  match idxs, vals with
  | i :: idxs', v :: vals' => scatter_rows idxs' vals' (set_nth i v acc)
  | _, _ => acc
  end.

Definition cook_level (lv : nat) (files : list (bytes * bytes)) (c : cellh) (keep : list Z) (nout : Z)
  : option (list (bytes * bytes) * list Z * list (list bytes) * list (list bytes)) :=
  let all := zip_boxes (c_indexes c) (c_files c) (c_offsets c) in
  let names := np_unique (c_files c) in
  do results <- omap_all (fun name =>
                  do f <- lookup name files;
                  let ids := map fst (sort_off (boxes_of_file name all 0)) in
                  do r <- knife_scan lv (S (length f)) f 0 keep [];
                  (* mapped_*[file_idxs] = results needs matching shapes *)
                  guard (length (snd r) =? length ids)%nat;
                  guard forallb (fun b => (blen (snd (fst b)) =? nout) && (blen (snd b) =? nout)) (snd r);
                  Some (name, fst r, ids, snd r)) names;
  let newfiles := map (fun r => (fst (fst (fst r)), snd (fst (fst r)))) results in
  let n := length (c_indexes c) in
  let offs := fold_left (fun acc r => scatter (snd (fst r)) (map (fun b => fst (fst b)) (snd r)) acc) results (repeat 0 n) in
  let mins := fold_left (fun acc r => scatter_rows (snd (fst r)) (map (fun b => snd (fst b)) (snd r)) acc) results (repeat [] n) in
  let maxs := fold_left (fun acc r => scatter_rows (snd (fst r)) (map snd (snd r)) acc) results (repeat [] n) in
  Some (newfiles, offs, mins, maxs).

(* ---- update_cell_header ---- *)
Definition chef_cell_header (t : text) (nout : Z) (offs : list Z) (mins maxs : list (list bytes)) : option text :=
  match t with
  | l0 :: l1 :: _ :: t3 =>
      match offs with
      | [] => None
      | o0 :: offs' =>
          do r <- copy_until_fod (S (length t3)) t3 [];
          let '(mesh, fl, rest) := r in
          do r2 <- rewrite_fods offs' rest;
          match snd r2 with
          | blank :: l :: _ =>
              match split_on ","%char (join_line l) with
              | [ncells; _] =>
                  let rows m := map (fun r => [row_token_w (map word_token r)]) m in
                  Some ([l0; l1; [str_of_Z nout]] ++ mesh ++ [set_last_token fl (str_of_Z o0)] ++ fst r2
                        ++ [blank; [ncells ++ bs "," ++ str_of_Z nout]] ++ rows mins
                        ++ [[]; [ncells ++ bs "," ++ str_of_Z nout]] ++ rows maxs)
              | _ => None
              end
          | _ => None
          end
      end
  | _ => None
  end.

(* ---- Chef(plotfile, recipe=..., kept_fields=...).cook() ---- *)
Definition chef (keep : list Z) (outnames : list bytes) (d : pdisk) : option pdisk :=
  do ht <- pd_header d;
  do op <- open_header ht None;
  do lvs <- open_levels d op false;
  guard (g_ndims (o_g op) =? 3);
  let nout := blen outnames in
  do dirs <- omap_all (fun klbc =>
                 let lbc := snd klbc in
                 let lb := fst lbc in
                 let ld := fst (snd lbc) in
                 let c := snd (snd lbc) in
                 do r <- cook_level (fst klbc) (ld_files ld) c keep nout;
                 let '(newfiles, offs, mins, maxs) := r in
                 do t <- ld_cellh ld;
                 do t' <- chef_cell_header t nout offs mins maxs;
                 Some (lb_cell_dir lb, {| ld_cellh := Some t'; ld_files := newfiles |}))
              (combine (seq 0 (length lvs)) (combine (o_levels op) lvs));
  Some {| pd_header := Some (strained_header op (map (fun _ => 0) outnames) outnames); pd_dirs := dirs |}.
End Knife.

(* the recipe as a table: what the Python recipe returned for each box *)
Fixpoint zlist_eqb (a b : list Z) : bool :=
  match a, b with
  | [], [] => true
  | x :: a', y :: b' => (x =? y) && zlist_eqb a' b'
  | _, _ => false
  end.

Fixpoint table_recipe (tbl : list (nat * list Z * list Z * list bytes)) (lv : nat) (lo hi : list Z) (data : bytes)
  : option (list bytes) :=
  match tbl with
  | [] => None
  | (k, l, h, comps) :: tbl' =>
      if (k =? lv)%nat && zlist_eqb l lo && zlist_eqb h hi then Some comps else table_recipe tbl' lv lo hi data
  end.
