(* Shared by chef and chk2plt: per-file tasks read a binary file front to back
   (boxes of the file sorted by recorded offset = on-disk order) and the
   per-box results are scattered back to box order.
   Standard library only, no axioms. *)
From AK Require Import Base.Prelude Bytes.Text Bytes.FabHeader Bytes.FabHeaderProofs
  Bytes.BinFile Reader.Select Reader.BoxRead Reader.Level Reader.ReadSpec
  Reader.LayoutProofs Reader.ReadProofs Reader.IterProofs
  Plotfile.TextHeader Plotfile.HeaderSpec Plotfile.HeaderProofs
  Taste.Taste Taste.TasteSpec Plotfile.Abstract Taste.CompleteProofs Taste.DataProofs
  Writers.Colander Writers.ColanderLevelProofs Writers.Chef.
From Coq Require Import Permutation Sorted.

(* ------------------------------------------------------------------ *)
(** * scatter_rows *)
Lemma scatter_rows_length {A} : forall idxs (vals acc : list A), length (scatter_rows idxs vals acc) = length acc.
Proof.
  induction idxs as [|j idxs IH]; intros [|v vals] acc; cbn [scatter_rows]; try reflexivity.
  rewrite IH, set_nth_length. reflexivity.
Qed.

Lemma scatter_rows_nth {A} (d : A) : forall idxs vals acc, length idxs = length vals -> NoDup idxs ->
  (forall j, In j idxs -> (j < length acc)%nat) ->
  forall i, (forall k, nth_error idxs k = Some i -> nth i (scatter_rows idxs vals acc) d = nth k vals d) /\
            (~ In i idxs -> nth i (scatter_rows idxs vals acc) d = nth i acc d).
Proof.
  induction idxs as [|j idxs IH]; intros vals acc Hlen Hnd Hlt i.
  - split; [intros [|k] H; discriminate | intros _; reflexivity].
  - destruct vals as [|v vals]; [discriminate|]. cbn [length] in Hlen. inversion Hnd as [|? ? Hj Hnd']; subst.
    cbn [scatter_rows].
    assert (Hlt' : forall j0, In j0 idxs -> (j0 < length (set_nth j v acc))%nat)
      by (intros j0 H0; rewrite set_nth_length; apply Hlt; right; exact H0).
    destruct (IH vals (set_nth j v acc) ltac:(lia) Hnd' Hlt' i) as [IH1 IH2].
    assert (Hjl : (j < length acc)%nat) by (apply Hlt; left; reflexivity).
    split.
    + intros [|k] Hk; cbn [nth_error] in Hk.
      * injection Hk as ->. rewrite (IH2 Hj), set_nth_nth by exact Hjl. rewrite Nat.eqb_refl. reflexivity.
      * cbn [nth]. apply IH1. exact Hk.
    + intros Hni. rewrite IH2 by (intros H; apply Hni; right; exact H).
      rewrite set_nth_nth by exact Hjl.
      destruct (Nat.eqb_spec i j) as [->|Hne]; [exfalso; apply Hni; left; reflexivity | reflexivity].
Qed.

Lemma scatter_is_rows : forall idxs vals acc, scatter idxs vals acc = scatter_rows idxs vals acc.
Proof. induction idxs as [|j idxs IH]; intros [|v vals] acc; cbn [scatter scatter_rows]; try reflexivity. apply IH. Qed.

(* ------------------------------------------------------------------ *)
(** * folding the per-file results *)
Section Fold.
Context {A : Type} (d : A).
Variable n : nat.
Variable name_of : nat -> bytes.
Variable ids : bytes -> list nat.
Variable vals : bytes -> list A.
Hypothesis ids_spec : forall name i, In i (ids name) <-> (i < n)%nat /\ name_of i = name.
Hypothesis ids_nodup : forall name, NoDup (ids name).
Hypothesis vals_len : forall name, length (vals name) = length (ids name).

Lemma fold_scatter_rows i : (i < n)%nat -> forall names acc, NoDup names -> length acc = n ->
  nth i (fold_left (fun a name => scatter_rows (ids name) (vals name) a) names acc) d
  = if existsb (bytes_eqb (name_of i)) names
    then nth (posn (ids (name_of i)) i) (vals (name_of i)) d
    else nth i acc d.
Proof.
  intros Hi. induction names as [|a names IH]; intros acc Hnd Hacc; [reflexivity|].
  apply NoDup_cons_iff in Hnd. destruct Hnd as [Ha Hnd']. cbn [fold_left existsb].
  assert (Hlt : forall j, In j (ids a) -> (j < length acc)%nat)
    by (intros j Hj; apply ids_spec in Hj; lia).
  destruct (scatter_rows_nth d (ids a) (vals a) acc (eq_sym (vals_len a)) (ids_nodup a) Hlt i) as [S1 S2].
  rewrite IH by (try exact Hnd'; rewrite scatter_rows_length; exact Hacc).
  destruct (bytes_eqb (name_of i) a) eqn:E; cbn [orb].
  - apply bytes_eqb_true in E. subst a.
    replace (existsb (bytes_eqb (name_of i)) names) with false.
    + assert (Hin : In i (ids (name_of i))) by (apply ids_spec; split; [exact Hi | reflexivity]).
      destruct (pos_in_complete i _ 0%nat Hin) as [k Hk].
      destruct (pos_in_spec _ _ _ Hk) as [Hnth Hkl].
      unfold posn. rewrite Hk.
      apply S1. rewrite (nth_error_nth' _ 0%nat Hkl), Hnth. reflexivity.
    + symmetry. destruct (existsb (bytes_eqb (name_of i)) names) eqn:E2; [|reflexivity].
      apply existsb_exists in E2. destruct E2 as (y & Hy & E2). apply bytes_eqb_true in E2. subst y. contradiction.
  - destruct (existsb (bytes_eqb (name_of i)) names); [reflexivity|].
    apply S2. intros Hin. apply ids_spec in Hin. destruct Hin as [_ Hn].
    rewrite Hn, bytes_eqb_refl in E. discriminate.
Qed.

Lemma fold_scatter_rows_length : forall names acc,
  length (fold_left (fun a name => scatter_rows (ids name) (vals name) a) names acc) = length acc.
Proof. induction names as [|a names IH]; intros acc; [reflexivity|]. cbn [fold_left]. rewrite IH, scatter_rows_length. reflexivity. Qed.
End Fold.

Lemma fold_left_ext {A B} (f g : A -> B -> A) : (forall a b, f a b = g a b) ->
  forall l a, fold_left f l a = fold_left g l a.
Proof. intros H. induction l as [|b l IH]; intros a; [reflexivity|]. cbn [fold_left]. rewrite H. apply IH. Qed.

Lemma fold_left_map {A B C} (f : A -> B -> A) (g : C -> B) : forall l a,
  fold_left f (map g l) a = fold_left (fun x c => f x (g c)) l a.
Proof. induction l as [|c l IH]; intros a; [reflexivity|]. cbn [map fold_left]. apply IH. Qed.

(* ------------------------------------------------------------------ *)
(** * the boxes of a file sorted by recorded offset are its boxes in on-disk order *)
Lemma sort_off_is_sort_by l : sort_off l = sort_by (fun x : nat * (list Z * list Z * Z) => snd (snd x)) l.
Proof.
  unfold sort_off, sort_by. induction l as [|x l IH]; [reflexivity|]. cbn [fold_right]. rewrite IH.
  generalize (fold_right (insert_by (fun x0 : nat * (list Z * list Z * Z) => snd (snd x0))) [] l).
  induction l0 as [|y l0 IH0]; [reflexivity|]. cbn [insert_off insert_by]. unfold off_ltb. rewrite IH0. reflexivity.
Qed.

Section DiskOrder.
Variable lv : level.
Hypothesis Hwf : wf_level lv = true.
Variable c : cellh.
Hypothesis Hidx : c_indexes c = map (fun fb => (fab_lo fb, fab_hi fb)) (lv_fabs lv).
Hypothesis Hfiles : c_files c = map fst (cells_or_nil lv).
Hypothesis Hoffs : c_offsets c = map snd (cells_or_nil lv).

Theorem disk_order_ids : forall name ids, In (name, ids) (lv_files lv) ->
  map fst (sort_off (boxes_of_file name (zip_boxes (c_indexes c) (c_files c) (c_offsets c)) 0)) = ids.
Proof.
  intros name ids Hin.
  rewrite (all_boxes lv Hwf c Hidx Hfiles Hoffs), (boxes_of_file_map lv name), sort_off_is_sort_by.
  set (g := fun i => (i, (fab_lo (nth i (lv_fabs lv) dummy_fab), fab_hi (nth i (lv_fabs lv) dummy_fab), snd (loc_of lv i)))).
  rewrite (sort_by_unique _ _ (map g ids)).
  - rewrite map_map. cbn [g fst]. apply map_id.
  - apply Permutation_map. exact (filter_file_perm lv Hwf name ids Hin).
  - rewrite (map_via_seq 0%nat g ids).
    apply StronglySorted_map_seq. intros i j Hij Hj. unfold key_lt, g. cbn [snd].
    unfold loc_of. rewrite !(locate_nth lv Hwf name ids Hin) by lia. cbn [snd].
    apply fab_offset_lt. rewrite file_fabs_length. lia.
Qed.
End DiskOrder.

(* ------------------------------------------------------------------ *)
(** * the boxes of a file in its on-disk order, by file name *)
Section IdsOf.
Variable lv : level.
Hypothesis Hwf : wf_level lv = true.
Let n := length (lv_fabs lv).

Definition ids_of (name : bytes) : list nat :=
  match find (fun nf : bytes * list nat => bytes_eqb (fst nf) name) (lv_files lv) with
  | Some nf => snd nf
  | None => []
  end.

Lemma find_name : forall (files : list (bytes * list nat)) name ids,
  NoDup (map fst files) -> In (name, ids) files ->
  find (fun nf : bytes * list nat => bytes_eqb (fst nf) name) files = Some (name, ids).
Proof.
  induction files as [|[nm0 ids0] files IH]; intros name ids Hnd Hin; [destruct Hin|].
  cbn [map fst] in Hnd. apply NoDup_cons_iff in Hnd. destruct Hnd as [Hn0 Hnd].
  cbn [find fst]. destruct (bytes_eqb nm0 name) eqn:E.
  - apply bytes_eqb_true in E. subst nm0. destruct Hin as [Hin|Hin]; [exact (f_equal Some Hin)|].
    exfalso. apply Hn0. apply (in_map fst) in Hin. exact Hin.
  - destruct Hin as [Hin|Hin]; [injection Hin as -> ->; rewrite bytes_eqb_refl in E; discriminate|].
    apply IH; assumption.
Qed.

Lemma ids_of_in name ids : In (name, ids) (lv_files lv) -> ids_of name = ids.
Proof.
  intros Hin. unfold ids_of. destruct (wf_level_parts lv Hwf) as (Hd & _ & _).
  rewrite (find_name _ name ids (distinct_names_NoDup _ Hd) Hin). reflexivity.
Qed.

Lemma ids_of_spec name i : In i (ids_of name) <-> (i < n)%nat /\ fst (loc_of lv i) = name.
Proof.
  unfold ids_of. destruct (find (fun nf : bytes * list nat => bytes_eqb (fst nf) name) (lv_files lv)) as [[nm ids]|] eqn:E.
  - apply find_some in E. destruct E as [Hin E]. cbn [fst] in E. apply bytes_eqb_true in E. subst nm. cbn [snd].
    pose proof (filter_file_perm lv Hwf name ids Hin) as HP. split.
    + intros Hi. apply (Permutation_in _ (Permutation_sym HP)) in Hi. apply filter_In in Hi. destruct Hi as [Hi He].
      apply in_seq in Hi. apply bytes_eqb_true in He. fold n in Hi. split; [lia | exact He].
    + intros [Hi He]. apply (Permutation_in _ HP). apply filter_In. split; [apply in_seq; fold n; lia|].
      rewrite He. apply bytes_eqb_refl.
  - split; [intros []|]. intros [Hi He]. exfalso.
    destruct (locate_total lv i Hwf Hi) as [cc Hloc]. unfold loc_of in He. rewrite Hloc in He.
    destruct (locate_in lv i _ _ Hloc) as (ids & _ & Hin & _). rewrite He in Hin.
    apply (find_none _ _ E) in Hin. cbn [fst] in Hin. rewrite bytes_eqb_refl in Hin. discriminate.
Qed.

Lemma ids_of_nodup name : NoDup (ids_of name).
Proof.
  unfold ids_of. destruct (find (fun nf : bytes * list nat => bytes_eqb (fst nf) name) (lv_files lv)) as [[nm ids]|] eqn:E; [|constructor].
  apply find_some in E. destruct E as [Hin _]. cbn [snd]. exact (file_ids_NoDup lv Hwf nm ids Hin).
Qed.

Lemma locate_name_indep (l1 l2 : level) b : forall files,
  option_map fst (locate l1 files b) = option_map fst (locate l2 files b).
Proof.
  induction files as [|[nm ids] files IH]; [reflexivity|]. cbn [locate].
  destruct (pos_in b ids 0); [reflexivity | exact IH].
Qed.

End IdsOf.
