(* Pipelines of writer tools.  (1) The generic induction: if every operation
   preserves well-formedness and refines its pure counterpart, so does every
   finite sequence, and every intermediate result is well-formed.  (2) The
   two algebraic identities of the property on box contents: straining with
   all fields is the identity, and cooking a field and combining it back
   gives the original fields unchanged followed by the new ones. *)
From AK Require Import Base.Prelude Bytes.Text Bytes.FabHeader Bytes.BinFile
  Reader.Select Reader.BoxRead Reader.Level Reader.ReadSpec Reader.ReadProofs
  Plotfile.TextHeader Taste.Taste Plotfile.Abstract
  Writers.Colander Writers.ColanderSpec Writers.ColanderProofs
  Writers.Combine Writers.CombineProofs Writers.Chef Writers.ChefProofs.

(* ------------------------------------------------------------------ *)
(** * (1) induction over operation sequences *)
Section Pipeline.
Variables (D C Op : Type).                 (* on-disk states, abstract contents, operations *)
Variable wf : D -> Prop.
Variable abs : D -> C.
Variable run1 : Op -> D -> option D.        (* the tool on disk *)
Variable pure1 : Op -> C -> option C.       (* the pure operation on contents *)
Hypothesis op_wf : forall o d d', wf d -> run1 o d = Some d' -> wf d'.
Hypothesis op_refines : forall o d d', wf d -> run1 o d = Some d' -> pure1 o (abs d) = Some (abs d').

Fixpoint run (ops : list Op) (d : D) : option D :=
  match ops with
  | [] => Some d
  | o :: ops' => match run1 o d with Some d' => run ops' d' | None => None end
  end.

Fixpoint pure (ops : list Op) (c : C) : option C :=
  match ops with
  | [] => Some c
  | o :: ops' => match pure1 o c with Some c' => pure ops' c' | None => None end
  end.

(* every prefix of a successful pipeline *)
Fixpoint states (ops : list Op) (d : D) : list D :=
  match ops with
  | [] => [d]
  | o :: ops' => d :: match run1 o d with Some d' => states ops' d' | None => [] end
  end.

Theorem pipeline_refines : forall ops d d',
  wf d -> run ops d = Some d' ->
  wf d' /\ pure ops (abs d) = Some (abs d') /\ Forall wf (states ops d).
Proof.
  induction ops as [|o ops IH]; intros d d' Hwf Hrun; cbn [run pure states] in *.
  - injection Hrun as <-. repeat split; [exact Hwf | constructor; [exact Hwf | constructor]].
  - destruct (run1 o d) as [d1|] eqn:E; [|discriminate].
    rewrite (op_refines o d d1 Hwf E).
    destruct (IH d1 d' (op_wf o d d1 Hwf E) Hrun) as (H1 & H2 & H3).
    repeat split; [exact H1 | exact H2 | constructor; [exact Hwf | exact H3]].
Qed.
End Pipeline.

(* ------------------------------------------------------------------ *)
(** * (2) identities on box contents *)

Lemma chunks_concat (chunk : Z) : forall (n : nat) (data : bytes),
  0 <= chunk -> blen data = chunk * Z.of_nat n ->
  concat (map (fun i => sub (chunk * Z.of_nat i) chunk data) (seq 0 n)) = data.
Proof.
  intros n. induction n as [|n IH]; intros data Hc Hlen.
  - cbn. destruct data; [reflexivity|]. unfold blen in Hlen. cbn in Hlen. lia.
  - cbn [seq map concat].
    assert (H0 : sub (chunk * Z.of_nat 0) chunk data = zfirstn chunk data).
    { unfold sub. cbn [Z.of_nat]. rewrite Z.mul_0_r. unfold zskipn. cbn. reflexivity. }
    rewrite H0. rewrite <- seq_shift, map_map.
    rewrite (map_ext _ (fun i => sub (chunk * Z.of_nat i) chunk (zskipn chunk data))).
    + rewrite IH.
      * unfold zfirstn, zskipn. apply firstn_skipn.
      * exact Hc.
      * rewrite blen_zskipn by nia. nia.
    + intros i. unfold sub. rewrite zskipn_zskipn by nia. f_equal. f_equal. nia.
Qed.

Definition all_comps (n : Z) : list Z := map Z.of_nat (seq 0 (Z.to_nat n)).

Lemma concat_all_comps fb : fab_ok fb = true ->
  concat (map (fab_comp fb) (all_comps (fab_nc fb))) = fab_data fb.
Proof.
  intros Hok. destruct (fab_ok_inv fb Hok) as (_ & _ & _ & _ & Hnc & Hdata).
  pose proof (fab_cells_pos fb Hok) as Hc.
  unfold all_comps. rewrite map_map. unfold fab_comp.
  apply chunks_concat; [lia|]. rewrite Hdata, Z2Nat.id by lia. reflexivity.
Qed.

Lemma blen_all_comps n : 0 <= n -> blen (all_comps n) = n.
Proof. intros H. unfold all_comps, blen. rewrite map_length, seq_length. lia. Qed.

Lemma fab_eq a b : fab_lo a = fab_lo b -> fab_hi a = fab_hi b -> fab_nc a = fab_nc b -> fab_data a = fab_data b -> a = b.
Proof. destruct a, b. cbn. intros -> -> -> ->. reflexivity. Qed.

(* straining with all fields (in order) leaves every box as it is *)
Theorem strain_all_identity : forall fb, fab_ok fb = true -> keep_fab (all_comps (fab_nc fb)) fb = fb.
Proof.
  intros fb Hok. destruct (fab_ok_inv fb Hok) as (_ & _ & _ & _ & Hnc & _).
  apply fab_eq; cbn [keep_fab fab_lo fab_hi fab_nc fab_data]; try reflexivity.
  - apply blen_all_comps. exact Hnc.
  - apply concat_all_comps. exact Hok.
Qed.

(* cooking new fields from a box (keeping nothing) and combining the result
   back into the original box = the original components unchanged, followed by
   the new ones: the box cooking with every field kept would have produced *)
Theorem cook_then_combine : forall fb new,
  fab_ok fb = true -> Forall (fun c => blen c = 8 * fab_cells fb) new ->
  let ck := cooked [] new fb in
  merge_fab (all_comps (fab_nc fb)) (all_comps (fab_nc ck)) fb ck = cooked (all_comps (fab_nc fb)) new fb
  /\ fab_data (cooked (all_comps (fab_nc fb)) new fb) = fab_data fb ++ concat new.
Proof.
  intros fb new Hok Hnew ck.
  destruct (fab_ok_inv fb Hok) as (_ & _ & _ & _ & Hnc & _).
  pose proof (fab_cells_pos fb Hok) as Hc.
  assert (Hck_nc : fab_nc ck = blen new).
  { unfold ck. cbn [cooked fab_nc]. change (blen (@nil Z)) with 0. apply Z.add_0_r. }
  assert (Hck_comps : concat (map (fab_comp ck) (all_comps (fab_nc ck))) = concat new).
  { unfold all_comps. rewrite map_map. unfold fab_comp.
    change (fab_cells ck) with (fab_cells fb). cbn [ck cooked fab_data map app].
    apply chunks_concat; [lia|]. rewrite Hck_nc.
    rewrite (blen_concat_const _ (8 * fab_cells fb) Hnew). unfold blen. rewrite Nat2Z.id. reflexivity. }
  split.
  - apply fab_eq; cbn [merge_fab cooked fab_lo fab_hi fab_nc fab_data]; try reflexivity.
    + assert (E1 : blen (all_comps (fab_nc fb)) = fab_nc fb) by (apply blen_all_comps; exact Hnc).
      assert (E2 : blen (all_comps (fab_nc ck)) = blen new).
      { rewrite blen_all_comps; [exact Hck_nc | rewrite Hck_nc; apply blen_nonneg]. }
      rewrite E1, E2. apply Z.add_comm.
    + fold ck. rewrite Hck_comps. rewrite concat_app. reflexivity.
  - cbn [cooked fab_data]. rewrite concat_app, concat_all_comps by exact Hok. reflexivity.
Qed.
