(* Writing the boxes of a level back file by file, inside a file in ascending
   box order (what colander and combine do): the resulting layout is
   well-formed, a box stays in the file of the same name, and scattering the
   per-file offset lists back to box order gives the offsets table of the new
   layout.  Generic in the new boxes.
   Standard library only, no axioms. *)
From AK Require Import Base.Prelude Bytes.Text Bytes.FabHeader Bytes.FabHeaderProofs
  Bytes.BinFile Reader.Select Reader.BoxRead Reader.Level Reader.ReadSpec
  Reader.LayoutProofs Reader.ReadProofs Reader.IterProofs
  Plotfile.TextHeader Plotfile.HeaderSpec Plotfile.HeaderProofs
  Taste.Taste Taste.TasteSpec Plotfile.Abstract Taste.CompleteProofs Taste.DataProofs
  Writers.Colander Writers.ColanderSpec Writers.ColanderLevelProofs Writers.Chef Writers.ScatterProofs.
From Coq Require Import Permutation Sorted.

Section Relayout.
Variable lv : level.
Hypothesis Hwf : wf_level lv = true.
Variable newfabs : list fab.
Hypothesis Hlen : length newfabs = length (lv_fabs lv).
Hypothesis Hok : forallb fab_ok newfabs = true.

Let n := length (lv_fabs lv).
Let cells := cells_or_nil lv.

Definition relaid : level := {| lv_fabs := newfabs; lv_files := strained_files lv |}.

Theorem wf_relaid : wf_level relaid = true.
Proof.
  unfold wf_level, relaid, strained_files. cbn [lv_fabs lv_files]. fold cells.
  rewrite !map_map. cbn [fst snd]. rewrite map_id, Hlen. fold n.
  repeat (apply andb_true_iff; split).
  - exact Hok.
  - apply NoDup_distinct_names, np_unique_NoDup.
  - apply forallb_forall. intros ids Hids. apply in_map_iff in Hids. destruct Hids as (name & <- & Hname).
    apply (proj1 (np_unique_In _ _)) in Hname. unfold cells in Hname. rewrite (names_eq lv Hwf) in Hname. apply in_map_iff in Hname.
    destruct Hname as (i & Hi & Hin).
    unfold cells. rewrite (ids_in_file_eq lv Hwf).
    destruct (filter (fun i0 => bytes_eqb (fst (loc_of lv i0)) name) (seq 0 (length (lv_fabs lv)))) as [|x l] eqn:E; [|reflexivity].
    exfalso. assert (Hf : In i (filter (fun i0 => bytes_eqb (fst (loc_of lv i0)) name) (seq 0 (length (lv_fabs lv))))).
    { apply filter_In. split; [exact Hin|]. rewrite Hi. apply bytes_eqb_refl. }
    rewrite E in Hf. destruct Hf.
  - apply forallb_forall. intros i Hi. apply in_concat in Hi. destruct Hi as (ids & Hids & Hi).
    apply in_map_iff in Hids. destruct Hids as (name & <- & _).
    unfold cells in Hi. rewrite (ids_in_file_eq lv Hwf) in Hi. apply filter_In in Hi. destruct Hi as [Hi _]. apply in_seq in Hi.
    apply Nat.ltb_lt. unfold n. lia.
  - apply forallb_forall. intros b Hb. apply in_seq in Hb.
    apply Nat.eqb_eq.
    rewrite (map_ext _ (fun name => filter (fun i => bytes_eqb (fst (loc_of lv i)) name) (seq 0 n)))
      by (intros name; unfold cells; apply (ids_in_file_eq lv Hwf)).
    rewrite (count_nat_by_name (fun i => fst (loc_of lv i)) n b ltac:(lia) _ (np_unique_NoDup _)).
    replace (existsb (bytes_eqb (fst (loc_of lv b))) (np_unique (map fst cells))) with true; [reflexivity|].
    symmetry. apply existsb_exists. exists (fst (loc_of lv b)). split; [|apply bytes_eqb_refl].
    apply np_unique_In. unfold cells. rewrite (names_eq lv Hwf). apply in_map_iff. exists b. split; [reflexivity|apply in_seq; lia].
Qed.

Definition asc_ids (name : bytes) : list nat := ids_in_file cells name.

Lemma asc_ids_spec name i : In i (asc_ids name) <-> (i < n)%nat /\ fst (loc_of lv i) = name.
Proof. apply (asc_spec lv Hwf). Qed.

Lemma asc_ids_NoDup name : NoDup (asc_ids name).
Proof. apply (asc_NoDup lv Hwf). Qed.

Lemma relaid_files_In name : In name (np_unique (map fst cells)) -> In (name, asc_ids name) (lv_files relaid).
Proof.
  intros H. unfold relaid, strained_files. cbn [lv_files]. fold cells. apply in_map_iff. exists name. split; [reflexivity | exact H].
Qed.

Lemma name_in i : (i < n)%nat -> In (fst (loc_of lv i)) (np_unique (map fst cells)).
Proof.
  intros Hi. apply np_unique_In. unfold cells. rewrite (names_eq lv Hwf). apply in_map_iff. exists i.
  split; [reflexivity | apply in_seq; fold n; lia].
Qed.

Lemma relaid_cells : cells_or_nil relaid = map (loc_of relaid) (seq 0 n).
Proof. rewrite (proj2 (cells_or_nil_spec relaid wf_relaid)). cbn [relaid lv_fabs]. rewrite Hlen. reflexivity. Qed.

(* where box i lies in the new layout *)
Lemma relaid_loc i : (i < n)%nat ->
  loc_of relaid i = (fst (loc_of lv i),
                     fab_offset (file_fabs relaid (asc_ids (fst (loc_of lv i)))) (posn (asc_ids (fst (loc_of lv i))) i)).
Proof.
  intros Hi. set (name := fst (loc_of lv i)).
  assert (Hin : In i (asc_ids name)) by (apply asc_ids_spec; split; [exact Hi | reflexivity]).
  destruct (pos_in_complete i _ 0%nat Hin) as [k Hk]. destruct (pos_in_spec _ _ _ Hk) as [Hnth Hkl].
  pose proof (locate_nth relaid wf_relaid name (asc_ids name) (relaid_files_In name (name_in i Hi)) k Hkl) as Hloc.
  rewrite Hnth in Hloc. unfold loc_of at 1. rewrite Hloc. unfold posn. rewrite Hk. reflexivity.
Qed.

Lemma relaid_names : map fst (cells_or_nil relaid) = map fst cells.
Proof.
  rewrite relaid_cells. unfold cells. rewrite (proj2 (cells_or_nil_spec lv Hwf)). fold n. rewrite !map_map.
  apply map_ext_in. intros i Hi. apply in_seq in Hi. rewrite (relaid_loc i ltac:(lia)). reflexivity.
Qed.

(* the offsets of the boxes of one new file, in the file's (ascending) order *)
Definition file_offsets (name : bytes) : list Z :=
  map (fun j => fab_offset (file_fabs relaid (asc_ids name)) j) (seq 0 (length (asc_ids name))).

Theorem scatter_offsets : forall acc0, length acc0 = n ->
  fold_left (fun acc name => scatter (asc_ids name) (file_offsets name) acc) (np_unique (map fst cells)) acc0
  = map snd (cells_or_nil relaid).
Proof.
  intros acc0 Hacc.
  rewrite (fold_left_ext _ (fun a name => scatter_rows (asc_ids name) (file_offsets name) a) (fun a name => scatter_is_rows _ _ a)).
  rewrite relaid_cells, map_map.
  apply (nth_ext _ _ 0 0).
  - rewrite fold_scatter_rows_length, map_length, seq_length. exact Hacc.
  - intros i Hi. rewrite fold_scatter_rows_length, Hacc in Hi.
    rewrite (fold_scatter_rows 0 n (fun i => fst (loc_of lv i)) asc_ids file_offsets asc_ids_spec asc_ids_NoDup);
      [| intros name; unfold file_offsets; rewrite map_length, seq_length; reflexivity | exact Hi | apply np_unique_NoDup | exact Hacc].
    replace (existsb (bytes_eqb (fst (loc_of lv i))) (np_unique (map fst cells))) with true.
    2:{ symmetry. apply existsb_exists. exists (fst (loc_of lv i)). split; [apply name_in; exact Hi | apply bytes_eqb_refl]. }
    rewrite (nth_indep (map (fun x => snd (loc_of relaid x)) (seq 0 n)) 0 (snd (loc_of relaid 0%nat))) by (rewrite map_length, seq_length; exact Hi).
    rewrite (map_nth (fun x => snd (loc_of relaid x))), seq_nth by exact Hi. cbn [Nat.add].
    rewrite (relaid_loc i Hi). cbn [snd].
    set (ids := asc_ids (fst (loc_of lv i))).
    assert (Hin : In i ids) by (apply asc_ids_spec; split; [exact Hi | reflexivity]).
    destruct (pos_in_complete i _ 0%nat Hin) as [k Hk]. destruct (pos_in_spec _ _ _ Hk) as [Hnth Hkl].
    unfold posn. rewrite Hk. unfold file_offsets. fold ids.
    rewrite (nth_indep _ 0 (fab_offset (file_fabs relaid ids) 0%nat)) by (rewrite map_length, seq_length; exact Hkl).
    rewrite (map_nth (fun j => fab_offset (file_fabs relaid ids) j)), seq_nth by exact Hkl. reflexivity.
Qed.

(* the binary files of the new layout *)
Lemma relaid_disk :
  lv_disk relaid = map (fun name => (name, encode_file (file_fabs relaid (asc_ids name)))) (np_unique (map fst cells)).
Proof.
  unfold lv_disk. change (lv_files relaid) with (map (fun name => (name, asc_ids name)) (np_unique (map fst cells))).
  rewrite map_map. reflexivity.
Qed.
End Relayout.
