(* Chains of colander and combine runs that end with a chef run: the chain
   succeeds, every intermediate directory is the image of a good plotfile, and
   the cooked directory is the image of the cooked plotfile of the composed pure
   operations.  (A cooked plotfile carries bit-pattern min/max tokens and is not
   a 'good' plotfile of the model: chef closes a chain, it does not continue it.)
   Standard library only, no axioms. *)
From AK Require Import Base.Prelude Bytes.Text Bytes.FabHeader Bytes.BinFile
  Reader.Select Reader.BoxRead Reader.Level Reader.ReadSpec
  Plotfile.TextHeader Plotfile.HeaderSpec Taste.Taste Plotfile.Abstract
  Writers.Colander Writers.ColanderSpec Writers.ColanderPipeline Writers.Pipeline
  Writers.Combine Writers.CombineSpec Writers.CombinePipeline
  Writers.Chef Writers.ChefToolProofs.

Theorem strain_combine_then_chef : forall ops pf pf' recipe keep outnames,
  good pf -> Forall kop_ok ops -> kpure ops pf = Some pf' ->
  g_ndims (pf_g pf') = 3 -> 0 <= g_max_level (pf_g pf') ->
  Forall (fun i => 0 <= i < pf_nfields pf') keep ->
  (forall k pl, nth_error (pf_levels pf') k = Some pl -> recipe_fits recipe keep outnames k pl) ->
  (do d <- run pdisk kop kop_tool ops (pf_disk pf); chef recipe keep outnames d)
  = Some (pf_disk (chef_spec recipe keep outnames pf')) /\
  Forall (fun d => exists p, good p /\ d = pf_disk p) (states pdisk kop kop_tool ops (pf_disk pf)).
Proof.
  intros ops pf pf' recipe keep outnames Hg Hok Hrun Hnd Hlim Hkeep Hfit.
  destruct (strain_combine_pipeline ops pf pf' Hg Hok Hrun) as (H1 & (W & S & _ & _) & H3).
  split; [|exact H3]. rewrite H1. cbn [obind].
  exact (chef_refines recipe keep outnames pf' W S Hnd Hlim Hkeep Hfit).
Qed.

Print Assumptions strain_combine_then_chef.
