(* amr_kitchen/colander/colander.py as a function from the input directory
   image to the output directory image. *)
From AK Require Import Base.Prelude Bytes.Text Bytes.FabHeader Bytes.BinFile
  Reader.Select Reader.BoxRead Reader.Level Plotfile.TextHeader Taste.Taste.

(* ---- str.replace(old, new) for a non-empty [old] ---- *)
Fixpoint is_prefix (p s : bytes) : bool :=
  match p, s with
  | [], _ => true
  | x :: p', y :: s' => Ascii.eqb x y && is_prefix p' s'
  | _ :: _, [] => false
  end.

Fixpoint replace_aux (old new : bytes) (skip : nat) (s : bytes) : bytes :=
  match s with
  | [] => []
  | c :: s' =>
      match skip with
      | S k => replace_aux old new k s'
      | O => if is_prefix old s then new ++ replace_aux old new (length old - 1) s'
             else c :: replace_aux old new 0 s'
      end
  end.
Definition py_replace (old new s : bytes) : bytes := replace_aux old new 0 s.

(* ---- variable resolution: Colander.__init__ ---- *)
(* -> (kept field indices, kept names); unknown names are skipped
   (allow_missing=True), order and repeats are kept *)
Definition resolve_vars (keys : list bytes) (vars : list bytes) : list Z * list bytes :=
  match vars with
  | [v] =>
      if bytes_eqb v (bs "all")
      then (map Z.of_nat (seq 0 (length keys)), keys)
      else (match field_index keys v with Some i => ([i], [v]) | None => ([], []) end)
  | _ =>
      (concat (map (fun v => match field_index keys v with Some i => [i] | None => [] end) vars),
       filter (fun v => mem v keys) vars)
  end.

(* ---- the worker: parallel_strain_2d / _3d ---- *)
(* numpy fancy indexing on the last axis with bounds check and wrap *)
Definition comps_norm (n : Z) (kept : list Z) : option (list Z) := omap_all (norm_index n) kept.

Fixpoint strain_boxes (f : bytes) (nvars : Z) (kept : list Z)
         (boxes : list (list Z * list Z * Z)) (out : bytes) : option (bytes * list Z) :=
  match boxes with
  | [] => Some (out, [])
  | (lo, hi, off) :: rest =>
      guard (0 <=? off);
      let line := readline f off in
      guard is_ascii line;
      let nkept := blen kept in
      let header_w := py_replace (str_of_Z nvars ++ [nl]) (str_of_Z nkept ++ [nl]) line in
      do shp <- np_binop (fun h l => h - l + 1) hi lo;
      let total := shp ++ [nvars] in
      let data := fromfile f (off + blen line) (zprod total) in
      guard reshape_ok data total;
      do comps <- comps_norm nvars kept;
      let arr_out := take_comps (8 * zprod shp) comps data in
      do r <- strain_boxes f nvars kept rest (out ++ header_w ++ arr_out);
      Some (fst r, blen out :: snd r)
  end.

(* ---- one level: strain() loop body ---- *)
Fixpoint zip_boxes (ix : list (list Z * list Z)) (fs : list bytes) (os : list Z)
  : list (list Z * list Z * bytes * Z) :=
  match ix, fs, os with
  | (lo, hi) :: ix', f :: fs', o :: os' => (lo, hi, f, o) :: zip_boxes ix' fs' os'
  | _, _, _ => []
  end.

(* boxes stored in file [name], in box-index order, with their box index *)
Fixpoint boxes_of_file (name : bytes) (l : list (list Z * list Z * bytes * Z)) (k : nat)
  : list (nat * (list Z * list Z * Z)) :=
  match l with
  | [] => []
  | (lo, hi, f, o) :: l' =>
      if bytes_eqb f name then (k, (lo, hi, o)) :: boxes_of_file name l' (S k)
      else boxes_of_file name l' (S k)
  end.

Fixpoint set_nth {A} (n : nat) (x : A) (l : list A) : list A :=
  match l, n with
  | [], _ => []
  | _ :: l', O => x :: l'
  | y :: l', S n' => y :: set_nth n' x l'
  end.

Fixpoint scatter (idxs : list nat) (vals : list Z) (acc : list Z) : list Z :=
  match idxs, vals with
  | i :: idxs', v :: vals' => scatter idxs' vals' (set_nth i v acc)
  | _, _ => acc
  end.

(* returns the new binary files and the new offsets in box order *)
Definition strain_level (files : list (bytes * bytes)) (c : cellh) (nvars : Z) (kept : list Z)
  : option (list (bytes * bytes) * list Z) :=
  let all := zip_boxes (c_indexes c) (c_files c) (c_offsets c) in
  let names := np_unique (c_files c) in
  do results <- omap_all (fun name =>
                            do f <- lookup name files;
                            let bx := boxes_of_file name all 0 in
                            do r <- strain_boxes f nvars kept (map snd bx) [];
                            Some (name, fst r, map fst bx, snd r)) names;
  let newfiles := map (fun r => (fst (fst (fst r)), snd (fst (fst r)))) results in
  let offs := fold_left (fun acc r => scatter (snd (fst r)) (snd r) acc) results
                        (map (fun _ => 0) (c_indexes c)) in
  Some (newfiles, offs).

(* ---- update_cell_header: text to text ---- *)
Definition fod : bytes := bs "FabOnDisk:".
Definition has_fod (l : line) : bool := existsb (fun t => bytes_eqb t fod) l.

Fixpoint copy_until_fod (fuel : nat) (t : text) (acc : text) : option (text * line * text) :=
  match fuel with
  | O => None
  | S fuel' =>
      match t with
      | [] => None                    (* the real loop would spin forever at EOF *)
      | l :: t' => if has_fod l then Some (acc, l, t') else copy_until_fod fuel' t' (acc ++ [l])
      end
  end.

Definition set_last_token (l : line) (tok : token) : line := drop_last l ++ [tok].

Fixpoint rewrite_fods (offs : list Z) (t : text) : option (text * text) :=
  match offs with
  | [] => Some ([], t)
  | o :: offs' =>
      match t with
      | [] => (* readline() at EOF gives '', split()[:-1] = [] *)
              do r <- rewrite_fods offs' []; Some ([str_of_Z o] :: fst r, snd r)
      | l :: t' => do r <- rewrite_fods offs' t'; Some (set_last_token l (str_of_Z o) :: fst r, snd r)
      end
  end.

(* np.array(row)[kept_fields] on strings *)
Definition project_row (kept : list Z) (row : list token) : option (list token) :=
  omap_all (fun i => do j <- norm_index (blen row) i; znth j row) kept.

(* ','.join(values) + ',' : differs from TextHeader.row_token only on the empty row *)
Definition row_token_w (r : list token) : token := join_with (bs ",") r ++ bs ",".

Definition minmax_block (kept : list Z) : P text :=
  pdo blank <- rline;
  pdo l <- rline;
  match split_on ","%char (join_line l) with
  | [ncells; _] =>
      pdo n <- of_opt (py_int ncells);
      pdo rows <- prepeat (Z.to_nat n)
                    (pdo l <- rline;
                     of_opt (project_row kept (drop_last (split_on ","%char (join_line l)))));
      pret ([blank; [ncells ++ bs "," ++ str_of_Z (blen kept)]]
            ++ map (fun r => [row_token_w r]) rows)
  | _ => pfail
  end.

Definition update_cell_header (t : text) (kept : list Z) (offs : list Z) : option text :=
  match t with
  | l0 :: l1 :: _ :: t3 =>
      match offs with
      | [] => None                                  (* new_offsets[0] raises *)
      | o0 :: offs' =>
          do r <- copy_until_fod (S (length t3)) t3 [];
          let '(mesh, fl, rest) := r in
          do r2 <- rewrite_fods offs' rest;
          match minmax_block kept (snd r2) with
          | None => None
          | Some (mins, rest2) =>
              match minmax_block kept rest2 with
              | None => None
              | Some (maxs, _) =>
                  Some ([l0; l1; [str_of_Z (blen kept)]] ++ mesh
                        ++ [set_last_token fl (str_of_Z o0)] ++ fst r2 ++ mins ++ maxs)
              end
          end
      end
  | _ => None
  end.

(* ---- write_strained_global_header ---- *)
Definition level_name (lv : Z) : bytes := bs "Level_" ++ str_of_Z lv.

Definition strained_header (op : opened) (kept : list Z) (names : list bytes) : text :=
  let g := o_g op in
  let lim := o_limit op in
  let n := Z.to_nat (lim + 1) in
  let g' := {| g_version := g_version g; g_names := names; g_ndims := g_ndims g;
               g_time := g_time g; g_max_level := lim;
               g_geo_low := g_geo_low g; g_geo_high := g_geo_high g;
               g_factors := if 0 <? lim then firstn n (g_factors g) else [];
               g_grid_hi := firstn n (g_grid_hi g);
               g_steps := firstn n (g_steps g);
               g_dx := firstn n (g_dx g);
               g_sys_coord := g_sys_coord g |} in
  let lvs := map (fun kl =>
                    {| lb_ncells := blen (lb_boxes (snd kl));
                       lb_step_line := [str_of_Z (nth (fst kl) (g_steps g) 0)];
                       lb_boxes := lb_boxes (snd kl);
                       lb_cell_dir := level_name (Z.of_nat (fst kl));
                       lb_time_tok := g_time g |})
                 (combine (seq 0 (length (o_levels op))) (o_levels op)) in
  (* the number-of-fields line counts kept_fields, the names are kept_names *)
  match print_header g' lvs with
  | v :: _ :: rest => v :: [str_of_Z (blen kept)] :: rest
  | t => t
  end.

(* ---- Colander(plotfile, limit, output, variables).strain() ---- *)
Definition colander (vars : list bytes) (limit : option Z) (d : pdisk) : option pdisk :=
  do ht <- pd_header d;
  do op <- open_header ht limit;
  do lvs <- open_levels d op false;
  (* parallel_strain exists for 2 and 3 dimensions only *)
  guard ((g_ndims (o_g op) =? 2) || (g_ndims (o_g op) =? 3));
  let nvars := blen (g_names (o_g op)) in      (* self.nvars: the header count *)
  let '(kept, names) := resolve_vars (o_keys op) vars in
  do dirs <- omap_all (fun lbc =>
                         let lb := fst lbc in
                         let ld := fst (snd lbc) in
                         let c := snd (snd lbc) in
                         (* 3D worker indexes shape[2]; 2D worker ignores a third entry *)
                         do r <- strain_level (ld_files ld) c nvars kept;
                         do t <- ld_cellh ld;
                         do t' <- update_cell_header t kept (snd r);
                         Some (lb_cell_dir lb, {| ld_cellh := Some t'; ld_files := fst r |}))
                      (combine (o_levels op) lvs);
  Some {| pd_header := Some (strained_header op kept names); pd_dirs := dirs |}.
