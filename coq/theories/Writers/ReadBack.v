(* What a user READS from a tool's output: every level of every plotfile a
   chain of colander / combine / chef runs produces is read back by the indexing
   interface exactly as the abstract contents of the composed pure operations
   say - for every field selection the selector accepts and every box selector.
   (Composition of the tool-level refinement theorems with the reader theorem.)
   Standard library only, no axioms. *)
From AK Require Import Base.Prelude Bytes.Text Bytes.FabHeader Bytes.BinFile
  Reader.Select Reader.BoxRead Reader.Level Reader.ReadSpec Reader.LayoutProofs Reader.ReadProofs Reader.GetItemProofs Reader.IterProofs
  Plotfile.TextHeader Plotfile.HeaderSpec Taste.Taste Plotfile.Abstract Taste.CompleteProofs
  Writers.Colander Writers.ColanderSpec Writers.ColanderPipeline Writers.Pipeline
  Writers.Combine Writers.CombineSpec Writers.CombinePipeline
  Writers.Chef Writers.ChefToolProofs Writers.FullPipeline.

(* a level of a good plotfile: the reader returns the specification on its binary files and (file, offset) table *)
Lemma good_level_readable : forall pf pl a s,
  good pf -> In pl (pf_levels pf) ->
  (forall fb, In fb (lv_fabs (pl_level pl)) -> exists r, spec_read fb a = Some r) ->
  stream_getitem (lv_disk (pl_level pl)) (cells_or_nil (pl_level pl)) a s = spec_getitem (pl_level pl) a s.
Proof.
  intros pf pl a s ((_ & _ & _ & Hlv) & _) Hin Hsel.
  rewrite Forall_forall in Hlv. destruct (Hlv pl Hin) as (_ & Hwl & _).
  exact (stream_getitem_spec (pl_level pl) _ a s Hwl (proj1 (cells_or_nil_spec _ Hwl)) Hsel).
Qed.

(* the directory of that level is those binary files and the print of that table *)
Lemma level_dir_of_good : forall pf pl, In pl (pf_levels pf) ->
  In (lb_cell_dir (pl_boxes pl),
      {| ld_cellh := Some (print_cellh (pf_nfields pf) (pl_cellh pl)); ld_files := lv_disk (pl_level pl) |})
     (pd_dirs (pf_disk pf)).
Proof. intros pf pl Hin. unfold pf_disk. cbn [pd_dirs]. apply in_map_iff. exists pl. split; [reflexivity | exact Hin]. Qed.

Theorem chain_output_readable : forall ops pf pf' pl a s,
  good pf -> Forall fop_ok ops -> fpure ops pf = Some pf' ->
  In pl (pf_levels pf') ->
  (forall fb, In fb (lv_fabs (pl_level pl)) -> exists r, spec_read fb a = Some r) ->
  run pdisk fop fop_tool ops (pf_disk pf) = Some (pf_disk pf') /\
  In (lb_cell_dir (pl_boxes pl),
      {| ld_cellh := Some (print_cellh (pf_nfields pf') (pl_cellh pl)); ld_files := lv_disk (pl_level pl) |})
     (pd_dirs (pf_disk pf')) /\
  stream_getitem (lv_disk (pl_level pl)) (cells_or_nil (pl_level pl)) a s = spec_getitem (pl_level pl) a s.
Proof.
  intros ops pf pf' pl a s Hg Hok H Hin Hsel.
  destruct (full_pipeline ops pf pf' Hg Hok H) as (Hrun & Hg' & _).
  split; [exact Hrun|]. split; [exact (level_dir_of_good pf' pl Hin) | exact (good_level_readable pf' pl a s Hg' Hin Hsel)].
Qed.

(* ... and iterating a field selection over such a level yields every box exactly once with the contents the composed
   pure operations give it (a permutation of the per-box reads) *)
Theorem chain_output_iterable : forall ops pf pf' pl a rs,
  good pf -> Forall fop_ok ops -> fpure ops pf = Some pf' ->
  In pl (pf_levels pf') ->
  omap_all (fun fb => spec_read fb a) (lv_fabs (pl_level pl)) = Some rs ->
  exists out, stream_iter_all (lv_disk (pl_level pl)) (cells_or_nil (pl_level pl)) a = Some out /\ Permutation.Permutation out rs.
Proof.
  intros ops pf pf' pl a rs Hg Hok H Hin Hrs.
  destruct (full_pipeline ops pf pf' Hg Hok H) as (_ & ((_ & _ & _ & Hlv) & _) & _).
  rewrite Forall_forall in Hlv. destruct (Hlv pl Hin) as (_ & Hwl & Hne & _).
  exact (stream_iter_all_perm (pl_level pl) _ a rs Hwl (proj1 (cells_or_nil_spec _ Hwl)) Hne Hrs).
Qed.

Print Assumptions chain_output_readable.
Print Assumptions chain_output_iterable.
