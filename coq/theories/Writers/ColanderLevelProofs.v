(* colander, one level: strain_level on the binary files of ANY well-formed
   level (any box -> file distribution, any on-disk order) produces exactly the
   binary files of the strained level - same file names, inside a file the
   kept components of its boxes in box order - and the offsets table of that
   layout, in box order.  (Colander.strain: per-file tasks, results scattered
   back to box order.)
   Standard library only, no axioms. *)
From AK Require Import Base.Prelude Bytes.Text Bytes.FabHeader Bytes.FabHeaderProofs
  Bytes.BinFile Reader.Select Reader.BoxRead Reader.Level Reader.ReadSpec
  Reader.LayoutProofs Reader.ReadProofs Reader.IterProofs
  Plotfile.TextHeader Plotfile.HeaderSpec Plotfile.HeaderProofs
  Taste.Taste Taste.TasteSpec Plotfile.Abstract Taste.CompleteProofs Taste.DataProofs
  Writers.Colander Writers.ColanderSpec Writers.ColanderSpecProofs Writers.ColanderProofs.
From Coq Require Import Permutation Sorted.

(* ------------------------------------------------------------------ *)
(** * list facts *)
Lemma NoDup_distinct_names : forall l, NoDup l -> distinct_names l = true.
Proof.
  induction l as [|x l IH]; intros H; [reflexivity|]. inversion H as [|? ? Hx Hl]; subst.
  cbn [distinct_names]. rewrite (IH Hl), andb_true_r.
  destruct (existsb (bytes_eqb x) l) eqn:E; [|reflexivity].
  apply existsb_exists in E. destruct E as (y & Hy & E). apply bytes_eqb_true in E. subst y. contradiction.
Qed.

Lemma count_nat_filter_seq (p : nat -> bool) b : forall n s,
  count_nat b (filter p (seq s n)) = if ((s <=? b)%nat && (b <? s + n)%nat && p b)%bool then 1%nat else 0%nat.
Proof.
  induction n as [|n IH]; intros s.
  - cbn [seq filter count_nat]. destruct (s <=? b)%nat eqn:E1, (b <? s + 0)%nat eqn:E2; cbn [andb]; try reflexivity.
    apply Nat.leb_le in E1. apply Nat.ltb_lt in E2. lia.
  - cbn [seq filter]. destruct (p s) eqn:Ep.
    + cbn [count_nat]. rewrite IH. destruct (Nat.eqb_spec b s) as [->|Hne].
      * rewrite Ep. rewrite Nat.leb_refl.
        replace (s <? s + S n)%nat with true by (symmetry; apply Nat.ltb_lt; lia).
        replace (S s <=? s)%nat with false by (symmetry; apply Nat.leb_gt; lia). reflexivity.
      * destruct (s <=? b)%nat eqn:E1, (S s <=? b)%nat eqn:E3, (b <? s + S n)%nat eqn:E2, (b <? S s + n)%nat eqn:E4;
          cbn [andb]; try reflexivity;
          repeat match goal with
                 | H : (_ <=? _)%nat = true |- _ => apply Nat.leb_le in H
                 | H : (_ <=? _)%nat = false |- _ => apply Nat.leb_gt in H
                 | H : (_ <? _)%nat = true |- _ => apply Nat.ltb_lt in H
                 | H : (_ <? _)%nat = false |- _ => apply Nat.ltb_ge in H
                 end; try lia.
    + rewrite IH. destruct (Nat.eqb_spec b s) as [->|Hne].
      * rewrite Ep, !andb_false_r.
        replace (S s <=? s)%nat with false by (symmetry; apply Nat.leb_gt; lia). reflexivity.
      * destruct (s <=? b)%nat eqn:E1, (S s <=? b)%nat eqn:E3, (b <? s + S n)%nat eqn:E2, (b <? S s + n)%nat eqn:E4;
          cbn [andb]; try reflexivity;
          repeat match goal with
                 | H : (_ <=? _)%nat = true |- _ => apply Nat.leb_le in H
                 | H : (_ <=? _)%nat = false |- _ => apply Nat.leb_gt in H
                 | H : (_ <? _)%nat = true |- _ => apply Nat.ltb_lt in H
                 | H : (_ <? _)%nat = false |- _ => apply Nat.ltb_ge in H
                 end; try lia.
Qed.

(* each index lies in the list of exactly one of the distinct names *)
Lemma count_nat_by_name (g : nat -> bytes) n b : (b < n)%nat -> forall names, NoDup names ->
  count_nat b (concat (map (fun name => filter (fun i => bytes_eqb (g i) name) (seq 0 n)) names))
  = if existsb (bytes_eqb (g b)) names then 1%nat else 0%nat.
Proof.
  intros Hb. induction names as [|a names IH]; intros Hnd; [reflexivity|].
  inversion Hnd as [|? ? Ha Hnd']; subst.
  cbn [map concat existsb]. rewrite count_nat_app, (IH Hnd'), count_nat_filter_seq.
  replace (0 <=? b)%nat with true by (symmetry; apply Nat.leb_le; lia).
  replace (b <? 0 + n)%nat with true by (symmetry; apply Nat.ltb_lt; lia). cbn [andb].
  destruct (bytes_eqb (g b) a) eqn:E; cbn [orb].
  - apply bytes_eqb_true in E. subst a.
    destruct (existsb (bytes_eqb (g b)) names) eqn:E2; [|reflexivity].
    apply existsb_exists in E2. destruct E2 as (y & Hy & E2). apply bytes_eqb_true in E2. subst y. contradiction.
  - reflexivity.
Qed.


(* ------------------------------------------------------------------ *)
(** * scattering per-file results back to box order *)
Lemma set_nth_length {A} (x : A) : forall l k, length (set_nth k x l) = length l.
Proof. induction l as [|y l IH]; intros [|k]; cbn [set_nth length]; try reflexivity. rewrite IH. reflexivity. Qed.

Lemma set_nth_nth {A} (x d : A) : forall l k i, (k < length l)%nat ->
  nth i (set_nth k x l) d = if (i =? k)%nat then x else nth i l d.
Proof.
  induction l as [|y l IH]; intros k i Hk; [cbn in Hk; lia|].
  destruct k as [|k]; cbn [set_nth].
  - destruct i as [|i]; reflexivity.
  - destruct i as [|i]; [reflexivity|]. cbn [nth length] in *. rewrite IH by lia. reflexivity.
Qed.

Lemma scatter_length : forall idxs vals acc, length (scatter idxs vals acc) = length acc.
Proof.
  induction idxs as [|j idxs IH]; intros [|v vals] acc; cbn [scatter]; try reflexivity.
  rewrite IH, set_nth_length. reflexivity.
Qed.

Lemma scatter_nth (d : Z) : forall idxs vals acc, length idxs = length vals -> NoDup idxs ->
  (forall j, In j idxs -> (j < length acc)%nat) ->
  forall i, (forall k, nth_error idxs k = Some i -> nth i (scatter idxs vals acc) d = nth k vals d) /\
            (~ In i idxs -> nth i (scatter idxs vals acc) d = nth i acc d).
Proof.
  induction idxs as [|j idxs IH]; intros vals acc Hlen Hnd Hlt i.
  - split; [intros [|k] H; discriminate | intros _; reflexivity].
  - destruct vals as [|v vals]; [discriminate|]. cbn [length] in Hlen. inversion Hnd as [|? ? Hj Hnd']; subst.
    cbn [scatter].
    assert (Hlt' : forall j0, In j0 idxs -> (j0 < length (set_nth j v acc))%nat)
      by (intros j0 H0; rewrite set_nth_length; apply Hlt; right; exact H0).
    destruct (IH vals (set_nth j v acc) ltac:(lia) Hnd' Hlt' i) as [IH1 IH2].
    assert (Hjl : (j < length acc)%nat) by (apply Hlt; left; reflexivity).
    split.
    + intros [|k] Hk; cbn [nth_error] in Hk.
      * injection Hk as ->. rewrite (IH2 Hj), set_nth_nth by exact Hjl. rewrite Nat.eqb_refl. reflexivity.
      * cbn [nth]. apply IH1. exact Hk.
    + intros Hni. rewrite IH2 by (intros H; apply Hni; right; exact H).
      rewrite set_nth_nth by exact Hjl.
      destruct (Nat.eqb_spec i j) as [->|Hne]; [exfalso; apply Hni; left; reflexivity | reflexivity].
Qed.

(* ------------------------------------------------------------------ *)
(** * the strained layout *)
Section Level.
Variable lv : level.
Hypothesis Hwf : wf_level lv = true.
Variable kept : list Z.
Variable nvars : Z.
Hypothesis Hnc : Forall (fun fb => fab_nc fb = nvars) (lv_fabs lv).
Hypothesis Hkept : Forall (fun i => 0 <= i < nvars) kept.

Let n := length (lv_fabs lv).
Let cells := cells_or_nil lv.

Definition strained_lv : level :=
  {| lv_fabs := map (keep_fab kept) (lv_fabs lv); lv_files := strained_files lv |}.

Lemma cells_eq : cells = map (loc_of lv) (seq 0 n).
Proof. exact (proj2 (cells_or_nil_spec lv Hwf)). Qed.

Lemma cells_length : length cells = n.
Proof. rewrite cells_eq, map_length, seq_length. reflexivity. Qed.

Lemma ids_in_file_eq name :
  ids_in_file cells name = filter (fun i => bytes_eqb (fst (loc_of lv i)) name) (seq 0 n).
Proof.
  unfold ids_in_file. rewrite cells_length. apply filter_ext_in. intros i Hi. apply in_seq in Hi.
  rewrite cells_eq. rewrite (nth_indep _ ([], 0) (loc_of lv 0%nat)) by (rewrite map_length, seq_length; lia).
  rewrite (map_nth (loc_of lv)), seq_nth by lia. reflexivity.
Qed.

Lemma names_eq : map fst cells = map (fun i => fst (loc_of lv i)) (seq 0 n).
Proof. rewrite cells_eq, map_map. reflexivity. Qed.

Theorem wf_strained : wf_level strained_lv = true.
Proof.
  unfold wf_level, strained_lv, strained_files. cbn [lv_fabs lv_files]. fold cells.
  rewrite !map_map. cbn [fst snd]. rewrite map_id.
  repeat (apply andb_true_iff; split).
  - apply forallb_forall. intros fb Hfb. apply in_map_iff in Hfb. destruct Hfb as (fb0 & <- & Hfb0).
    pose proof (wf_level_fabs_ok lv Hwf) as Hok. rewrite forallb_forall in Hok.
    apply keep_fab_ok; [apply Hok; exact Hfb0|].
    rewrite Forall_forall in Hnc. rewrite (Hnc _ Hfb0). exact Hkept.
  - apply NoDup_distinct_names, np_unique_NoDup.
  - apply forallb_forall. intros ids Hids. apply in_map_iff in Hids. destruct Hids as (name & <- & Hname).
    apply (proj1 (np_unique_In _ _)) in Hname. rewrite names_eq in Hname. apply in_map_iff in Hname.
    destruct Hname as (i & Hi & Hin).
    rewrite ids_in_file_eq.
    destruct (filter (fun i0 => bytes_eqb (fst (loc_of lv i0)) name) (seq 0 n)) as [|x l] eqn:E; [|reflexivity].
    exfalso. assert (Hf : In i (filter (fun i0 => bytes_eqb (fst (loc_of lv i0)) name) (seq 0 n))).
    { apply filter_In. split; [exact Hin|]. rewrite Hi. apply bytes_eqb_refl. }
    rewrite E in Hf. destruct Hf.
  - apply forallb_forall. intros i Hi. apply in_concat in Hi. destruct Hi as (ids & Hids & Hi).
    apply in_map_iff in Hids. destruct Hids as (name & <- & _).
    rewrite ids_in_file_eq in Hi. apply filter_In in Hi. destruct Hi as [Hi _]. apply in_seq in Hi.
    rewrite map_length. apply Nat.ltb_lt. fold n. lia.
  - apply forallb_forall. intros b Hb. apply in_seq in Hb. rewrite map_length in Hb. fold n in Hb.
    apply Nat.eqb_eq.
    rewrite (map_ext _ (fun name => filter (fun i => bytes_eqb (fst (loc_of lv i)) name) (seq 0 n)))
      by (intros name; apply ids_in_file_eq).
    rewrite (count_nat_by_name (fun i => fst (loc_of lv i)) n b ltac:(lia) _ (np_unique_NoDup _)).
    replace (existsb (bytes_eqb (fst (loc_of lv b))) (np_unique (map fst cells))) with true; [reflexivity|].
    symmetry. apply existsb_exists. exists (fst (loc_of lv b)). split; [|apply bytes_eqb_refl].
    apply np_unique_In. rewrite names_eq. apply in_map_iff. exists b. split; [reflexivity|apply in_seq; lia].
Qed.

(* ------------------------------------------------------------------ *)
(** * where a box lies in its file *)
Definition posn (ids : list nat) (i : nat) : nat :=
  match pos_in i ids 0 with Some k => k | None => 0%nat end.

Lemma loc_in_file name ids i :
  In (name, ids) (lv_files lv) -> (i < n)%nat -> fst (loc_of lv i) = name ->
  (posn ids i < length ids)%nat /\ nth (posn ids i) ids 0%nat = i /\
  snd (loc_of lv i) = fab_offset (file_fabs lv ids) (posn ids i).
Proof.
  intros Hin Hi Hn. destruct (locate_total lv i Hwf Hi) as [c Hloc].
  unfold loc_of in *. rewrite Hloc in *.
  destruct (locate_in lv i _ _ Hloc) as (ids' & k & Hin' & Hpos & Hoff). rewrite Hn in Hin'.
  destruct (wf_level_parts lv Hwf) as (Hd & _ & _).
  assert (E : ids' = ids).
  { eapply NoDup_fst_unique; [apply distinct_names_NoDup; exact Hd | exact Hin' | exact Hin]. }
  subst ids'. unfold posn. rewrite Hpos. destruct (pos_in_spec _ _ _ Hpos) as [H1 H2].
  repeat split; assumption.
Qed.

(* every file name of the table is a file of the level *)
Lemma name_has_file name : In name (np_unique (map fst cells)) -> exists ids, In (name, ids) (lv_files lv).
Proof.
  intros H. destruct (cells_or_nil_spec lv Hwf) as [Hc _].
  pose proof (level_names_perm lv _ Hwf Hc) as HP. fold cells in HP.
  apply (Permutation_in _ HP) in H. apply in_map_iff in H. destruct H as ([nm ids] & <- & Hin).
  exists ids. exact Hin.
Qed.

(* ------------------------------------------------------------------ *)
(** * the task list of one file *)
Variable c : cellh.
Hypothesis Hidx : c_indexes c = map (fun fb => (fab_lo fb, fab_hi fb)) (lv_fabs lv).
Hypothesis Hfiles : c_files c = map fst cells.
Hypothesis Hoffs : c_offsets c = map snd cells.

Definition quad (i : nat) : list Z * list Z * bytes * Z :=
  (fab_lo (nth i (lv_fabs lv) dummy_fab), fab_hi (nth i (lv_fabs lv) dummy_fab),
   fst (loc_of lv i), snd (loc_of lv i)).

Lemma zip_boxes_map {A} (f : A -> list Z * list Z) (g : A -> bytes) (h : A -> Z) : forall l,
  zip_boxes (map f l) (map g l) (map h l) = map (fun x => (fst (f x), snd (f x), g x, h x)) l.
Proof.
  induction l as [|a l IH]; [reflexivity|]. cbn [map zip_boxes]. destruct (f a) as [lo hi] eqn:E.
  cbn [fst snd]. f_equal. exact IH.
Qed.

Lemma all_boxes : zip_boxes (c_indexes c) (c_files c) (c_offsets c) = map quad (seq 0 n).
Proof.
  rewrite Hidx, Hfiles, Hoffs, cells_eq, !map_map.
  rewrite (map_via_seq dummy_fab (fun fb => (fab_lo fb, fab_hi fb)) (lv_fabs lv)). fold n.
  rewrite (zip_boxes_map (fun i => (fab_lo (nth i (lv_fabs lv) dummy_fab), fab_hi (nth i (lv_fabs lv) dummy_fab)))
                         (fun i => fst (loc_of lv i)) (fun i => snd (loc_of lv i))).
  reflexivity.
Qed.

Lemma boxes_of_file_map name : forall m s,
  boxes_of_file name (map quad (seq s m)) s
  = map (fun i => (i, (fab_lo (nth i (lv_fabs lv) dummy_fab), fab_hi (nth i (lv_fabs lv) dummy_fab), snd (loc_of lv i))))
        (filter (fun i => bytes_eqb (fst (loc_of lv i)) name) (seq s m)).
Proof.
  induction m as [|m IH]; intros s; [reflexivity|].
  cbn [seq map boxes_of_file filter]. unfold quad at 1.
  destruct (bytes_eqb (fst (loc_of lv s)) name); cbn [map]; rewrite IH; reflexivity.
Qed.

Definition asc (name : bytes) : list nat := ids_in_file cells name.

Lemma asc_spec name i : In i (asc name) <-> (i < n)%nat /\ fst (loc_of lv i) = name.
Proof.
  unfold asc. rewrite ids_in_file_eq, filter_In, in_seq. split.
  - intros [H1 H2]. apply bytes_eqb_true in H2. split; [lia | exact H2].
  - intros [H1 H2]. split; [lia | rewrite H2; apply bytes_eqb_refl].
Qed.

Lemma asc_NoDup name : NoDup (asc name).
Proof. unfold asc. rewrite ids_in_file_eq. apply NoDup_filter, seq_NoDup. Qed.

(* the strained boxes of one file *)
Definition kept_fabs (name : bytes) : list fab := map (keep_fab kept) (file_fabs lv (asc name)).

Lemma file_fabs_strained ids : Forall (fun i => (i < n)%nat) ids ->
  file_fabs (strained_lv ) ids = map (keep_fab kept) (file_fabs lv ids).
Proof.
  intros H. unfold file_fabs, strained_lv. cbn [lv_fabs]. rewrite map_map. apply map_ext_in. intros i Hi.
  rewrite Forall_forall in H. specialize (H i Hi).
  rewrite (nth_indep _ dummy_fab (keep_fab kept dummy_fab)) by (rewrite map_length; exact H).
  apply map_nth.
Qed.

Lemma asc_lt name : Forall (fun i => (i < n)%nat) (asc name).
Proof. apply Forall_forall. intros i Hi. apply asc_spec in Hi. tauto. Qed.

Theorem worker_on_file : forall name ids, In (name, ids) (lv_files lv) ->
  strain_boxes (encode_file (file_fabs lv ids)) nvars kept
               (map snd (boxes_of_file name (zip_boxes (c_indexes c) (c_files c) (c_offsets c)) 0)) []
  = Some (encode_file (kept_fabs name),
          map (fun j => fab_offset (kept_fabs name) j) (seq 0 (length (asc name)))).
Proof.
  intros name ids Hin. rewrite all_boxes, boxes_of_file_map, map_map. cbn [snd].
  change (filter (fun i => bytes_eqb (fst (loc_of lv i)) name) (seq 0 n)) with
    (filter (fun i => bytes_eqb (fst (loc_of lv i)) name) (seq 0 n)).
  rewrite <- ids_in_file_eq. fold (asc name).
  set (fs := file_fabs lv ids).
  assert (Hmap : map (fun i => (fab_lo (nth i (lv_fabs lv) dummy_fab), fab_hi (nth i (lv_fabs lv) dummy_fab), snd (loc_of lv i))) (asc name)
                 = map (box_of fs) (map (posn ids) (asc name))).
  { rewrite map_map. apply map_ext_in. intros i Hi. apply asc_spec in Hi. destruct Hi as [Hi Hn].
    destruct (loc_in_file name ids i Hin Hi Hn) as (Hp & Hnth & Hoff).
    unfold box_of, fs. rewrite (nth_file_fabs lv ids _ Hp), Hnth, Hoff. reflexivity. }
  rewrite Hmap.
  assert (HF : Forall (fun fb => fab_ok fb = true /\ fab_nc fb = nvars) fs)
    by (apply (file_fabs_Forall lv nvars name ids Hwf Hnc Hin)).
  assert (Hsel : Forall (fun k => (k < length fs)%nat) (map (posn ids) (asc name))).
  { apply Forall_forall. intros k Hk. apply in_map_iff in Hk. destruct Hk as (i & <- & Hi).
    apply asc_spec in Hi. destruct Hi as [Hi Hn].
    destruct (loc_in_file name ids i Hin Hi Hn) as (Hp & _). unfold fs. rewrite file_fabs_length. exact Hp. }
  rewrite (strain_boxes_spec fs nvars kept (map (posn ids) (asc name)) [] HF Hkept Hsel).
  cbv zeta. rewrite map_length. cbn [app]. change (blen []) with 0.
  assert (Hpick : map (fun k => nth k fs dummy_fab) (map (posn ids) (asc name)) = file_fabs lv (asc name)).
  { rewrite map_map. change (file_fabs lv (asc name)) with (map (fun i => nth i (lv_fabs lv) dummy_fab) (asc name)). apply map_ext_in. intros i Hi. apply asc_spec in Hi. destruct Hi as [Hi Hn].
    destruct (loc_in_file name ids i Hin Hi Hn) as (Hp & Hnth & _).
    unfold fs. rewrite (nth_file_fabs lv ids _ Hp), Hnth. reflexivity. }
  rewrite Hpick. fold (kept_fabs name). reflexivity.
Qed.

(* ------------------------------------------------------------------ *)
(** * the whole level *)
Definition result_of (name : bytes) : bytes * bytes * list nat * list Z :=
  (name, encode_file (kept_fabs name), asc name,
   map (fun j => fab_offset (kept_fabs name) j) (seq 0 (length (asc name)))).

Lemma fold_scatter (d : Z) i : (i < n)%nat -> forall names acc, NoDup names -> length acc = n ->
  nth i (fold_left (fun a (r : bytes * bytes * list nat * list Z) => scatter (snd (fst r)) (snd r) a)
                   (map result_of names) acc) d
  = if existsb (bytes_eqb (fst (loc_of lv i))) names
    then fab_offset (kept_fabs (fst (loc_of lv i))) (posn (asc (fst (loc_of lv i))) i)
    else nth i acc d.
Proof.
  intros Hi. induction names as [|a names IH]; intros acc Hnd Hacc; [reflexivity|].
  inversion Hnd as [|? ? Ha Hnd']; subst. cbn [map fold_left existsb].
  set (vals := map (fun j => fab_offset (kept_fabs a) j) (seq 0 (length (asc a)))).
  change (snd (fst (result_of a))) with (asc a). change (snd (result_of a)) with vals.
  assert (Hlen : length (asc a) = length vals) by (unfold vals; rewrite map_length, seq_length; reflexivity).
  assert (Hlt : forall j, In j (asc a) -> (j < length acc)%nat)
    by (intros j Hj; apply asc_spec in Hj; lia).
  destruct (scatter_nth d (asc a) vals acc Hlen (asc_NoDup a) Hlt i) as [S1 S2].
  rewrite IH by (try exact Hnd'; rewrite scatter_length; exact Hacc).
  destruct (bytes_eqb (fst (loc_of lv i)) a) eqn:E; cbn [orb].
  - apply bytes_eqb_true in E. subst a.
    replace (existsb (bytes_eqb (fst (loc_of lv i))) names) with false.
    + assert (Hin : In i (asc (fst (loc_of lv i)))) by (apply asc_spec; split; [exact Hi | reflexivity]).
      destruct (pos_in_complete i _ 0%nat Hin) as [k Hk].
      destruct (pos_in_spec _ _ _ Hk) as [Hnth Hkl].
      unfold posn. rewrite Hk.
      assert (Hne : nth_error (asc (fst (loc_of lv i))) k = Some i)
        by (rewrite (nth_error_nth' _ 0%nat Hkl), Hnth; reflexivity).
      rewrite (S1 k Hne).
      unfold vals. rewrite (nth_indep _ d (fab_offset (kept_fabs (fst (loc_of lv i))) 0%nat))
        by (rewrite map_length, seq_length; exact Hkl).
      rewrite (map_nth (fun j => fab_offset (kept_fabs (fst (loc_of lv i))) j)), seq_nth by exact Hkl. reflexivity.
    + symmetry. destruct (existsb (bytes_eqb (fst (loc_of lv i))) names) eqn:E2; [|reflexivity].
      apply existsb_exists in E2. destruct E2 as (y & Hy & E2). apply bytes_eqb_true in E2. subst y. contradiction.
  - destruct (existsb (bytes_eqb (fst (loc_of lv i))) names); [reflexivity|].
    apply S2. intros Hin. apply asc_spec in Hin. destruct Hin as [_ Hn].
    rewrite Hn, bytes_eqb_refl in E. discriminate.
Qed.

Lemma strained_files_In name : In name (np_unique (map fst cells)) -> In (name, asc name) (lv_files strained_lv).
Proof.
  intros H. unfold strained_lv, strained_files. cbn [lv_files]. fold cells. apply in_map_iff. exists name. split; [reflexivity | exact H].
Qed.

Lemma cells_strained : cells_or_nil strained_lv = map (loc_of strained_lv) (seq 0 n).
Proof.
  rewrite (proj2 (cells_or_nil_spec strained_lv wf_strained)). unfold strained_lv at 2. cbn [lv_fabs]. rewrite map_length. reflexivity.
Qed.

(* a box stays in the file of the same name *)
Lemma strained_names : map fst (cells_or_nil strained_lv) = map fst (cells_or_nil lv).
Proof.
  rewrite cells_strained. fold cells. rewrite cells_eq, !map_map. apply map_ext_in. intros i Hi. apply in_seq in Hi.
  set (name := fst (loc_of lv i)).
  assert (Hname : In name (np_unique (map fst cells))).
  { apply np_unique_In. rewrite names_eq. apply in_map_iff. exists i. split; [reflexivity | apply in_seq; lia]. }
  assert (Hin : In i (asc name)) by (apply asc_spec; split; [lia | reflexivity]).
  destruct (pos_in_complete i _ 0%nat Hin) as [k Hk].
  destruct (pos_in_spec _ _ _ Hk) as [Hnth Hkl].
  pose proof (locate_nth strained_lv wf_strained name (asc name) (strained_files_In name Hname) k Hkl) as Hloc.
  rewrite Hnth in Hloc. unfold loc_of at 1. rewrite Hloc. reflexivity.
Qed.

Lemma cells_strained_length : length (cells_or_nil strained_lv) = n.
Proof. rewrite cells_strained, map_length, seq_length. reflexivity. Qed.

Theorem strain_level_spec :
  strain_level (lv_disk lv) c nvars kept = Some (lv_disk strained_lv, map snd (cells_or_nil strained_lv)).
Proof.
  unfold strain_level. cbv zeta.
  replace (np_unique (c_files c)) with (np_unique (map fst cells)) by (rewrite Hfiles; reflexivity).
  rewrite (omap_all_map _ result_of).
  2:{ intros name Hname. destruct (name_has_file name Hname) as [ids Hin].
      rewrite (lookup_lv_disk lv name ids Hwf Hin). cbn [obind].
      rewrite (worker_on_file name ids Hin). cbn [obind fst snd].
      unfold result_of. f_equal. f_equal. f_equal.
      rewrite all_boxes, boxes_of_file_map, map_map. cbn [fst]. rewrite map_id.
      unfold asc. rewrite ids_in_file_eq. reflexivity. }
  cbn [obind]. f_equal. f_equal.
  - (* the binary files *)
    rewrite map_map. unfold lv_disk.
    change (lv_files strained_lv) with (map (fun name => (name, asc name)) (np_unique (map fst cells))).
    rewrite map_map. apply map_ext. intros name. unfold result_of. cbn [fst snd]. f_equal. f_equal.
    rewrite (file_fabs_strained _ (asc_lt name)). reflexivity.
  - (* the offsets, in box order *)
    rewrite cells_strained, map_map.
    apply (nth_ext _ _ 0 0).
    + rewrite map_length, seq_length.
      assert (G : forall (rs : list (bytes * bytes * list nat * list Z)) acc,
                 length (fold_left (fun a r => scatter (snd (fst r)) (snd r) a) rs acc) = length acc).
      { induction rs as [|r rs IHr]; intros acc; [reflexivity|]. cbn [fold_left]. rewrite IHr, scatter_length. reflexivity. }
      rewrite G, map_length, Hidx, map_length. reflexivity.
    + intros i Hi.
      assert (G : forall (rs : list (bytes * bytes * list nat * list Z)) acc,
                 length (fold_left (fun a r => scatter (snd (fst r)) (snd r) a) rs acc) = length acc).
      { induction rs as [|r rs IHr]; intros acc; [reflexivity|]. cbn [fold_left]. rewrite IHr, scatter_length. reflexivity. }
      rewrite G, map_length, Hidx, map_length in Hi. fold n in Hi.
      rewrite (fold_scatter 0 i Hi _ _ (np_unique_NoDup _)) by (rewrite map_length, Hidx, map_length; reflexivity).
      replace (existsb (bytes_eqb (fst (loc_of lv i))) (np_unique (map fst cells))) with true.
      2:{ symmetry. apply existsb_exists. exists (fst (loc_of lv i)). split; [|apply bytes_eqb_refl].
          apply np_unique_In. rewrite names_eq. apply in_map_iff. exists i. split; [reflexivity | apply in_seq; lia]. }
      rewrite (nth_indep _ 0 (snd (loc_of strained_lv 0%nat))) by (rewrite map_length, seq_length; exact Hi).
      rewrite (map_nth (fun x => snd (loc_of strained_lv x))), seq_nth by exact Hi. cbn [Nat.add].
      set (name := fst (loc_of lv i)).
      assert (Hname : In name (np_unique (map fst cells))).
      { apply np_unique_In. rewrite names_eq. apply in_map_iff. exists i. split; [reflexivity | apply in_seq; lia]. }
      assert (Hin : In i (asc name)) by (apply asc_spec; split; [exact Hi | reflexivity]).
      destruct (pos_in_complete i _ 0%nat Hin) as [k Hk].
      destruct (pos_in_spec _ _ _ Hk) as [Hnth Hkl].
      unfold posn. rewrite Hk.
      pose proof (locate_nth strained_lv wf_strained name (asc name) (strained_files_In name Hname) k Hkl) as Hloc.
      rewrite Hnth in Hloc. unfold loc_of. rewrite Hloc. cbn [snd].
      rewrite (file_fabs_strained _ (asc_lt name)). reflexivity.
Qed.

End Level.

Print Assumptions strain_level_spec.
Print Assumptions wf_strained.
