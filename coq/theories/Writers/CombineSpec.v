(* What combine must produce, on the abstract plotfiles (pure definitions: this
   file is part of what is extracted for the correspondence). *)
From AK Require Import Base.Prelude Bytes.Text Bytes.FabHeader Bytes.BinFile
  Reader.Select Reader.BoxRead Reader.Level Reader.ReadSpec
  Plotfile.TextHeader Plotfile.HeaderSpec Taste.Taste Plotfile.Abstract
  Writers.Colander Writers.ColanderSpec Writers.Combine.

(* the combined box: index range of the first source, the selected
   components of the first followed by the selected components of the second *)
Definition merge_fab (v1 v2 : list Z) (fb1 fb2 : fab) : fab :=
  {| fab_lo := fab_lo fb1; fab_hi := fab_hi fb1; fab_nc := blen v1 + blen v2;
     fab_data := concat (map (fab_comp fb1) v1) ++ concat (map (fab_comp fb2) v2) |}.

(* a row of the combined min / max table *)
Definition merge_rows (v1 v2 : list Z) (r1 r2 : list token) : list token := project v1 r1 ++ project v2 r2.

Fixpoint zip_rows (v1 v2 : list Z) (a b : list (list token)) : list (list token) :=
  match a, b with
  | ra :: a', rb :: b' => merge_rows v1 v2 ra rb :: zip_rows v1 v2 a' b'
  | _, _ => []
  end.

(* the level of merged boxes: file names of the first input, inside a file the boxes in box order *)
Definition merged_level (lv1 lv2 : level) (v1 v2 : list Z) : level :=
  {| lv_fabs := map (fun i => merge_fab v1 v2 (nth i (lv_fabs lv1) dummy_fab) (nth i (lv_fabs lv2) dummy_fab))
                    (seq 0 (length (lv_fabs lv1)));
     lv_files := strained_files lv1 |}.

Definition combined_gheader (g : gheader) (names : list bytes) : gheader :=
  let lim := g_max_level g in
  let n := Z.to_nat (lim + 1) in
  {| g_version := g_version g; g_names := names; g_ndims := g_ndims g;
     g_time := g_time g; g_max_level := lim;
     g_geo_low := g_geo_low g; g_geo_high := g_geo_high g;
     g_factors := firstn n (g_factors g);
     g_grid_hi := firstn n (g_grid_hi g);
     g_steps := firstn n (g_steps g);
     g_dx := firstn n (g_dx g);
     g_sys_coord := g_sys_coord g |}.

Definition combined_level (g : gheader) (v1 v2 : list Z) (k : nat) (pp : plevel * plevel) : plevel :=
  {| pl_boxes := {| lb_ncells := blen (lb_boxes (pl_boxes (fst pp)));
                    lb_step_line := [str_of_Z (nth k (g_steps g) 0)];
                    lb_boxes := lb_boxes (pl_boxes (fst pp));
                    lb_cell_dir := level_name (Z.of_nat k);
                    lb_time_tok := g_time g |};
     pl_level := merged_level (pl_level (fst pp)) (pl_level (snd pp)) v1 v2;
     pl_mins := zip_rows v1 v2 (pl_mins (fst pp)) (pl_mins (snd pp));
     pl_maxs := zip_rows v1 v2 (pl_maxs (fst pp)) (pl_maxs (snd pp)) |}.

Definition combine_spec (v1 v2 : list Z) (names : list bytes) (pf1 pf2 : plotfile) : plotfile :=
  let L := combine (pf_levels pf1) (pf_levels pf2) in
  {| pf_g := combined_gheader (pf_g pf1) names;
     pf_levels := map (fun kl => combined_level (pf_g pf1) v1 v2 (fst kl) (snd kl)) (combine (seq 0 (length L)) L) |}.

(* the pure operation: defined for two 3D plotfiles on the same boxes and two
   non-empty lists of existing names *)
Definition same_mesh_b (pf1 pf2 : plotfile) : bool :=
  (g_max_level (pf_g pf2) =? g_max_level (pf_g pf1)) &&
  (length (pf_levels pf2) =? length (pf_levels pf1))%nat &&
  forallb (fun pp => same_indexes (map (fun fb => (fab_lo fb, fab_hi fb)) (lv_fabs (pl_level (fst pp))))
                                  (map (fun fb => (fab_lo fb, fab_hi fb)) (lv_fabs (pl_level (snd pp)))))
          (combine (pf_levels pf1) (pf_levels pf2)).

Definition combine_pure (names1 names2 : list bytes) (pf1 pf2 : plotfile) : option plotfile :=
  guard same_mesh_b pf1 pf2;
  guard ((3 <=? g_ndims (pf_g pf1)) && (3 <=? g_ndims (pf_g pf2)));
  guard negb (length names1 =? 0)%nat; guard negb (length names2 =? 0)%nat;
  do v1 <- omap_all (field_index (field_keys (g_names (pf_g pf1)) [])) names1;
  do v2 <- omap_all (field_index (field_keys (g_names (pf_g pf2)) [])) names2;
  Some (combine_spec v1 v2 (names1 ++ names2) pf1 pf2).
