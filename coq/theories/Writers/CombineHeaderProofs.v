(* combine, the level header: rewrite_level_header applied to the texts of the
   two inputs' level headers (same boxes, any file tables) yields the level
   header of the combined level: field count, byte offsets, and every row of
   the minima / maxima tables = the selected columns of the first input's row
   followed by the selected columns of the second's.
   Standard library only, no axioms. *)
From AK Require Import Base.Prelude Bytes.Text Bytes.FabHeader Bytes.FabHeaderProofs
  Bytes.BinFile Reader.Select Reader.BoxRead Reader.Level Reader.ReadSpec
  Plotfile.TextHeader Plotfile.HeaderSpec Plotfile.HeaderProofs
  Taste.Taste Plotfile.Abstract Writers.Colander Writers.ColanderSpec Writers.ColanderHeaderProofs Writers.Combine Writers.CombineSpec.

Definition row_line (r : list token) : line := [row_token r].

Lemma minmax_block2_spec : forall v1 v2 nf1 nf2 nfields (rows1 rows2 : list (list token)) tail1 tail2 x y,
  v1 ++ v2 <> [] -> length rows2 = length rows1 ->
  Forall (fun r => blen r = nf1 /\ Forall (no_char ","%char) r) rows1 ->
  Forall (fun r => blen r = nf2 /\ Forall (no_char ","%char) r) rows2 ->
  Forall (fun i => 0 <= i < nf1) v1 -> Forall (fun i => 0 <= i < nf2) v2 ->
  minmax_block2 v1 v2 nfields
    ([] :: [str_of_Z (blen rows1) ++ bs "," ++ str_of_Z nf1] :: map row_line rows1 ++ tail1)
    (x :: y :: map row_line rows2 ++ tail2)
  = Some ([] :: [str_of_Z (blen rows1) ++ bs "," ++ str_of_Z nfields] :: map row_line (zip_rows v1 v2 rows1 rows2),
          tail1, tail2).
Proof.
  intros v1 v2 nf1 nf2 nfields rows1 rows2 tail1 tail2 x y Hne Hlen H1 H2 Hv1 Hv2.
  unfold minmax_block2. rewrite count_line_split. rewrite py_int_str_of_Z. cbn [obind].
  rewrite to_nat_blen.
  match goal with |- context [(fix rows (k : nat) (a b : text) {struct k} : option (text * text * text) := _) _ _ _] =>
    set (rows := (fix rows (k : nat) (a b : text) {struct k} : option (text * text * text) :=
              match k with
              | O => Some ([], a, b)
              | S k' =>
                  let la := match a with x :: _ => x | [] => [] end in
                  let lb := match b with x :: _ => x | [] => [] end in
                  do ra <- project_row v1 (drop_last (split_on ","%char (join_line la)));
                  do rb <- project_row v2 (drop_last (split_on ","%char (join_line lb)));
                  do rest <- rows k' (tl a) (tl b);
                  let '(out, a', b') := rest in
                  Some ([row_token_w (ra ++ rb)] :: out, a', b')
              end)) end.
  assert (G : forall (r1 r2 : list (list token)), length r2 = length r1 ->
             Forall (fun r => blen r = nf1 /\ Forall (no_char ","%char) r) r1 ->
             Forall (fun r => blen r = nf2 /\ Forall (no_char ","%char) r) r2 ->
             rows (length r1) (map row_line r1 ++ tail1) (map row_line r2 ++ tail2)
             = Some (map row_line (zip_rows v1 v2 r1 r2), tail1, tail2)).
  { induction r1 as [|ra r1 IH]; intros [|rb r2] Hl F1 F2; try discriminate; [reflexivity|].
    apply Forall_cons_iff in F1. destruct F1 as [[La Ca] F1]. apply Forall_cons_iff in F2. destruct F2 as [[Lb Cb] F2].
    cbn [length map app]. cbn [rows]. fold rows. cbv zeta. cbn [tl].
    change (join_line (row_line ra)) with (row_token ra). change (join_line (row_line rb)) with (row_token rb).
    rewrite (split_row_token ra Ca), (split_row_token rb Cb), !drop_last_snoc.
    rewrite (project_row_spec v1 ra) by (eapply Forall_impl; [|exact Hv1]; cbv beta; intros i Hi; exact (eq_rect nf1 (fun z => 0 <= i < z) Hi _ (eq_sym La))).
    rewrite (project_row_spec v2 rb) by (eapply Forall_impl; [|exact Hv2]; cbv beta; intros i Hi; exact (eq_rect nf2 (fun z => 0 <= i < z) Hi _ (eq_sym Lb))).
    cbn [obind]. rewrite (IH r2 ltac:(cbn [length] in Hl; lia) F1 F2). cbn [obind zip_rows map].
    replace (row_token_w (project v1 ra ++ project v2 rb)) with (row_token (merge_rows v1 v2 ra rb)); [reflexivity|].
    symmetry. apply row_token_w_nonempty. unfold merge_rows, project.
    destruct v1 as [|a1 v1']; [|discriminate]. destruct v2 as [|a2 v2']; [exfalso; apply Hne; reflexivity | discriminate]. }
  rewrite (G rows1 rows2 Hlen H1 H2). cbn [obind]. reflexivity.
Qed.

(* ------------------------------------------------------------------ *)
(** * the whole level header *)
Definition combined_cellh (cA cB : cellh) (v1 v2 : list Z) (offs : list Z) : cellh :=
  {| c_indexes := c_indexes cA; c_files := c_files cA; c_offsets := offs;
     c_mins := zip_rows v1 v2 (c_mins cA) (c_mins cB); c_maxs := zip_rows v1 v2 (c_maxs cA) (c_maxs cB) |}.

Lemma skipn_app_exact {A} (l1 l2 : list A) k : k = length l1 -> skipn k (l1 ++ l2) = l2.
Proof. intros ->. rewrite skipn_app, skipn_all, Nat.sub_diag. reflexivity. Qed.

Theorem rewrite_level_header_print : forall nf1 nf2 cA cB v1 v2 offs,
  wf_cellh true cA -> wf_cellh true cB -> c_indexes cA <> [] ->
  length (c_indexes cB) = length (c_indexes cA) ->
  Forall (fun r => blen r = nf1) (c_mins cA) -> Forall (fun r => blen r = nf1) (c_maxs cA) ->
  Forall (fun r => blen r = nf2) (c_mins cB) -> Forall (fun r => blen r = nf2) (c_maxs cB) ->
  v1 ++ v2 <> [] -> Forall (fun i => 0 <= i < nf1) v1 -> Forall (fun i => 0 <= i < nf2) v2 ->
  length offs = length (c_indexes cA) ->
  rewrite_level_header (print_cellh nf1 cA) (print_cellh nf2 cB) (blen v1 + blen v2) offs v1 v2
  = Some (print_cellh (blen v1 + blen v2) (combined_cellh cA cB v1 v2 offs)).
Proof.
  intros nf1 nf2 cA cB v1 v2 offs (IA & FA & OA & MA) (IB & FB & OB & MB) Hne HnB HminA HmaxA HminB HmaxB Hv Hv1 Hv2 Hoffs.
  destruct (MA eq_refl) as (MnA & MxA & MnfA & MxfA). destruct (MB eq_refl) as (MnB & MxB & MnfB & MxfB).
  destruct cA as [idx files olds mins maxs]. destruct cB as [idxB filesB oldsB minsB maxsB].
  cbn [c_indexes c_files c_offsets c_mins c_maxs] in *.
  destruct idx as [|ix idx]; [congruence|].
  destruct files as [|f0 files]; [discriminate|]. destruct olds as [|o0 olds]; [discriminate|].
  destruct offs as [|n0 offs]; [discriminate|].
  destruct idxB as [|ixB idxB]; [discriminate|].
  destruct filesB as [|g0 filesB]; [discriminate|]. destruct oldsB as [|p0 oldsB]; [discriminate|].
  cbn [length] in FA, OA, Hoffs, HnB, FB, OB, MnA, MxA, MnB, MxB.
  set (n := blen (ix :: idx)).
  assert (EnB : blen (ixB :: idxB) = n) by (unfold n, blen; cbn [length]; rewrite (f_equal Z.of_nat HnB); reflexivity).
  set (tail1 := [] :: [str_of_Z n ++ bs "," ++ str_of_Z nf1] :: (map row_line mins ++
                 [] :: [str_of_Z n ++ bs "," ++ str_of_Z nf1] :: map row_line maxs)).
  set (tail2 := [] :: [str_of_Z n ++ bs "," ++ str_of_Z nf2] :: (map row_line minsB ++
                 [] :: [str_of_Z n ++ bs "," ++ str_of_Z nf2] :: map row_line maxsB)).
  set (pre := [bs "0"] :: [bs "(" ++ str_of_Z n; bs "0"] ::
              (map (fun ix0 : list Z * list Z => triple (fst ix0) (snd ix0)) (ix :: idx) ++ [[bs ")"]; [str_of_Z n]])).
  set (preB := [bs "0"] :: [bs "(" ++ str_of_Z n; bs "0"] ::
              (map (fun ix0 : list Z * list Z => triple (fst ix0) (snd ix0)) (ixB :: idxB) ++ [[bs ")"]; [str_of_Z n]])).
  assert (Hs1 : print_cellh nf1 {| c_indexes := ix :: idx; c_files := f0 :: files; c_offsets := o0 :: olds; c_mins := mins; c_maxs := maxs |}
                = [bs "1"] :: [bs "1"] :: [str_of_Z nf1] :: (pre ++ fod_line (f0, o0) :: (map fod_line (combine files olds) ++ tail1))).
  { rewrite <- (app_nil_r (print_cellh _ _)), print_cellh_shape.
    cbn [c_indexes c_files c_offsets c_mins c_maxs]. fold n. unfold pre, tail1, row_line.
    cbn [combine map]. rewrite !app_nil_r.
    change (fod_line (f0, o0)) with [bs "FabOnDisk:"; f0; str_of_Z o0].
    cbn [app]. f_equal. f_equal. f_equal. f_equal. f_equal.
    rewrite <- app_assoc. cbn [app]. reflexivity. }
  assert (Hs2 : print_cellh nf2 {| c_indexes := ixB :: idxB; c_files := g0 :: filesB; c_offsets := p0 :: oldsB; c_mins := minsB; c_maxs := maxsB |}
                = [bs "1"] :: [bs "1"] :: [str_of_Z nf2] :: (preB ++ fod_line (g0, p0) :: (map fod_line (combine filesB oldsB) ++ tail2))).
  { rewrite <- (app_nil_r (print_cellh _ _)), print_cellh_shape.
    cbn [c_indexes c_files c_offsets c_mins c_maxs]. rewrite EnB. unfold preB, tail2, row_line.
    cbn [combine map]. rewrite !app_nil_r.
    change (fod_line (g0, p0)) with [bs "FabOnDisk:"; g0; str_of_Z p0].
    cbn [app]. f_equal. f_equal. f_equal. f_equal. f_equal.
    rewrite <- app_assoc. cbn [app]. reflexivity. }
  rewrite Hs1, Hs2. unfold rewrite_level_header.
  assert (Hpre : Forall (fun l => has_fod l = false) pre).
  { unfold pre. constructor; [reflexivity|]. constructor.
    { unfold has_fod. cbn [existsb]. rewrite lp_not_fod. reflexivity. }
    apply Forall_app. split.
    - apply Forall_forall. intros l Hl. apply in_map_iff in Hl. destruct Hl as (z & <- & _). apply triple_no_fod.
    - constructor; [reflexivity|]. constructor; [|constructor].
      unfold has_fod. cbn [existsb]. rewrite str_not_fod. reflexivity. }
  rewrite (copy_until_fod_spec pre (fod_line (f0, o0)) _ [] _ Hpre eq_refl) by (apply length_app_lt).
  cbn [obind app].
  (* the second header, read in lock step *)
  assert (Hlp : length preB = length pre).
  { unfold pre, preB. cbn [length]. rewrite !app_length, !map_length. cbn [length]. clear -HnB. lia. }
  replace (preB ++ fod_line (g0, p0) :: (map fod_line (combine filesB oldsB) ++ tail2))
    with ((preB ++ [fod_line (g0, p0)]) ++ (map fod_line (combine filesB oldsB) ++ tail2))
    by (rewrite <- app_assoc; reflexivity).
  rewrite (skipn_app_exact (preB ++ [fod_line (g0, p0)]) (map fod_line (combine filesB oldsB) ++ tail2))
    by (rewrite app_length, Hlp; symmetry; apply Nat.add_1_r).
  rewrite (rewrite_fods_spec files olds offs tail1) by (clear -FA OA Hoffs; lia).
  cbn [obind fst snd].
  rewrite (skipn_app_exact (map fod_line (combine filesB oldsB)) tail2).
  2:{ rewrite map_length, combine_length. clear -FB OB HnB Hoffs. lia. }
  unfold tail1, tail2.
  assert (Hrows : forall nf (rows : list (list token)),
             Forall (fun r => blen r = nf) rows ->
             Forall (Forall (fun t => float_ok t = true /\ no_char ","%char t)) rows ->
             Forall (fun r => blen r = nf /\ Forall (no_char ","%char) r) rows).
  { intros nf rows H1 H2. apply Forall_forall. intros r Hr. rewrite Forall_forall in H1, H2.
    split; [apply H1; exact Hr|]. specialize (H2 r Hr). eapply Forall_impl; [|exact H2]. intros t [_ Ht]. exact Ht. }
  assert (En1 : n = blen mins) by (unfold n, blen; rewrite MnA; reflexivity).
  assert (En2 : n = blen maxs) by (unfold n, blen; rewrite MxA; reflexivity).
  rewrite En1 at 1.
  rewrite (minmax_block2_spec v1 v2 nf1 nf2 (blen v1 + blen v2) mins minsB _ _ _ _ Hv
             ltac:(clear -MnA MnB HnB; lia) (Hrows nf1 mins HminA MnfA) (Hrows nf2 minsB HminB MnfB) Hv1 Hv2).
  cbn [obind]. rewrite En2 at 1.
  rewrite <- (app_nil_r (map row_line maxs)), <- (app_nil_r (map row_line maxsB)).
  rewrite (minmax_block2_spec v1 v2 nf1 nf2 (blen v1 + blen v2) maxs maxsB [] [] _ _ Hv
             ltac:(clear -MxA MxB HnB; lia) (Hrows nf1 maxs HmaxA MxfA) (Hrows nf2 maxsB HmaxB MxfB) Hv1 Hv2).
  cbn [obind]. rewrite <- En1, <- En2.
  f_equal. unfold print_cellh, combined_cellh. cbn [c_indexes c_files c_offsets c_mins c_maxs]. fold n. cbv zeta.
  unfold pre, row_line. cbn [combine map app]. rewrite set_last_fod.
  change (fod_line (f0, n0)) with [bs "FabOnDisk:"; f0; str_of_Z n0].
  f_equal. f_equal. f_equal. f_equal. f_equal.
  rewrite <- !app_assoc. cbn [app]. reflexivity.
Qed.

Print Assumptions rewrite_level_header_print.
