(* The checkpoint Header: print / parse round trip of the repaired reader for
   every header, with or without the optional integer line, whatever the time
   is; the pinned reader mistakes a whole-number time for that line.  The
   plotfile Header chk2plt writes is the printed form of header records that
   the plotfile reader opens again (C02).
   Standard library only, no axioms. *)
From AK Require Import Base.Prelude Bytes.Text Bytes.FabHeader Bytes.FabHeaderProofs Reader.Select
  Plotfile.TextHeader Plotfile.HeaderSpec Plotfile.HeaderProofs Writers.ChkHeader.

Ltac p_line := eapply pbind_step; [apply rline_cons | cbv beta iota].
Ltac p_opt tac := eapply pbind_step; [apply of_opt_some; tac | cbv beta iota].
Ltac p_run tac := eapply pbind_step; [tac | cbv beta iota].

(* ------------------------------------------------------------------ *)
(** * Lines that cannot be taken for the start of the box list *)
Lemma float_ok_not_lp t : float_ok t = true -> starts_lp [t] = false.
Proof.
  intros H. destruct t as [|c t']; [reflexivity|].
  cbn [starts_lp]. destruct (Ascii.eqb c "("%char) eqn:E; [|reflexivity].
  apply Ascii.eqb_eq in E. subst c. exfalso.
  unfold float_ok in H. cbn in H. discriminate H.
Qed.

Lemma floats_line_not_lp l : Forall (fun t => float_ok t = true) l -> starts_lp l = false.
Proof.
  intros H. destruct l as [|t l']; [reflexivity|].
  inversion H as [|? ? Ht _]; subst.
  pose proof (float_ok_not_lp t Ht) as E. destruct t; [reflexivity|exact E].
Qed.

Lemma lines_before_lp_app pre rest :
  Forall (fun l => starts_lp l = false) pre ->
  lines_before_lp (pre ++ rest) = Z.of_nat (length pre) + lines_before_lp rest.
Proof.
  induction pre as [|l pre IH]; intros H; [reflexivity|].
  inversion H as [|? ? Hl Hp]; subst. cbn [app lines_before_lp length]. rewrite Hl, (IH Hp). lia.
Qed.

Lemma print_chk_level_lp boxes rest : lines_before_lp (print_chk_level boxes ++ rest) = 0.
Proof. reflexivity. Qed.

(* ------------------------------------------------------------------ *)
(** * One level of the box list *)
Lemma p_chk_level_print boxes rest :
  Forall (fun ix : list Z * list Z => fst ix <> [] /\ snd ix <> []) boxes ->
  p_chk_level (print_chk_level boxes ++ rest) = Some (boxes, rest).
Proof.
  intros Hb. unfold print_chk_level, p_chk_level. cbn [app].
  p_line.
  p_opt ltac:(apply py_int_lp_str).
  p_opt ltac:(reflexivity).
  rewrite <- app_assoc.
  p_run ltac:(rewrite to_nat_blen;
              apply (prepeat_map _ (fun ix : list Z * list Z => triple (fst ix) (snd ix)));
              intros ix r Hin; pose proof (proj1 (Forall_forall _ _) Hb ix Hin) as [H1 H2];
              apply p_index_line_print; assumption).
  cbn [app]. p_line. reflexivity.
Qed.

(* ------------------------------------------------------------------ *)
(** * The tail: pressure, coordinate system, typical values *)
Lemma p_rest_floats_print tv :
  Forall (fun t => float_ok t = true) tv ->
  p_rest_floats (map (fun v => [v]) tv) = Some (tv, []).
Proof.
  intros H. unfold p_rest_floats.
  assert (E : omap_all line_float (map (fun v : bytes => [v]) tv) = Some tv).
  { unfold token in *. induction tv as [|t tv IH]; [reflexivity|].
    inversion H as [|? ? Ht Htv]; subst. cbn [map omap_all].
    pose proof (line_float_ok t Ht) as E1. unfold token in E1. rewrite E1. cbn [obind].
    rewrite (IH Htv). reflexivity. }
  rewrite E. reflexivity.
Qed.

Section Oracles.
Variable whole : token -> bool.
Variable to_int : token -> Z.

Definition wf_tail (t : chk_tail) : Prop :=
  float_ok (ct_pressure t) = true /\
  Forall (fun v => float_ok v = true) (ct_typvals t) /\
  match ct_sys t with
  | Some s => float_ok (str_of_Z s) = true /\ whole (str_of_Z s) = true /\ to_int (str_of_Z s) = s
  | None => exists v tv, ct_typvals t = v :: tv /\ whole v = false
  end.

Lemma p_chk_tail_print t : wf_tail t ->
  p_chk_tail whole to_int (print_chk_tail t) = Some (t, []).
Proof.
  destruct t as [pr sys tv]. unfold wf_tail, print_chk_tail. cbn [ct_pressure ct_sys ct_typvals].
  intros (Hp & Htv & Hs). unfold p_chk_tail. cbn [app].
  p_line. p_opt ltac:(apply line_float_ok; exact Hp).
  destruct sys as [s|].
  - destruct Hs as (Hf & Hw & Hi). cbn [app].
    p_line. p_opt ltac:(apply line_float_ok; exact Hf).
    rewrite Hw.
    p_line. p_opt ltac:(apply line_int_str).
    cbn [Z.eqb negb].
    p_run ltac:(apply p_rest_floats_print; exact Htv).
    rewrite Hi. reflexivity.
  - destruct Hs as (v & tv' & -> & Hw). cbn [app map].
    inversion Htv as [|? ? Hv Htv']; subst.
    p_line. p_opt ltac:(apply line_float_ok; exact Hv).
    rewrite Hw.
    p_run ltac:(apply p_rest_floats_print; exact Htv').
    reflexivity.
Qed.

(* ------------------------------------------------------------------ *)
(** * The whole header *)
Definition wf_chk (h : chk_header) : Prop :=
  0 <= ch_max_level h /\
  blen (ch_boxes h) = ch_max_level h + 1 /\
  match ch_int h with Some l => starts_lp l = false | None => True end /\
  float_ok (ch_time h) = true /\ float_ok (ch_dt1 h) = true /\ float_ok (ch_dt2 h) = true /\
  Forall (fun t => float_ok t = true) (ch_lo h) /\
  Forall (fun t => float_ok t = true) (ch_hi h) /\
  Forall (Forall (fun ix : list Z * list Z => fst ix <> [] /\ snd ix <> [])) (ch_boxes h) /\
  wf_tail (ch_tail h).

Lemma p_levels_print levels rest :
  Forall (Forall (fun ix : list Z * list Z => fst ix <> [] /\ snd ix <> [])) levels ->
  prepeat (length levels) p_chk_level (concat (map print_chk_level levels) ++ rest) = Some (levels, rest).
Proof.
  intros H. apply (prepeat_concat _ print_chk_level). intros x r Hx.
  apply p_chk_level_print. exact (proj1 (Forall_forall _ _) H x Hx).
Qed.

Lemma p_chk_after_time_print h il :
  wf_chk h ->
  p_chk_after_time whole to_int (ch_version h) (ch_max_level h) (ch_step h) il (ch_time h)
    ([[ch_dt1 h]; [ch_dt2 h]; ch_lo h; ch_hi h] ++ concat (map print_chk_level (ch_boxes h)) ++ print_chk_tail (ch_tail h))
  = Some ({| ch_version := ch_version h; ch_max_level := ch_max_level h; ch_step := ch_step h; ch_int := il;
             ch_time := ch_time h; ch_dt1 := ch_dt1 h; ch_dt2 := ch_dt2 h; ch_lo := ch_lo h; ch_hi := ch_hi h;
             ch_boxes := ch_boxes h; ch_tail := ch_tail h |}, []).
Proof.
  intros (Hml & Hlen & _ & _ & Hd1 & Hd2 & Hlo & Hhi & Hb & Ht).
  unfold p_chk_after_time. cbn [app].
  p_line. p_opt ltac:(apply line_float_ok; exact Hd1).
  p_line. p_opt ltac:(apply line_float_ok; exact Hd2).
  p_line. p_opt ltac:(apply line_floats_ok; exact Hlo).
  p_line. p_opt ltac:(apply line_floats_ok; exact Hhi).
  p_run ltac:(rewrite <- Hlen, to_nat_blen; apply p_levels_print; exact Hb).
  p_run ltac:(apply p_chk_tail_print; exact Ht).
  reflexivity.
Qed.

Lemma count_lines h :
  wf_chk h ->
  lines_before_lp ((match ch_int h with Some l => [l] | None => [] end)
                   ++ [[ch_time h]; [ch_dt1 h]; [ch_dt2 h]; ch_lo h; ch_hi h]
                   ++ concat (map print_chk_level (ch_boxes h)) ++ print_chk_tail (ch_tail h))
  = match ch_int h with Some _ => 6 | None => 5 end.
Proof.
  intros (Hml & Hlen & Hint & Htm & Hd1 & Hd2 & Hlo & Hhi & Hb & Ht).
  destruct (ch_boxes h) as [|b0 bs] eqn:Eb; [unfold blen in Hlen; cbn in Hlen; lia|].
  cbn [map concat]. rewrite <- (app_assoc (print_chk_level b0)).
  assert (H5 : Forall (fun l => starts_lp l = false) [[ch_time h]; [ch_dt1 h]; [ch_dt2 h]; ch_lo h; ch_hi h]).
  { repeat constructor; try (apply float_ok_not_lp; assumption); apply floats_line_not_lp; assumption. }
  destruct (ch_int h) as [l|].
  - rewrite app_assoc. rewrite lines_before_lp_app; [|constructor; [exact Hint|exact H5]].
    rewrite print_chk_level_lp. reflexivity.
  - cbn [app]. change ([ch_time h] :: [ch_dt1 h] :: [ch_dt2 h] :: ch_lo h :: ch_hi h :: ?r)
      with ([[ch_time h]; [ch_dt1 h]; [ch_dt2 h]; ch_lo h; ch_hi h] ++ r).
    rewrite lines_before_lp_app; [|exact H5]. rewrite print_chk_level_lp. reflexivity.
Qed.

Lemma print_chk_shape h :
  print_chk h = ch_version h :: [str_of_Z (ch_max_level h)] :: [str_of_Z (ch_step h)] ::
                ((match ch_int h with Some l => [l] | None => [] end)
                 ++ [[ch_time h]; [ch_dt1 h]; [ch_dt2 h]; ch_lo h; ch_hi h]
                 ++ concat (map print_chk_level (ch_boxes h)) ++ print_chk_tail (ch_tail h)).
Proof. reflexivity. Qed.

(* the repaired reader reads back every well-formed header - with or without the
   integer line, and whatever the time is (no hypothesis on its value) *)
Theorem p_chk_print : forall h, wf_chk h ->
  p_chk whole to_int (print_chk h) = Some (h, []).
Proof.
  intros h Hwf. pose proof (count_lines h Hwf) as Hc.
  pose proof Hwf as (Hml & Hlen & Hint & Htm & _).
  rewrite print_chk_shape. unfold p_chk.
  p_line.
  p_line. p_opt ltac:(apply line_int_str).
  p_line. p_opt ltac:(apply line_int_str).
  rewrite Hc.
  destruct h as [ver ml st il tm d1 d2 lo hi bx tl].
  cbn [ch_version ch_max_level ch_step ch_int ch_time ch_dt1 ch_dt2 ch_lo ch_hi ch_boxes ch_tail] in *.
  destruct il as [l|]; cbn [Z.eqb Pos.eqb app].
  - p_line. p_line. p_opt ltac:(apply line_float_ok; exact Htm).
    exact (p_chk_after_time_print {| ch_version := ver; ch_max_level := ml; ch_step := st; ch_int := Some l; ch_time := tm;
                                     ch_dt1 := d1; ch_dt2 := d2; ch_lo := lo; ch_hi := hi; ch_boxes := bx; ch_tail := tl |}
                                  (Some l) Hwf).
  - p_line. p_opt ltac:(apply line_float_ok; exact Htm).
    exact (p_chk_after_time_print {| ch_version := ver; ch_max_level := ml; ch_step := st; ch_int := None; ch_time := tm;
                                     ch_dt1 := d1; ch_dt2 := d2; ch_lo := lo; ch_hi := hi; ch_boxes := bx; ch_tail := tl |}
                                  None Hwf).
Qed.

(* the pinned reader: right exactly when the VALUE of the first number after the step tells the two layouts apart *)
Theorem p_chk_pinned_print : forall h, wf_chk h ->
  match ch_int h with
  | Some l => exists t, l = [t] /\ float_ok t = true /\ whole t = true
  | None => whole (ch_time h) = false
  end ->
  p_chk_pinned whole to_int (print_chk h) = Some (h, []).
Proof.
  intros h Hwf Hv. pose proof Hwf as (Hml & Hlen & Hint & Htm & _).
  rewrite print_chk_shape. unfold p_chk_pinned.
  p_line.
  p_line. p_opt ltac:(apply line_int_str).
  p_line. p_opt ltac:(apply line_int_str).
  destruct h as [ver ml st il tm d1 d2 lo hi bx tl].
  cbn [ch_version ch_max_level ch_step ch_int ch_time ch_dt1 ch_dt2 ch_lo ch_hi ch_boxes ch_tail] in *.
  destruct il as [l|]; cbn [app].
  - destruct Hv as (t & -> & Hf & Hw).
    p_line. p_opt ltac:(apply line_float_ok; exact Hf). rewrite Hw.
    p_line. p_opt ltac:(apply line_float_ok; exact Htm).
    exact (p_chk_after_time_print {| ch_version := ver; ch_max_level := ml; ch_step := st; ch_int := Some [t]; ch_time := tm;
                                     ch_dt1 := d1; ch_dt2 := d2; ch_lo := lo; ch_hi := hi; ch_boxes := bx; ch_tail := tl |}
                                  (Some [t]) Hwf).
  - p_line. p_opt ltac:(apply line_float_ok; exact Htm). rewrite Hv.
    exact (p_chk_after_time_print {| ch_version := ver; ch_max_level := ml; ch_step := st; ch_int := None; ch_time := tm;
                                     ch_dt1 := d1; ch_dt2 := d2; ch_lo := lo; ch_hi := hi; ch_boxes := bx; ch_tail := tl |}
                                  None Hwf).
Qed.
End Oracles.

(* ------------------------------------------------------------------ *)
(** * The plotfile Header chk2plt writes *)
Lemma zmax_rows_length n : forall rows, rows <> [] -> Forall (fun r : list Z => length r = n) rows ->
  length (zmax_rows rows) = n.
Proof.
  induction rows as [|r rows IH]; intros Hne H; [congruence|].
  pose proof (Forall_inv H) as Hr. pose proof (Forall_inv_tail H) as Hrows. cbv beta in Hr.
  destruct rows as [|r2 rows']; [exact Hr|].
  change (zmax_rows (r :: r2 :: rows')) with
    (map (fun ab : Z * Z => Z.max (fst ab) (snd ab)) (combine r (zmax_rows (r2 :: rows')))).
  rewrite map_length, combine_length, (IH ltac:(discriminate) Hrows). lia.
Qed.

Lemma levels_upto_shift k n :
  map Z.of_nat (seq (S k) n) = map (fun z => z + 1) (map Z.of_nat (seq k n)).
Proof.
  rewrite <- seq_shift, !map_map. apply map_ext. intros a. lia.
Qed.

Section Written.
Variable frepr : token -> token.
Variable dx_row : Z -> list token.
Variable bounds : Z -> list (list (token * token)).

Lemma print_levels_chk h : forall n k,
  print_levels (Z.of_nat k) (map (chk_lb frepr bounds h) (map Z.of_nat (seq k n)))
  = concat (map (fun lv =>
        [[str_of_Z lv; str_of_Z (blen (nth (Z.to_nat lv) (ch_boxes h) [])); frepr (ch_time h)]; [str_of_Z (ch_step h)]]
        ++ concat (map (fun box => map (fun lh : token * token => [fst lh; snd lh]) box) (bounds lv))
        ++ [[bs "Level_" ++ str_of_Z lv ++ bs "/Cell"]])
      (map Z.of_nat (seq k n))).
Proof.
  induction n as [|n IH]; intros k; [reflexivity|].
  cbn [seq map print_levels concat].
  replace (Z.of_nat k + 1) with (Z.of_nat (S k)) by lia. rewrite IH.
  f_equal; unfold print_lvboxes, chk_lb;
  cbn [lb_ncells lb_step_line lb_boxes lb_cell_dir lb_time_tok];
  rewrite <- ?app_assoc; reflexivity.
Qed.

Lemma grid_triple hi : length hi = 3%nat ->
  triple (map (fun _ => 0) hi) hi = [bs "((0,0,0)"; bs "(" ++ join_ints hi ++ bs ")"; bs "(0,0,0))"].
Proof.
  intros H. destruct hi as [|a [|b [|c [|d hi']]]]; try discriminate H. reflexivity.
Qed.

(* line by line, what write_global_header writes is the printed form of the header records: for a three-dimensional
   checkpoint (the zeros of the grid line are written out as (0,0,0)) whose component counts add up to the field list *)
Theorem write_global_header_print : forall h fields nout,
  nout = blen fields ->
  length (grid0 (hd [] (ch_boxes h))) = 3%nat ->
  write_global_header frepr dx_row bounds h fields nout
  = print_header (chk_g frepr dx_row h fields) (chk_lvs frepr bounds h).
Proof.
  intros h fields nout -> Hg.
  unfold print_header, print_gheader, chk_g, chk_lvs. cbv zeta.
  cbn [g_version g_names g_ndims g_time g_max_level g_geo_low g_geo_high g_factors g_grid_hi g_steps g_dx g_sys_coord].
  pose proof (print_levels_chk h (Z.to_nat (ch_max_level h + 1)) 0) as HL.
  change (Z.of_nat 0) with 0 in HL. fold (levels_upto (ch_max_level h)) in HL. rewrite HL. clear HL.
  rewrite !map_map.
  assert (E3 : map (fun lv => triple (map (fun _ : Z => 0) (map (fun s => s - 1) (grid_at (grid0 (hd [] (ch_boxes h))) lv)))
                                     (map (fun s => s - 1) (grid_at (grid0 (hd [] (ch_boxes h))) lv)))
                   (levels_upto (ch_max_level h))
               = map (fun lv => [bs "((0,0,0)"; bs "(" ++ join_ints (map (fun s => s - 1) (grid_at (grid0 (hd [] (ch_boxes h))) lv)) ++ bs ")";
                                 bs "(0,0,0))"]) (levels_upto (ch_max_level h))).
  { apply map_ext. intros lv. apply grid_triple. unfold grid_at. rewrite !map_length. exact Hg. }
  rewrite E3. clear E3.
  unfold write_global_header. cbv zeta. rewrite <- !app_assoc. reflexivity.
Qed.

Definition wf_written (h : chk_header) : Prop :=
  0 <= ch_max_level h /\
  blen (ch_hi h) = 3 /\
  length (grid0 (hd [] (ch_boxes h))) = 3%nat /\
  float_ok (frepr (ch_time h)) = true /\
  Forall (fun t => float_ok (frepr t) = true) (ch_lo h) /\
  Forall (fun t => float_ok (frepr t) = true) (ch_hi h) /\
  (forall lv, 0 <= lv <= ch_max_level h ->
     Forall (fun t => float_ok t = true) (dx_row lv) /\
     blen (bounds lv) = blen (nth (Z.to_nat lv) (ch_boxes h) []) /\
     Forall (fun box => blen box = 3 /\
                        Forall (fun lh : token * token => float_ok (fst lh) = true /\ float_ok (snd lh) = true) box)
            (bounds lv)).

Lemma in_levels_upto m lv : In lv (levels_upto m) -> 0 <= lv <= m.
Proof.
  unfold levels_upto. intros H. apply in_map_iff in H. destruct H as (k & <- & Hk). apply in_seq in Hk. lia.
Qed.

Lemma chk_g_wf h fields : wf_written h -> wf_gheader (chk_g frepr dx_row h fields).
Proof.
  intros (Hml & Hnd & Hg & Htm & Hlo & Hhi & Hlv).
  unfold wf_gheader, chk_g. cbv zeta.
  cbn [g_version g_names g_ndims g_time g_max_level g_geo_low g_geo_high g_factors g_grid_hi g_steps g_dx g_sys_coord].
  repeat split.
  - rewrite Hnd. lia.
  - exact Hml.
  - exact Htm.
  - apply Forall_map. exact Hlo.
  - apply Forall_map. exact Hhi.
  - apply Forall_map. apply Forall_forall. intros lv _ E.
    apply (f_equal (@length Z)) in E. unfold grid_at in E. rewrite !map_length, Hg in E. discriminate E.
  - unfold blen, levels_upto. rewrite !map_length, seq_length. lia.
  - apply Forall_map. apply Forall_forall. intros lv Hin.
    exact (proj1 (Hlv lv (in_levels_upto _ _ Hin))).
Qed.

Lemma level_dir_no_slash k : no_char "/"%char (bs "Level_" ++ str_of_Z k).
Proof.
  unfold no_char. apply Forall_app. split.
  - repeat constructor; discriminate.
  - pose proof (str_numch k) as H. rewrite forallb_forall in H. apply Forall_forall. intros c Hc Hs. subst c.
    specialize (H _ Hc). vm_compute in H. discriminate.
Qed.

Lemma chk_lvs_wf h : wf_written h -> Forall (wf_lvboxes 3) (chk_lvs frepr bounds h).
Proof.
  intros (Hml & Hnd & Hg & Htm & Hlo & Hhi & Hlv).
  unfold chk_lvs. apply Forall_map. apply Forall_forall. intros lv Hin.
  destruct (Hlv lv (in_levels_upto _ _ Hin)) as (_ & Hn & Hb).
  unfold wf_lvboxes, chk_lb. cbn [lb_ncells lb_boxes lb_cell_dir].
  split; [symmetry; exact Hn|]. split; [exact Hb|]. apply level_dir_no_slash.
Qed.

(* the plotfile reader opens the written Header and finds: the requested field list, three dimensions, the
   checkpoint's time / geometry tokens as Python prints them, its number of levels, and per level the
   checkpoint's box count with the Level_k directory *)
Theorem written_header_opens : forall h fields nout limit lim,
  wf_written h -> nout = blen fields ->
  eff_limit (ch_max_level h) limit = Some lim -> 0 <= lim + 1 ->
  open_header (write_global_header frepr dx_row bounds h fields nout) limit
  = Some {| o_g := chk_g frepr dx_row h fields; o_keys := field_keys fields []; o_limit := lim;
            o_levels := restrict_levels lim (chk_lvs frepr bounds h) |}.
Proof.
  intros h fields nout limit lim Hwf Hn Heff Hlim.
  pose proof Hwf as (Hml & Hnd & Hg & _).
  rewrite (write_global_header_print h fields nout Hn Hg).
  apply (open_header_roundtrip (chk_g frepr dx_row h fields) (chk_lvs frepr bounds h) limit lim).
  - apply chk_g_wf. exact Hwf.
  - cbn [chk_g g_ndims]. rewrite Hnd. apply chk_lvs_wf. exact Hwf.
  - unfold chk_lvs, blen, levels_upto. cbn [chk_g g_max_level]. rewrite !map_length, seq_length. lia.
  - exact Heff.
  - exact Hlim.
Qed.
End Written.
