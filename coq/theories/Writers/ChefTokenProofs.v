(* The model's stand-in for a printed minimum / maximum (Chef.word_token) is,
   syntactically, a float literal without a comma: a cooked plotfile is a
   well-formed plotfile of the model.
   Standard library only, no axioms. *)
From AK Require Import Base.Prelude Bytes.Text Bytes.FabHeader Bytes.BinFile
  Reader.Select Plotfile.TextHeader Plotfile.HeaderSpec Writers.Chef.

Lemma dec3_digits c : all_digits (dec3 c) = true.
Proof. destruct c as [[] [] [] [] [] [] [] []]; vm_compute; reflexivity. Qed.

Lemma all_digits_app a b : all_digits a = true -> all_digits b = true -> all_digits (a ++ b) = true.
Proof.
  induction a as [|c a IH]; intros Ha Hb; [exact Hb|]. cbn [app all_digits] in *.
  apply andb_true_iff in Ha. destruct Ha as [Hc Ha]. rewrite Hc, (IH Ha Hb). reflexivity.
Qed.

Lemma all_digits_concat_dec3 l : all_digits (concat (map dec3 l)) = true.
Proof.
  induction l as [|c l IH]; [reflexivity|]. cbn [map concat]. apply all_digits_app; [apply dec3_digits | exact IH].
Qed.

Lemma span_digits_app ds rest : all_digits ds = true ->
  (match rest with c :: _ => is_digit c = false | [] => True end) ->
  span_digits (ds ++ rest) = (ds, rest).
Proof.
  induction ds as [|c ds IH]; intros Hd Hr.
  - destruct rest as [|c r]; [reflexivity|]. cbn [app span_digits]. rewrite Hr. reflexivity.
  - cbn [all_digits] in Hd. apply andb_true_iff in Hd. destruct Hd as [Hc Hd].
    cbn [app span_digits]. rewrite Hc, (IH Hd Hr). reflexivity.
Qed.

(* digits, then the exponent: a float literal *)
Lemma float_ok_digits_exp ds : all_digits ds = true ->
  float_ok (bs "0" ++ ds ++ bs "e-99999") = true.
Proof.
  intros Hd. unfold float_ok.
  change (strip_sign (bs "0" ++ ds ++ bs "e-99999")) with (bs "0" ++ ds ++ bs "e-99999").
  replace (bytes_eqb (map lower (bs "0" ++ ds ++ bs "e-99999")) (bs "inf")
           || bytes_eqb (map lower (bs "0" ++ ds ++ bs "e-99999")) (bs "infinity")
           || bytes_eqb (map lower (bs "0" ++ ds ++ bs "e-99999")) (bs "nan")) with false by reflexivity.
  replace (bs "0" ++ ds ++ bs "e-99999") with ((bs "0" ++ ds) ++ bs "e-99999") by (rewrite <- app_assoc; reflexivity).
  rewrite (span_digits_app (bs "0" ++ ds) (bs "e-99999")); [| apply all_digits_app; [reflexivity | exact Hd] | reflexivity].
  cbn. reflexivity.
Qed.

Theorem word_token_float_ok w : float_ok (word_token w) = true.
Proof. unfold word_token. apply float_ok_digits_exp. apply all_digits_concat_dec3. Qed.

Lemma is_digit_not_comma c : is_digit c = true -> c <> ","%char.
Proof. intros H ->. vm_compute in H. discriminate. Qed.

Lemma all_digits_no_comma ds : all_digits ds = true -> no_char ","%char ds.
Proof.
  induction ds as [|c ds IH]; intros H; [constructor|]. cbn [all_digits] in H. apply andb_true_iff in H. destruct H as [Hc H].
  constructor; [apply is_digit_not_comma; exact Hc | apply IH; exact H].
Qed.

Theorem word_token_no_comma w : no_char ","%char (word_token w).
Proof.
  unfold word_token, no_char. apply Forall_app. split; [repeat constructor; discriminate|].
  apply Forall_app. split; [apply all_digits_no_comma, all_digits_concat_dec3 | repeat constructor; discriminate].
Qed.

Print Assumptions word_token_float_ok.
Print Assumptions word_token_no_comma.
