(* chef, the whole tool: on the directory image of EVERY well-formed 3D
   plotfile (any number of levels, boxes, any box -> file distribution and
   on-disk order) the model of Chef(...).cook() for a user recipe writes exactly
   the directory image of the cooked plotfile [chef_spec]: every box holds the
   kept components bit for bit followed by the recipe's, the level headers
   state the new offsets and the minima / maxima of exactly those components,
   the global header the kept names followed by the recipe's.
   (The minima / maxima are printed by the model as bit patterns, "w:" + hex:
   the decimal printing of floats is outside the model.)
   Standard library only, no axioms. *)
From AK Require Import Base.Prelude Bytes.Text Bytes.FabHeader Bytes.FabHeaderProofs
  Bytes.BinFile Bytes.Word Bytes.WordProofs Reader.Select Reader.BoxRead Reader.Level Reader.ReadSpec
  Reader.LayoutProofs Reader.ReadProofs Reader.IterProofs
  Plotfile.TextHeader Plotfile.HeaderSpec Plotfile.HeaderProofs
  Taste.Taste Taste.TasteSpec Plotfile.Abstract Taste.CompleteProofs Taste.DataProofs
  Writers.Colander Writers.ColanderSpec Writers.ColanderSpecProofs Writers.ColanderProofs
  Writers.ColanderLevelProofs Writers.ColanderHeaderProofs Writers.ColanderToolProofs
  Writers.Chef Writers.ChefProofs Writers.ScatterProofs Writers.ChefLevelProofs Writers.RelistProofs.
From Coq Require Import Permutation.

(* ------------------------------------------------------------------ *)
(** * what cooking must produce, on the abstract plotfile *)
Section Spec.
Variable recipe : nat -> list Z -> list Z -> bytes -> option (list bytes).

(* what the recipe returns for box i of level k *)
Definition new_of_lv (k : nat) (lv : level) (i : nat) : list bytes :=
  let fb := nth i (lv_fabs lv) dummy_fab in
  match recipe k (fab_lo fb) (fab_hi fb) (fab_data fb) with Some l => l | None => [] end.

Definition cooked_plevel (g : gheader) (keep : list Z) (k : nat) (pl : plevel) : plevel :=
  let lv := pl_level pl in
  let n := length (lv_fabs lv) in
  {| pl_boxes := pl_boxes (strained_level g [] k pl);
     pl_level := sorted_lv (cooked_lv lv keep (new_of_lv k lv));      (* the files listed by name, as the tool lists them *)
     pl_mins := map (fun i => map word_token (map comp_min (comps_of lv keep (new_of_lv k lv) i))) (seq 0 n);
     pl_maxs := map (fun i => map word_token (map comp_max (comps_of lv keep (new_of_lv k lv) i))) (seq 0 n) |}.

Definition chef_spec (keep : list Z) (outnames : list bytes) (pf : plotfile) : plotfile :=
  {| pf_g := strained_gheader (pf_g pf) (g_max_level (pf_g pf)) outnames;
     pf_levels := map (fun kl => cooked_plevel (pf_g pf) keep (fst kl) (snd kl))
                      (combine (seq 0 (length (pf_levels pf))) (pf_levels pf)) |}.
End Spec.

(* ------------------------------------------------------------------ *)
(** * the level header *)
Definition cooked_cellh (c : cellh) (offs : list Z) (mins maxs : list (list bytes)) : cellh :=
  {| c_indexes := c_indexes c; c_files := c_files c; c_offsets := offs;
     c_mins := map (map word_token) mins; c_maxs := map (map word_token) maxs |}.

Theorem chef_cell_header_print : forall nf c nout offs mins maxs,
  wf_cellh true c -> c_indexes c <> [] ->
  length offs = length (c_indexes c) ->
  Forall (fun r : list bytes => r <> []) mins -> Forall (fun r : list bytes => r <> []) maxs ->
  chef_cell_header (print_cellh nf c) nout offs mins maxs = Some (print_cellh nout (cooked_cellh c offs mins maxs)).
Proof.
  intros nf c nout offs mins maxs (Hidx & Hfl & Hol & Hmm) Hne Hoffs Hmin Hmax.
  destruct c as [idx files olds omins omaxs]. cbn [c_indexes c_files c_offsets c_mins c_maxs] in *.
  destruct idx as [|ix idx]; [congruence|].
  destruct files as [|f0 files]; [discriminate|]. destruct olds as [|o0 olds]; [discriminate|].
  destruct offs as [|n0 offs]; [discriminate|].
  cbn [length] in Hfl, Hol, Hoffs.
  set (n := blen (ix :: idx)).
  set (tail := [] :: [str_of_Z n ++ bs "," ++ str_of_Z nf] ::
               (map (fun r : list token => [row_token r]) omins ++
                [] :: [str_of_Z n ++ bs "," ++ str_of_Z nf] ::
                map (fun r : list token => [row_token r]) omaxs)).
  set (pre := [bs "0"] :: [bs "(" ++ str_of_Z n; bs "0"] ::
              (map (fun ix0 : list Z * list Z => triple (fst ix0) (snd ix0)) (ix :: idx) ++ [[bs ")"]; [str_of_Z n]])).
  assert (Hshape : print_cellh nf {| c_indexes := ix :: idx; c_files := f0 :: files; c_offsets := o0 :: olds;
                                     c_mins := omins; c_maxs := omaxs |}
                   = [bs "1"] :: [bs "1"] :: [str_of_Z nf] ::
                     (pre ++ fod_line (f0, o0) :: (map fod_line (combine files olds) ++ tail))).
  { rewrite <- (app_nil_r (print_cellh _ _)), print_cellh_shape.
    cbn [c_indexes c_files c_offsets c_mins c_maxs]. fold n. unfold pre, tail.
    cbn [combine map]. rewrite !app_nil_r.
    change (fod_line (f0, o0)) with [bs "FabOnDisk:"; f0; str_of_Z o0].
    cbn [app]. f_equal. f_equal. f_equal. f_equal. f_equal.
    rewrite <- app_assoc. cbn [app]. reflexivity. }
  rewrite Hshape. unfold chef_cell_header.
  assert (Hpre : Forall (fun l => has_fod l = false) pre).
  { unfold pre. constructor; [reflexivity|]. constructor.
    { unfold has_fod. cbn [existsb]. rewrite lp_not_fod. reflexivity. }
    apply Forall_app. split.
    - apply Forall_forall. intros l Hl. apply in_map_iff in Hl. destruct Hl as (x & <- & _). apply triple_no_fod.
    - constructor; [reflexivity|]. constructor; [|constructor].
      unfold has_fod. cbn [existsb]. rewrite str_not_fod. reflexivity. }
  rewrite (copy_until_fod_spec pre (fod_line (f0, o0)) _ [] _ Hpre eq_refl)
    by (apply length_app_lt).
  cbn [obind app].
  rewrite (rewrite_fods_spec files olds offs tail) by (clear -Hfl Hol Hoffs; lia).
  cbn [obind fst snd]. unfold tail. rewrite count_line_split.
  f_equal. unfold print_cellh, cooked_cellh. cbn [c_indexes c_files c_offsets c_mins c_maxs]. fold n. cbv zeta.
  unfold pre. cbn [combine map app]. rewrite set_last_fod.
  change (fod_line (f0, n0)) with [bs "FabOnDisk:"; f0; str_of_Z n0].
  assert (Hrows : forall m : list (list bytes), Forall (fun r : list bytes => r <> []) m ->
            map (fun r : list bytes => [row_token_w (map word_token r)]) m
            = map (fun r : list token => [row_token r]) (map (map word_token) m)).
  { intros m Hm. rewrite map_map. apply map_ext_in. intros r Hr. f_equal. apply row_token_w_nonempty.
    rewrite Forall_forall in Hm. specialize (Hm r Hr). destruct r; [congruence | discriminate]. }
  rewrite (Hrows mins Hmin), (Hrows maxs Hmax).
  f_equal. f_equal. f_equal. f_equal. f_equal.
  rewrite <- !app_assoc. cbn [app]. reflexivity.
Qed.

Print Assumptions chef_cell_header_print.

(* ------------------------------------------------------------------ *)
(** * one level directory *)
Lemma omap_all_combine_seq {A B} (f : nat * A -> option B) (h : nat -> A -> B) : forall (l : list A) s,
  (forall k x, nth_error l k = Some x -> f ((s + k)%nat, x) = Some (h (s + k)%nat x)) ->
  omap_all f (combine (seq s (length l)) l) = Some (map (fun kx => h (fst kx) (snd kx)) (combine (seq s (length l)) l)).
Proof.
  induction l as [|a l IH]; intros s H; [reflexivity|].
  cbn [omap_all length seq combine map fst snd].
  pose proof (H 0%nat a eq_refl) as H0. rewrite Nat.add_0_r in H0. rewrite H0. cbn [obind].
  rewrite (IH (S s)); [reflexivity|].
  intros k x Hk. pose proof (H (S k) x Hk) as H1. replace (s + S k)%nat with (S s + k)%nat in H1 by lia. exact H1.
Qed.

Section OneLevel.
Variable recipe : nat -> list Z -> list Z -> bytes -> option (list bytes).
Variables (pf : plotfile) (keep : list Z) (outnames : list bytes).
Hypothesis Hwf : wf_plotfile pf.
Hypothesis Hkeep : Forall (fun i => 0 <= i < pf_nfields pf) keep.

(* the recipe answers on every box of level k, with one block of 8 * cells bytes per new component, and the
   kept + new components are as many as the output names *)
Definition recipe_fits (k : nat) (pl : plevel) : Prop :=
  forall fb, In fb (lv_fabs (pl_level pl)) ->
    length (fab_lo fb) = 3%nat /\
    exists new, recipe k (fab_lo fb) (fab_hi fb) (fab_data fb) = Some new /\
                Forall (fun c => blen c = 8 * fab_cells fb) new /\
                (new <> [] \/ keep <> []) /\ blen new + blen keep = blen outnames.

(* the same, as a boolean (evaluated on every generated case by the correspondence check) *)
Definition recipe_fitsb (k : nat) (pl : plevel) : bool :=
  forallb (fun fb =>
     (length (fab_lo fb) =? 3)%nat &&
     match recipe k (fab_lo fb) (fab_hi fb) (fab_data fb) with
     | Some new => forallb (fun c => blen c =? 8 * fab_cells fb) new &&
                   negb ((length new =? 0)%nat && (length keep =? 0)%nat) &&
                   (blen new + blen keep =? blen outnames)
     | None => false
     end) (lv_fabs (pl_level pl)).

Lemma recipe_fitsb_spec k pl : recipe_fitsb k pl = true -> recipe_fits k pl.
Proof.
  unfold recipe_fitsb, recipe_fits. intros H fb Hfb. rewrite forallb_forall in H. specialize (H fb Hfb).
  apply andb_true_iff in H. destruct H as [H3 H]. apply Nat.eqb_eq in H3. split; [exact H3|].
  destruct (recipe k (fab_lo fb) (fab_hi fb) (fab_data fb)) as [new|]; [|discriminate].
  apply andb_true_iff in H. destruct H as [H Hn]. apply andb_true_iff in H. destruct H as [Hsz Hne].
  exists new. split; [reflexivity|]. split.
  - apply Forall_forall. intros c Hc. rewrite forallb_forall in Hsz. apply Z.eqb_eq. exact (Hsz c Hc).
  - split; [|apply Z.eqb_eq; exact Hn].
    apply negb_true_iff in Hne. apply andb_false_iff in Hne. destruct Hne as [Hne | Hne]; apply Nat.eqb_neq in Hne.
    + left. intros ->. apply Hne. reflexivity.
    + right. intros E. apply Hne. rewrite E. reflexivity.
Qed.

Lemma chef_level_dir : forall k pl, In pl (pf_levels pf) ->
  lb_cell_dir (pl_boxes pl) = level_name (Z.of_nat k) -> recipe_fits k pl ->
  (do r <- cook_level recipe k (ld_files (snd (pl_dir (pf_nfields pf) pl))) (strip_minmax (pl_cellh pl)) keep (blen outnames);
   let '(newfiles, offs, mins, maxs) := r in
   do t <- ld_cellh (snd (pl_dir (pf_nfields pf) pl));
   do t' <- chef_cell_header t (blen outnames) offs mins maxs;
   Some (lb_cell_dir (pl_boxes pl), {| ld_cellh := Some t'; ld_files := newfiles |}))
  = Some (pl_dir (blen outnames) (cooked_plevel recipe (pf_g pf) keep k pl)).
Proof.
  intros k pl Hin Hdir Hfit.
  destruct Hwf as (_ & _ & _ & Hlv). rewrite Forall_forall in Hlv.
  pose proof (Hlv pl Hin) as Hpl.
  destruct Hpl as (Hb & Hwl & Hnefabs & Hnc & Hncs & Hmn & Hmx & Hmnf & Hmxf).
  set (lv := pl_level pl) in *. set (n := length (lv_fabs lv)).
  set (new_of := new_of_lv recipe k lv).
  assert (Hfab : forall i, (i < n)%nat -> In (nth i (lv_fabs lv) dummy_fab) (lv_fabs lv)) by (intros i Hi; apply nth_In; exact Hi).
  assert (Hnew : forall i, (i < n)%nat ->
            recipe k (fab_lo (nth i (lv_fabs lv) dummy_fab)) (fab_hi (nth i (lv_fabs lv) dummy_fab)) (fab_data (nth i (lv_fabs lv) dummy_fab))
            = Some (new_of i)).
  { intros i Hi. destruct (Hfit _ (Hfab i Hi)) as (_ & new & Hr & _). unfold new_of, new_of_lv. cbv zeta. rewrite Hr. reflexivity. }
  assert (H3 : forall i, (i < n)%nat -> length (fab_lo (nth i (lv_fabs lv) dummy_fab)) = 3%nat)
    by (intros i Hi; exact (proj1 (Hfit _ (Hfab i Hi)))).
  assert (Hk : forall i, (i < n)%nat -> Forall (fun j => 0 <= j < fab_nc (nth i (lv_fabs lv) dummy_fab)) keep).
  { intros i Hi. rewrite Forall_forall in Hncs. rewrite (Hncs _ (Hfab i Hi)). exact Hkeep. }
  assert (Hr : forall i, (i < n)%nat -> recipe_ok recipe k (nth i (lv_fabs lv) dummy_fab) (new_of i)).
  { intros i Hi. split; [exact (Hnew i Hi)|]. destruct (Hfit _ (Hfab i Hi)) as (_ & new & Hrec & Hsz & _).
    rewrite (Hnew i Hi) in Hrec. injection Hrec as <-. exact Hsz. }
  assert (Hne : forall i, (i < n)%nat -> new_of i <> [] \/ keep <> []).
  { intros i Hi. destruct (Hfit _ (Hfab i Hi)) as (_ & new & Hrec & _ & Hn & _). rewrite (Hnew i Hi) in Hrec. injection Hrec as <-. exact Hn. }
  assert (Hno : forall i, (i < n)%nat -> blen (new_of i) + blen keep = blen outnames).
  { intros i Hi. destruct (Hfit _ (Hfab i Hi)) as (_ & new & Hrec & _ & _ & Hn). rewrite (Hnew i Hi) in Hrec. injection Hrec as <-. exact Hn. }
  cbn [pl_dir snd ld_files ld_cellh]. fold lv.
  rewrite (cook_level_spec recipe k lv Hwl keep (blen outnames) new_of H3 Hk Hr Hne Hno (strip_minmax (pl_cellh pl)) eq_refl eq_refl eq_refl).
  cbn [obind].
  assert (Hidxne : c_indexes (pl_cellh pl) <> []).
  { cbn [pl_cellh c_indexes]. fold lv. destruct (lv_fabs lv); [congruence | discriminate]. }
  set (cooked := cooked_lv lv keep new_of).
  assert (Hwc : wf_level cooked = true) by exact (wf_cooked recipe k lv Hwl keep (blen outnames) new_of H3 Hk Hr Hne Hno).
  assert (Hcl : length (cells_or_nil cooked) = n).
  { rewrite (proj2 (cells_or_nil_spec cooked Hwc)), map_length, seq_length. unfold cooked, cooked_lv. cbn [lv_fabs].
    rewrite map_length, seq_length. reflexivity. }
  rewrite (chef_cell_header_print (pf_nfields pf) (pl_cellh pl) (blen outnames) _ _ _
             (wf_cellh_pl _ _ pl true (Hlv pl Hin)) Hidxne).
  2:{ rewrite map_length, Hcl. cbn [pl_cellh c_indexes]. rewrite map_length. reflexivity. }
  2:{ apply Forall_forall. intros r Hrr. apply in_map_iff in Hrr. destruct Hrr as (i & <- & Hi). apply in_seq in Hi.
      unfold comps_of. destruct (Hne i ltac:(lia)) as [Hn | Hn].
      - destruct (new_of i); [congruence|]. destruct (map _ keep); discriminate.
      - destruct keep; [congruence | discriminate]. }
  2:{ apply Forall_forall. intros r Hrr. apply in_map_iff in Hrr. destruct Hrr as (i & <- & Hi). apply in_seq in Hi.
      unfold comps_of. destruct (Hne i ltac:(lia)) as [Hn | Hn].
      - destruct (new_of i); [congruence|]. destruct (map _ keep); discriminate.
      - destruct keep; [congruence | discriminate]. }
  cbn [obind]. unfold pl_dir, cooked_plevel. cbv zeta. fold lv. fold n. fold new_of. fold cooked.
  cbn [pl_boxes strained_level lb_cell_dir pl_level pl_mins pl_maxs]. rewrite Hdir.
  (* names of the cooked cells = names of the input cells *)
  assert (Hnames : map fst (cells_or_nil cooked) = map fst (cells_or_nil lv)).
  { rewrite (proj2 (cells_or_nil_spec cooked Hwc)), (proj2 (cells_or_nil_spec lv Hwl)).
    replace (length (lv_fabs cooked)) with n by (unfold cooked, cooked_lv; cbn [lv_fabs]; rewrite map_length, seq_length; reflexivity).
    fold n. rewrite !map_map.
    apply map_ext_in. intros i Hi. apply in_seq in Hi. unfold cooked.
    rewrite (cooked_loc recipe k lv Hwl keep (blen outnames) new_of H3 Hk Hr Hne Hno i ltac:(lia)). reflexivity. }
  f_equal. f_equal. f_equal.
  - (* the level header *)
    f_equal. f_equal. unfold cooked_cellh, pl_cellh.
    cbn [c_indexes c_files c_offsets c_mins c_maxs pl_level pl_mins pl_maxs]. fold lv.
    rewrite (sorted_cells cooked Hwc).
    assert (Hix : map (fun fb => (fab_lo fb, fab_hi fb)) (lv_fabs (sorted_lv cooked)) = map (fun fb => (fab_lo fb, fab_hi fb)) (lv_fabs lv)).
    { unfold sorted_lv, relisted, cooked, cooked_lv. cbn [lv_fabs]. fold n. rewrite map_map.
      transitivity (map (fun fb => (fab_lo fb, fab_hi fb)) (map (fun i => nth i (lv_fabs lv) dummy_fab) (seq 0 n))).
      - rewrite map_map. apply map_ext. intros i. reflexivity.
      - unfold n. rewrite (map_nth_seq dummy_fab (lv_fabs lv)). reflexivity. }
    rewrite Hix, Hnames, !map_map. reflexivity.
  - (* the binary files *)
    rewrite (sorted_disk cooked), Hnames. reflexivity.
Qed.
End OneLevel.

(* ------------------------------------------------------------------ *)
(** * the tool *)
Theorem chef_refines : forall recipe keep outnames pf,
  wf_plotfile pf -> std_dirs pf -> g_ndims (pf_g pf) = 3 -> 0 <= g_max_level (pf_g pf) ->
  Forall (fun i => 0 <= i < pf_nfields pf) keep ->
  (forall k pl, nth_error (pf_levels pf) k = Some pl -> recipe_fits recipe keep outnames k pl) ->
  chef recipe keep outnames (pf_disk pf) = Some (pf_disk (chef_spec recipe keep outnames pf)).
Proof.
  intros recipe keep outnames pf Hwf Hstd Hnd Hlim Hkeep Hfit.
  set (lim := g_max_level (pf_g pf)).
  unfold chef.
  change (pd_header (pf_disk pf)) with (Some (print_header (pf_g pf) (map pl_boxes (pf_levels pf)))).
  cbn [obind].
  rewrite (open_header_complete pf None lim Hwf eq_refl Hlim). cbn [obind].
  rewrite (open_levels_complete pf lim false Hwf). cbn [obind].
  replace (g_ndims (o_g (opened_of pf lim)) =? 3) with true by (cbn [opened_of o_g]; rewrite Hnd; reflexivity).
  cbn [obind]. cbv zeta.
  assert (HL : firstn (Z.to_nat (lim + 1)) (pf_levels pf) = pf_levels pf).
  { apply firstn_all2. destruct Hwf as (_ & Hlen & _). unfold blen in Hlen. fold lim in Hlen. lia. }
  set (L := pf_levels pf) in *.
  assert (Hdirs :
    omap_all (fun klbc : nat * (lvboxes * (ldir * cellh)) =>
                do r <- cook_level recipe (fst klbc) (ld_files (fst (snd (snd klbc)))) (snd (snd (snd klbc))) keep (blen outnames);
                (let '(newfiles, offs, mins, maxs) := r in
                 do t <- ld_cellh (fst (snd (snd klbc)));
                 do t' <- chef_cell_header t (blen outnames) offs mins maxs;
                 Some (lb_cell_dir (fst (snd klbc)), {| ld_cellh := Some t'; ld_files := newfiles |})))
             (combine (seq 0 (length (opened_levels pf lim false))) (combine (o_levels (opened_of pf lim)) (opened_levels pf lim false)))
    = Some (map (pl_dir (blen outnames))
                (map (fun kl => cooked_plevel recipe (pf_g pf) keep (fst kl) (snd kl)) (combine (seq 0 (length L)) L)))).
  { unfold opened_of, opened_levels, restrict_levels. cbn [o_levels]. rewrite firstn_map. fold L. rewrite HL.
    rewrite combine_map_both.
    set (g := fun pl : plevel => (pl_boxes pl, (snd (pl_dir (pf_nfields pf) pl), strip_minmax (pl_cellh pl)))).
    rewrite !map_length.
    replace (combine (seq 0 (length L)) (map g L)) with (map (fun kx : nat * plevel => (fst kx, g (snd kx))) (combine (seq 0 (length L)) L)).
    2:{ rewrite <- (combine_seq_map g L 0%nat), map_length. reflexivity. }
    rewrite omap_all_map_pre. cbn [fst snd g].
    rewrite map_map.
    apply (omap_all_combine_seq _ (fun k pl => pl_dir (blen outnames) (cooked_plevel recipe (pf_g pf) keep k pl)) L 0%nat).
    intros k pl Hkpl. cbn [Nat.add fst snd].
    apply (chef_level_dir recipe pf keep outnames Hwf Hkeep k pl (nth_error_In _ _ Hkpl) (Hstd k pl Hkpl) (Hfit k pl Hkpl)). }
  rewrite Hdirs. cbn [obind].
  unfold pf_disk, chef_spec. cbn [pf_g pf_levels]. fold L. f_equal. f_equal.
  - f_equal.
    pose proof (strained_header_spec pf lim (map (fun _ : bytes => 0) outnames) outnames ltac:(apply map_length)) as Hh.
    cbv zeta in Hh. fold L in Hh. rewrite HL in Hh. rewrite Hh. fold lim.
    f_equal. rewrite !map_map. apply map_ext. intros [k pl]. reflexivity.
Qed.

Print Assumptions chef_refines.
