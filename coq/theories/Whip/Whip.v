(* amr_kitchen/whip/cli.py: the uniform 3D grid of one field.

   readfieldfrombinfile(args): sequential scan of one binary file
       h = readline(); idx = indices_from_header(h.decode('ascii'))
       shape = idx[1] - idx[0] + 1; tshape = [shape[0], shape[1], shape[2], N_FIELDS]
       seek(prod(shape)*FIELD_INDEX*8, 1); arr = fromfile(prod(shape)).reshape(shape, 'F')
       seek(prod(tshape)*8 - prod(shape)*FIELD_INDEX*8 - prod(shape)*8, 1)
     any exception ends the scan, keeping what was appended.
   main(): data = zeros(grid); for lv in 0..limit: for res in imap_unordered(files):
       for idx, arr in res: data[f*lo:(hi+1)*f ...] = expand_array3d(arr, f)   *)
From AK Require Import Base.Prelude Bytes.Text Bytes.FabHeader Bytes.BinFile
  Reader.Select Reader.BoxRead Reader.Level Array.Paint Mandoline.Plate.

Fixpoint whip_scan (fuel : nat) (f : bytes) (pos : Z) (nfields fidx : Z)
  : list (list Z * list Z * bytes) :=
  match fuel with
  | O => []
  | S fuel' =>
      match read_header f pos with
      | None => []
      | Some (h, shp, p1) =>
          match shp with
          | [s0; s1; s2] =>                 (* shape[2] exists; only 3D FABs are modelled *)
              let cells := zprod shp in
              let p2 := p1 + cells * fidx * 8 in
              if p2 <? 0 then [] else
              let data := fromfile f p2 cells in
              if negb (reshape_ok data shp) then [] else
              let remainder := s0 * s1 * s2 * nfields * 8 - cells * fidx * 8 - cells * 8 in
              let p3 := p2 + blen data + remainder in
              (h_lo h, h_hi h, data) ::
                (if p3 <? 0 then [] else whip_scan fuel' f p3 nfields fidx)
          | _ => []
          end
      end
  end.

Definition readfieldfrombinfile (f : bytes) (nfields fidx : Z) : list (list Z * list Z * bytes) :=
  whip_scan (S (length f)) f 0 nfields fidx.

(* ---- arrays ---- *)
Definition reshape_F3 (nx ny nz : nat) (data : bytes) : list (list (list word)) :=
  map (fun i => map (fun j => map (fun k => sub (8 * Z.of_nat (i + nx * (j + ny * k))) 8 data)
                                  (seq 0 nz)) (seq 0 ny)) (seq 0 nx).

(* utils.expand_array3d: np.repeat along axis 0, then 1, then 2 *)
Definition expand_array3d {A} (arr : list (list (list A))) (f : nat) : list (list (list A)) :=
  map (map (np_repeat f)) (map (np_repeat f) (np_repeat f arr)).

Definition nth3 {A} (d : A) (a : list (list (list A))) (i j k : Z) : A :=
  nth (Z.to_nat k) (nth (Z.to_nat j) (nth (Z.to_nat i) a []) []) d.

(* the slice assignment of one scanned box at refinement factor [f] *)
Definition whip_patch (f : nat) (b : list Z * list Z * bytes) : @patch word :=
  let '(lo, hi, data) := b in
  let fz := Z.of_nat f in
  let shp := box_shape lo hi in
  let arr := match shp with
             | [s0; s1; s2] => reshape_F3 (Z.to_nat s0) (Z.to_nat s1) (Z.to_nat s2) data
             | _ => []
             end in
  let e := expand_array3d arr f in
  {| p_start := slice_start fz lo; p_stop := slice_stop fz hi;
     p_val := fun p => match p, lo with
                       | [x; y; z], [lx; ly; lz] => nth3 [] e (x - lx * fz) (y - ly * fz) (z - lz * fz)
                       | _, _ => []
                       end |}.

Fixpoint permute {A} (d : A) (order : list nat) (l : list A) : list A :=
  match order with
  | [] => []
  | i :: order' => nth i l d :: permute d order' l
  end.

(* one level: the per-file results, delivered in completion order [order]
   (indices into np.unique(files)), painted as they arrive *)
Definition whip_level (L : nat) (nfields fidx : Z) (klv : nat * level) (order : list nat)
  : option (list (@patch word)) :=
  let '(k, lv) := klv in
  do cells <- lv_cells lv;
  let names := np_unique (map fst cells) in
  do files <- omap_all (fun n => lookup n (lv_disk lv)) names;
  let results := map (fun f => readfieldfrombinfile f nfields fidx) files in
  Some (map (whip_patch (nat_pow2 (L - k))) (concat (permute [] order results))).

(* orders: one completion order per level *)
Definition whip (lvls : list level) (L : nat) (nfields fidx : Z) (orders : list (list nat))
  : option (@canvas word) :=
  let sel := firstn (S L) lvls in
  do pts <- omap_all (fun ko => whip_level L nfields fidx (fst ko) (snd ko))
                     (combine (combine (seq 0 (length sel)) sel) orders);
  Some (paint_levels pts blank).

(* np.zeros: a pixel never written holds 0.0; (x, y, z) axes, C order *)
Definition zero_word : word := repeat "000"%char 8.
Definition render3 (c : @canvas word) (nx ny nz : nat) : list word :=
  map (fun xyz => match c [Z.of_nat (fst (fst xyz)); Z.of_nat (snd (fst xyz)); Z.of_nat (snd xyz)] with
                  | Some w => w
                  | None => zero_word
                  end)
      (list_prod (list_prod (seq 0 nx) (seq 0 ny)) (seq 0 nz)).
