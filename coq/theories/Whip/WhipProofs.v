(* Proofs about the whip model: the per-file scan returns every box of the
   file with the chosen component, expansion replicates cells, and the
   painted grid is the covering grid whatever the completion order of the
   per-file tasks.  Standard library only. *)
From AK Require Import Base.Prelude Bytes.Text Bytes.FabHeader Bytes.FabHeaderProofs
  Bytes.BinFile Reader.Select Reader.BoxRead Reader.Level Reader.ReadSpec
  Reader.LayoutProofs Reader.ReadProofs Reader.GetItemProofs Reader.IterProofs
  Array.Paint Array.Amr Mandoline.Plate Mandoline.PlateProofs Whip.Whip.
From Coq Require Import Permutation.

Definition fab3d (fb : fab) : Prop := length (fab_lo fb) = 3%nat.
Definition tr (fidx : Z) (fb : fab) : list Z * list Z * bytes := (fab_lo fb, fab_hi fb, fab_comp fb fidx).

(* ------------------------------------------------------------------ *)
(** * the sequential scan of one binary file *)

Lemma fab3d_shape fb : fab_ok fb = true -> fab3d fb ->
  exists s0 s1 s2, fab_shape fb = [s0; s1; s2] /\ 1 <= s0 /\ 1 <= s1 /\ 1 <= s2.
Proof.
  intros Hok H3. destruct (fab_ok_inv fb Hok) as (_ & _ & Hlen & Hshape & _).
  unfold fab3d in H3. unfold fab_shape, box_shape in *.
  destruct (fab_lo fb) as [|a [|b [|c [|? ?]]]]; try (cbn in H3; lia).
  destruct (fab_hi fb) as [|a' [|b' [|c' [|? ?]]]]; try (cbn in Hlen; lia).
  cbn [zip_with] in *. cbn [forallb] in Hshape.
  rewrite !andb_true_iff in Hshape. destruct Hshape as (H0 & H1 & H2 & _).
  eexists. eexists. eexists. split; [reflexivity|]. lia.
Qed.

Lemma whip_scan_spec : forall (fs : list fab) (nfields fidx : Z) (fuel : nat) (pre : bytes),
  Forall (fun fb => fab_ok fb = true /\ fab3d fb /\ fab_nc fb = nfields) fs ->
  0 <= fidx < nfields ->
  (length fs < fuel)%nat ->
  whip_scan fuel (pre ++ encode_file fs) (blen pre) nfields fidx = map (tr fidx) fs.
Proof.
  induction fs as [|fb fs IH]; intros nfields fidx fuel pre Hfs Hf Hfuel.
  - destruct fuel as [|fuel]; [cbn [length] in Hfuel; lia|].
    cbn [whip_scan map]. rewrite encode_file_nil, read_header_eof. reflexivity.
  - inversion Hfs as [|? ? (Hok & H3 & Hnc) Hfs']; subst.
    destruct fuel as [|fuel]; [cbn [length] in Hfuel; lia|]. cbn [length] in Hfuel.
    cbn [whip_scan map]. rewrite encode_file_cons.
    rewrite (read_header_at pre fb (encode_file fs) Hok).
    destruct (fab3d_shape fb Hok H3) as (s0 & s1 & s2 & Hshp & Hs0 & Hs1 & Hs2).
    rewrite Hshp. rewrite <- Hshp. cbv zeta.
    change (zprod (fab_shape fb)) with (fab_cells fb).
    destruct (fab_ok_inv fb Hok) as (_ & _ & _ & Hshape & Hncpos & Hdata).
    pose proof (fab_cells_pos fb Hok) as Hcells.
    pose proof (blen_nonneg pre) as Hpre. pose proof (blen_nonneg (fab_hdr fb)) as Hh.
    assert (Hnn : 0 <= fab_cells fb * fidx) by nia.
    destruct (blen pre + blen (fab_hdr fb) + fab_cells fb * fidx * 8 <? 0) eqn:E1; [lia|].
    assert (Hff : fromfile (pre ++ encode_fab fb ++ encode_file fs)
                    (blen pre + blen (fab_hdr fb) + fab_cells fb * fidx * 8) (fab_cells fb) = fab_comp fb fidx).
    { unfold encode_fab. rewrite <- app_assoc.
      rewrite fromfile_at; [| lia | lia | rewrite Hdata; nia].
      replace (8 * (fab_cells fb * fidx)) with (8 * fab_cells fb * fidx) by ring. reflexivity. }
    rewrite !Hff.
    assert (Hbl : blen (fab_comp fb fidx) = 8 * fab_cells fb) by (unfold fab_comp; apply blen_sub; nia).
    rewrite reshape_ok_true;
      [| apply (forallb_imp (fun d => 1 <=? d)); [intros d Hd; lia | exact Hshape]
       | exact Hbl ].
    cbn [negb].
    unfold tr at 1. f_equal.
    assert (Hcells3 : fab_cells fb = s0 * s1 * s2).
    { unfold fab_cells. rewrite Hshp. unfold zprod. cbn [fold_right]. ring. }
    assert (Hp3 : blen pre + blen (fab_hdr fb) + fab_cells fb * fidx * 8 + blen (fab_comp fb fidx)
                  + (s0 * s1 * s2 * fab_nc fb * 8 - fab_cells fb * fidx * 8 - fab_cells fb * 8)
                  = blen (pre ++ encode_fab fb)).
    { rewrite blen_app, (blen_encode_fab fb Hok), Hbl, Hcells3. ring. }
    rewrite Hp3.
    pose proof (blen_nonneg (pre ++ encode_fab fb)) as Hnn2.
    destruct (blen (pre ++ encode_fab fb) <? 0) eqn:E; [lia|].
    replace (pre ++ encode_fab fb ++ encode_file fs) with ((pre ++ encode_fab fb) ++ encode_file fs)
      by (rewrite <- !app_assoc; reflexivity).
    apply IH; [exact Hfs' | exact Hf | lia].
Qed.

Theorem readfield_spec : forall (fs : list fab) (nfields fidx : Z),
  Forall (fun fb => fab_ok fb = true /\ fab3d fb /\ fab_nc fb = nfields) fs ->
  0 <= fidx < nfields ->
  readfieldfrombinfile (encode_file fs) nfields fidx = map (tr fidx) fs.
Proof.
  intros fs nfields fidx Hfs Hf. unfold readfieldfrombinfile.
  change (encode_file fs) with ([] ++ encode_file fs) at 2.
  change 0 with (blen (@nil ascii)).
  apply whip_scan_spec; [exact Hfs | exact Hf |].
  pose proof (length_encode_file_ge fs). lia.
Qed.

(* ------------------------------------------------------------------ *)
(** * expansion and reshape in 3D *)

Lemma nth_map_nil {A B} (g : list A -> list B) (l : list (list A)) i :
  g [] = [] -> nth i (map g l) [] = g (nth i l []).
Proof. intros H. rewrite <- H at 1. apply map_nth. Qed.

Theorem expand3_spec {A} (d : A) : forall (arr : list (list (list A))) (f i j k : nat),
  (0 < f)%nat ->
  nth k (nth j (nth i (expand_array3d arr f) []) []) d
  = nth (k / f) (nth (j / f) (nth (i / f) arr []) []) d.
Proof.
  intros arr f i j k Hf. unfold expand_array3d.
  rewrite (nth_map_nil (map (np_repeat f))) by reflexivity.
  rewrite (nth_map_nil (np_repeat f)) by reflexivity.
  rewrite nth_np_repeat by exact Hf.
  rewrite (nth_map_nil (np_repeat f)) by reflexivity.
  rewrite nth_np_repeat by exact Hf.
  rewrite nth_np_repeat by exact Hf. reflexivity.
Qed.

Lemma reshape_F3_nth (nx ny nz : nat) (data : bytes) (i j k : nat) :
  (i < nx)%nat -> (j < ny)%nat -> (k < nz)%nat ->
  nth k (nth j (nth i (reshape_F3 nx ny nz data) []) []) [] = sub (8 * Z.of_nat (i + nx * (j + ny * k))) 8 data.
Proof.
  intros Hi Hj Hk. unfold reshape_F3.
  rewrite nth_map_seq by exact Hi. rewrite nth_map_seq by exact Hj. rewrite nth_map_seq by exact Hk.
  reflexivity.
Qed.

(* the stored word of component [c] of a 3D box at the cell (i, j, k) relative to its low corner *)
Definition cell_word3 (fb : fab) (c : Z) (i j k : Z) : word :=
  match fab_shape fb with
  | [s0; s1; _] => sub (8 * (i + s0 * (j + s1 * k))) 8 (fab_comp fb c)
  | _ => []
  end.

Definition wpatch (L : nat) (fidx : Z) (j : nat) (fb : fab) : @patch word :=
  whip_patch (nat_pow2 (L - j)) (tr fidx fb).

Lemma wpatch_covers L fidx j fb p :
  covers (wpatch L fidx j fb) p = cell_in (fab_lo fb) (fab_hi fb) (coarsen (Z.of_nat (nat_pow2 (L - j))) p).
Proof.
  unfold wpatch, whip_patch, tr, covers. cbn [p_start p_stop].
  apply in_slice_coarsen. apply pow2_pos.
Qed.

Lemma div_nat_Z (a fz : Z) (f : nat) : fz = Z.of_nat f -> (0 < f)%nat -> 0 <= a ->
  (Z.to_nat a / f)%nat = Z.to_nat (a / fz).
Proof.
  intros -> Hf Ha. rewrite <- (Nat2Z.id (Z.to_nat a / f)). f_equal.
  rewrite Nat2Z.inj_div, Z2Nat.id by lia. reflexivity.
Qed.

Lemma wpatch_val L fidx lv fb x y z :
  fab_ok fb = true -> fab3d fb ->
  cell_in (fab_lo fb) (fab_hi fb) (coarsen (Z.of_nat (nat_pow2 (L - lv))) [x; y; z]) = true ->
  let f := Z.of_nat (nat_pow2 (L - lv)) in
  p_val (wpatch L fidx lv fb) [x; y; z]
  = cell_word3 fb fidx (x / f - nth 0 (fab_lo fb) 0) (y / f - nth 1 (fab_lo fb) 0) (z / f - nth 2 (fab_lo fb) 0).
Proof.
  intros Hok H3 Hin f.
  destruct (fab_ok_inv fb Hok) as (_ & _ & Hlen & _).
  unfold fab3d in H3.
  destruct (fab_lo fb) as [|lx [|ly [|lz [|? ?]]]] eqn:Elo; try (cbn in H3; lia).
  destruct (fab_hi fb) as [|hx [|hy [|hz [|? ?]]]] eqn:Ehi; try (cbn in Hlen; lia).
  set (fn := nat_pow2 (L - lv)) in *. pose proof (pow2_pos (L - lv)) as Hfz. fold fn in Hfz.
  assert (Hf : (0 < fn)%nat) by lia.
  unfold cell_in, coarsen in Hin. cbn [map in_slice] in Hin.
  rewrite !andb_true_iff in Hin. destruct Hin as [[Hx1 Hx2] [[Hy1 Hy2] [[Hz1 Hz2] _]]].
  assert (Hshape : fab_shape fb = [hx - lx + 1; hy - ly + 1; hz - lz + 1]).
  { unfold fab_shape, box_shape. rewrite Elo, Ehi. reflexivity. }
  unfold wpatch, whip_patch, tr. rewrite Elo, Ehi. cbn [p_val nth].
  change (box_shape [lx; ly; lz] [hx; hy; hz]) with [hx - lx + 1; hy - ly + 1; hz - lz + 1].
  cbv iota beta. fold fn. unfold nth3.
  rewrite (@expand3_spec word (@nil ascii) _ fn _ _ _ Hf).
  assert (Hnx : 0 <= x - lx * f) by (pose proof (Z.mul_div_le x f Hfz); unfold f in *; nia).
  assert (Hny : 0 <= y - ly * f) by (pose proof (Z.mul_div_le y f Hfz); unfold f in *; nia).
  assert (Hnz : 0 <= z - lz * f) by (pose proof (Z.mul_div_le z f Hfz); unfold f in *; nia).
  fold f.
  rewrite (div_nat_Z (x - lx * f) f fn eq_refl Hf Hnx), (rel_div f lx x Hfz).
  rewrite (div_nat_Z (y - ly * f) f fn eq_refl Hf Hny), (rel_div f ly y Hfz).
  rewrite (div_nat_Z (z - lz * f) f fn eq_refl Hf Hnz), (rel_div f lz z Hfz).
  fold f in Hx1, Hx2, Hy1, Hy2, Hz1, Hz2.
  set (qx := x / f) in *. set (qy := y / f) in *. set (qz := z / f) in *. clearbody qx qy qz.
  rewrite reshape_F3_nth by lia.
  unfold cell_word3. rewrite Hshape. f_equal.
  rewrite !Nat2Z.inj_add, !Nat2Z.inj_mul, !Nat2Z.inj_add, !Nat2Z.inj_mul, !Z2Nat.id by lia. reflexivity.
Qed.

(* ------------------------------------------------------------------ *)
(** * one level: every box is painted, whatever the completion order *)

Definition level_ok3 (nf : Z) (lv : level) : Prop :=
  wf_level lv = true /\ Forall (fun fb => fab3d fb /\ fab_nc fb = nf) (lv_fabs lv).

Lemma In_permute {A} (order : list nat) (results : list (list A)) (x : A) :
  (forall i, (i < length results)%nat -> In i order) ->
  (In x (concat (permute [] order results)) <-> In x (concat results)).
Proof.
  intros Hall. split; intros H.
  - apply in_concat in H. destruct H as (r & Hr & Hx).
    assert (Hex : exists i, r = nth i results []).
    { clear -Hr. induction order as [|i order IH]; cbn [permute] in Hr; [contradiction|].
      destruct Hr as [<-|Hr]; [exists i; reflexivity | apply IH; exact Hr]. }
    destruct Hex as [i ->].
    destruct (Nat.lt_ge_cases i (length results)) as [Hlt|Hge].
    + apply in_concat. exists (nth i results []). split; [apply nth_In; exact Hlt | exact Hx].
    + rewrite nth_overflow in Hx by exact Hge. contradiction.
  - apply in_concat in H. destruct H as (r & Hr & Hx).
    apply (In_nth _ _ []) in Hr. destruct Hr as (i & Hi & <-).
    apply in_concat. exists (nth i results []). split; [|exact Hx].
    specialize (Hall i Hi). clear -Hall.
    induction order as [|j order IH]; [contradiction|]. cbn [permute].
    destruct Hall as [->|Hall]; [left; reflexivity | right; apply IH; exact Hall].
Qed.

Lemma lookup_files lv : wf_level lv = true -> forall files' : list (bytes * list nat),
  (forall nf, In nf files' -> In nf (lv_files lv)) ->
  omap_all (fun n => lookup n (lv_disk lv)) (map fst files')
  = Some (map (fun nf => encode_file (file_fabs lv (snd nf))) files').
Proof.
  intros Hwf. induction files' as [|[n ids] fl IH]; intros Hin; [reflexivity|].
  cbn [map omap_all fst snd].
  rewrite (lookup_lv_disk lv n ids Hwf (Hin _ (or_introl eq_refl))). cbn [obind].
  rewrite IH by (intros nf Hnf; apply Hin; right; exact Hnf). reflexivity.
Qed.

Theorem whip_level_spec : forall L nf fidx k lv order,
  level_ok3 nf lv -> 0 <= fidx < nf ->
  (forall i, (i < length (lv_files lv))%nat -> In i order) ->
  exists pts, whip_level L nf fidx (k, lv) order = Some pts /\
    forall pt, In pt pts <-> exists fb, In fb (lv_fabs lv) /\ pt = wpatch L fidx k fb.
Proof.
  intros L nf fidx k lv order [Hwf Hfabs] Hf Horder.
  destruct (lv_cells_spec lv Hwf) as (cells & Hcells & _).
  pose proof (level_names_perm lv cells Hwf Hcells) as Pn.
  apply Permutation_map_inv in Pn. destruct Pn as (files' & Hnames & Pf).
  assert (Hin' : forall nf0, In nf0 files' -> In nf0 (lv_files lv)).
  { intros nf0 H. apply (Permutation_in _ (Permutation_sym Pf)). exact H. }
  unfold whip_level. rewrite Hcells. cbn [obind]. cbv zeta. rewrite Hnames.
  rewrite (lookup_files lv Hwf files' Hin'). cbn [obind].
  rewrite map_map.
  set (F := fun nf0 : bytes * list nat => file_fabs lv (snd nf0)).
  assert (Hres : map (fun nf0 => readfieldfrombinfile (encode_file (file_fabs lv (snd nf0))) nf fidx) files'
                 = map (fun nf0 => map (tr fidx) (F nf0)) files').
  { apply map_ext_in. intros [n ids] Hnf. cbn [snd]. apply readfield_spec; [|exact Hf].
    apply Forall_forall. intros fb Hfb.
    assert (Hfb' : In fb (lv_fabs lv)) by (apply (file_fabs_In lv n ids fb Hwf (Hin' _ Hnf) Hfb)).
    rewrite Forall_forall in Hfabs. destruct (Hfabs fb Hfb') as [H3 Hnc].
    split; [apply (wf_level_fab_ok lv); assumption | split; assumption]. }
  rewrite Hres.
  eexists. split; [reflexivity|].
  intros pt. rewrite in_map_iff.
  assert (Hlen : length (map (fun nf0 => map (tr fidx) (F nf0)) files') = length (lv_files lv)).
  { rewrite map_length. symmetry. apply Permutation_length. exact Pf. }
  assert (Hmem : forall x, In x (concat (map (fun nf0 => map (tr fidx) (F nf0)) files'))
                           <-> exists fb, In fb (lv_fabs lv) /\ x = tr fidx fb).
  { intros x.
    assert (P1 : Permutation (concat (map (fun nf0 => map (tr fidx) (F nf0)) files'))
                             (map (tr fidx) (lv_fabs lv))).
    { apply (Permutation_trans (l' := concat (map (fun nf0 => map (tr fidx) (F nf0)) (lv_files lv)))).
      - apply Permutation_concat_map. apply Permutation_sym. exact Pf.
      - rewrite <- (map_map F (map (tr fidx))). rewrite <- concat_map.
        apply Permutation_map. apply files_partition. exact Hwf. }
    split; intros H.
    - apply (Permutation_in _ P1) in H. apply in_map_iff in H. destruct H as (fb & <- & Hfb).
      exists fb. split; [exact Hfb | reflexivity].
    - destruct H as (fb & Hfb & ->). apply (Permutation_in _ (Permutation_sym P1)).
      apply in_map. exact Hfb. }
  assert (Hall : forall i, (i < length (map (fun nf0 => map (tr fidx) (F nf0)) files'))%nat -> In i order).
  { intros i Hi. apply Horder. rewrite <- Hlen. exact Hi. }
  split.
  - intros (x & <- & Hx).
    apply (proj1 (In_permute order _ x Hall)) in Hx.
    apply Hmem in Hx. destruct Hx as (fb & Hfb & ->). exists fb. split; [exact Hfb | reflexivity].
  - intros (fb & Hfb & ->). exists (tr fidx fb). split; [reflexivity|].
    apply (proj2 (In_permute order _ (tr fidx fb) Hall)).
    apply Hmem. exists fb. split; [exact Hfb | reflexivity].
Qed.

(* ------------------------------------------------------------------ *)
(** * the whole grid *)

Lemma nth_error_combine {A B} : forall (a : list A) (b : list B) i x y,
  nth_error (combine a b) i = Some (x, y) <-> nth_error a i = Some x /\ nth_error b i = Some y.
Proof.
  induction a as [|a0 a IH]; intros [|b0 b] i x y; cbn [combine].
  - destruct i; cbn; (split; [discriminate | intros [H _]; discriminate]).
  - destruct i; cbn; (split; [discriminate | intros [H _]; discriminate]).
  - destruct i; cbn; (split; [discriminate | intros [_ H]; discriminate]).
  - destruct i as [|i]; cbn [nth_error].
    + split; [intros H; injection H as <- <-; split; reflexivity | intros [H1 H2]; congruence].
    + apply IH.
Qed.

Lemma omap_all_rel {A B} (f : A -> option B) (R : nat -> A -> B -> Prop) : forall l s,
  (forall i a, nth_error l i = Some a -> exists b, f a = Some b /\ R (s + i)%nat a b) ->
  exists r, omap_all f l = Some r /\ length r = length l /\
    forall i a b, nth_error l i = Some a -> nth_error r i = Some b -> R (s + i)%nat a b.
Proof.
  induction l as [|a l IH]; intros s H.
  - exists []. cbn. repeat split. intros [|i] ? ? H1; discriminate.
  - destruct (H 0%nat a eq_refl) as (b & Hb & Rb).
    destruct (IH (S s)) as (r & Hr & Hlen & Hrel).
    { intros i a' Hi. destruct (H (S i) a' Hi) as (b' & Hb' & Rb'). exists b'. split; [exact Hb'|].
      replace (S s + i)%nat with (s + S i)%nat by lia. exact Rb'. }
    exists (b :: r). cbn [omap_all]. rewrite Hb. cbn [obind]. rewrite Hr. cbn [obind].
    repeat split; [cbn; lia|].
    intros [|i] a' b' Ha Hb'; cbn [nth_error] in *.
    + injection Ha as <-. injection Hb' as <-. exact Rb.
    + replace (s + S i)%nat with (S s + i)%nat by lia. apply (Hrel i a' b' Ha Hb').
Qed.

Definition fac (L : nat) (j : nat) : Z := Z.of_nat (nat_pow2 (L - j)).

Definition orders_complete (sel : list level) (orders : list (list nat)) : Prop :=
  length orders = length sel /\
  forall j lv order, nth_error sel j = Some lv -> nth_error orders j = Some order ->
    forall i, (i < length (lv_files lv))%nat -> In i order.

Theorem whip_patches : forall lvls L nf fidx orders,
  Forall (level_ok3 nf) lvls -> 0 <= fidx < nf ->
  orders_complete (firstn (S L) lvls) orders ->
  exists pts,
    omap_all (fun ko => whip_level L nf fidx (fst ko) (snd ko))
             (combine (combine (seq 0 (length (firstn (S L) lvls))) (firstn (S L) lvls)) orders) = Some pts /\
    patches_of (wpatch L fidx) (map lv_fabs (firstn (S L) lvls)) pts.
Proof.
  intros lvls L nf fidx orders Hl Hf [Hlen Hcomp].
  set (sel := firstn (S L) lvls) in *.
  assert (Hsel : forall lv, In lv sel -> level_ok3 nf lv).
  { intros lv Hin. rewrite Forall_forall in Hl. apply Hl.
    unfold sel in Hin. revert Hin. generalize (S L). clear. intros n. revert lvls.
    induction n as [|n IH]; intros [|x l] H; cbn in H; try contradiction.
    destruct H as [H|H]; [left; exact H | right; apply IH; exact H]. }
  destruct (omap_all_rel (fun ko => whip_level L nf fidx (fst ko) (snd ko))
              (fun i (ko : nat * level * list nat) (pts : list (@patch word)) =>
                 forall pt, In pt pts <-> exists fb, In fb (lv_fabs (snd (fst ko))) /\ pt = wpatch L fidx i fb)
              (combine (combine (seq 0 (length sel)) sel) orders) 0%nat) as (r & Hr & Hrl & Hrel).
  { intros i [[k lv] order] Hi. cbn [fst snd].
    apply nth_error_combine in Hi. destruct Hi as [Hi Ho].
    destruct (nth_error_combine_seq_inv _ _ _ _ _ Hi) as [-> Hlv]. cbn [Nat.add].
    destruct (whip_level_spec L nf fidx i lv order) as (pts & Hpts & Hmem).
    - apply Hsel. apply (nth_error_In _ _ Hlv).
    - exact Hf.
    - apply (Hcomp i lv order Hlv Ho).
    - exists pts. split; assumption. }
  exists r. split; [exact Hr|].
  assert (Hcl : length (combine (combine (seq 0 (length sel)) sel) orders) = length sel).
  { rewrite !combine_length, seq_length. lia. }
  split.
  - rewrite map_length. lia.
  - intros j bs ps Hbs Hps.
    rewrite nth_error_map in Hbs.
    destruct (nth_error sel j) as [lv|] eqn:Elv; [|discriminate]. cbn in Hbs. injection Hbs as <-.
    assert (Hjo : exists order, nth_error orders j = Some order).
    { destruct (nth_error orders j) as [o|] eqn:Eo; [exists o; reflexivity|].
      apply nth_error_None in Eo. assert (j < length sel)%nat by (apply nth_error_Some; rewrite Elv; discriminate). lia. }
    destruct Hjo as [order Ho].
    assert (Hc : nth_error (combine (combine (seq 0 (length sel)) sel) orders) j = Some ((j, lv), order)).
    { apply nth_error_combine. split; [|exact Ho].
      rewrite (nth_error_combine_seq sel 0 j lv Elv). reflexivity. }
    apply (Hrel j _ ps Hc Hps).
Qed.

Lemma whip_unfold lvls L nf fidx orders pts :
  omap_all (fun ko => whip_level L nf fidx (fst ko) (snd ko))
           (combine (combine (seq 0 (length (firstn (S L) lvls))) (firstn (S L) lvls)) orders) = Some pts ->
  whip lvls L nf fidx orders = Some (paint_levels pts blank).
Proof. intros H. unfold whip. cbv zeta. rewrite H. reflexivity. Qed.

(* Main statement: the cell (x, y, z) of the grid holds the stored value of
   the chosen field in the finest selected level having a box over it. *)
Theorem whip_covering : forall lvls L nf fidx orders c,
  Forall (level_ok3 nf) lvls -> 0 <= fidx < nf ->
  orders_complete (firstn (S L) lvls) orders ->
  whip lvls L nf fidx orders = Some c ->
  forall x y z lv lvl fb,
    (lv <= L)%nat -> nth_error lvls lv = Some lvl -> In fb (lv_fabs lvl) ->
    cell_in (fab_lo fb) (fab_hi fb) (coarsen (fac L lv) [x; y; z]) = true ->
    (forall fb', In fb' (lv_fabs lvl) -> cell_in (fab_lo fb') (fab_hi fb') (coarsen (fac L lv) [x; y; z]) = true -> fb' = fb) ->
    (forall j lvl' fb', (lv < j <= L)%nat -> nth_error lvls j = Some lvl' -> In fb' (lv_fabs lvl') ->
                        cell_in (fab_lo fb') (fab_hi fb') (coarsen (fac L j) [x; y; z]) = false) ->
    c [x; y; z] = Some (cell_word3 fb fidx (x / fac L lv - nth 0 (fab_lo fb) 0)
                                           (y / fac L lv - nth 1 (fab_lo fb) 0)
                                           (z / fac L lv - nth 2 (fab_lo fb) 0)).
Proof.
  intros lvls L nf fidx orders c Hl Hf Hord Hw x y z lv lvl fb Hle Hn Hin Hcell Huniq Hfiner.
  destruct (whip_patches lvls L nf fidx orders Hl Hf Hord) as (pts & Hpts & Hpo).
  rewrite (whip_unfold _ _ _ _ _ _ Hpts) in Hw. injection Hw as <-.
  assert (Hlvl : level_ok3 nf lvl).
  { rewrite Forall_forall in Hl. apply Hl. apply (nth_error_In _ _ Hn). }
  destruct Hlvl as [Hwf Hfabs]. rewrite Forall_forall in Hfabs.
  assert (Hnsel : nth_error (map lv_fabs (firstn (S L) lvls)) lv = Some (lv_fabs lvl)).
  { rewrite nth_error_map, nth_error_firstn_lt by lia. rewrite Hn. reflexivity. }
  rewrite (amr_covering fab_lo fab_hi (fac L) (wpatch L fidx) (wpatch_covers L fidx)
             _ pts blank [x; y; z] lv (lv_fabs lvl) fb Hpo Hnsel Hin Hcell).
  - f_equal. apply wpatch_val; [apply (wf_level_fab_ok lvl); assumption | apply Hfabs; exact Hin | exact Hcell].
  - intros b' Hb' Hc'. rewrite (Huniq b' Hb' Hc'). reflexivity.
  - intros j bs' b' Hj Hnj Hb'.
    rewrite nth_error_map in Hnj.
    destruct (nth_error (firstn (S L) lvls) j) as [lvl'|] eqn:Ej; [|discriminate].
    cbn in Hnj. injection Hnj as <-.
    destruct (nth_error_firstn_some _ _ _ _ Ej) as [HjL Hnl'].
    apply (Hfiner j lvl' b'); [lia | exact Hnl' | exact Hb'].
Qed.

(* The grid does not depend on the order in which the per-file tasks of a
   level complete: any two complete delivery orders give the same array. *)
Theorem whip_order_free : forall lvls L nf fidx orders orders' c c',
  Forall (level_ok3 nf) lvls -> 0 <= fidx < nf ->
  Forall level_disjoint lvls ->
  orders_complete (firstn (S L) lvls) orders ->
  orders_complete (firstn (S L) lvls) orders' ->
  whip lvls L nf fidx orders = Some c ->
  whip lvls L nf fidx orders' = Some c' ->
  forall p, c p = c' p.
Proof.
  intros lvls L nf fidx orders orders' c c' Hl Hf Hdis Ho Ho' Hw Hw' p.
  destruct (whip_patches lvls L nf fidx orders Hl Hf Ho) as (pts & Hpts & Hpo).
  destruct (whip_patches lvls L nf fidx orders' Hl Hf Ho') as (pts' & Hpts' & Hpo').
  rewrite (whip_unfold _ _ _ _ _ _ Hpts) in Hw. injection Hw as <-.
  rewrite (whip_unfold _ _ _ _ _ _ Hpts') in Hw'. injection Hw' as <-.
  apply (amr_order_free fab_lo fab_hi (fac L) (wpatch L fidx) (wpatch_covers L fidx) _ pts pts' blank p Hpo Hpo').
  intros j bs b b' Hbs Hb Hb' Hc Hc'.
  rewrite nth_error_map in Hbs.
  destruct (nth_error (firstn (S L) lvls) j) as [lvl|] eqn:Ej; [|discriminate].
  cbn in Hbs. injection Hbs as <-.
  destruct (nth_error_firstn_some _ _ _ _ Ej) as [_ Hnl].
  assert (Hd : level_disjoint lvl).
  { rewrite Forall_forall in Hdis. apply Hdis. apply (nth_error_In _ _ Hnl). }
  rewrite (Hd b b' _ Hb Hb' Hc Hc'). reflexivity.
Qed.
