From AK Require Import Base.Prelude Bytes.Text Bytes.FabHeader Bytes.FabHeaderProofs Reader.Select
  Reader.LayoutProofs Writers.Colander Paths.Posix.

(* ------------------------------------------------------------------ *)
(** * components *)

Lemma split_on_app_sep (s : ascii) : forall a b,
  split_on s (a ++ s :: b) = split_on s a ++ split_on s b.
Proof.
  induction a as [|c a IH]; intros b; cbn [app split_on].
  - rewrite Ascii.eqb_refl. reflexivity.
  - destruct (Ascii.eqb c s) eqn:E.
    + rewrite IH. reflexivity.
    + rewrite IH. destruct (split_on s a) as [|t r] eqn:Ea.
      * destruct a; cbn in Ea; [discriminate|]. destruct (Ascii.eqb a s); [discriminate|].
        destruct (split_on s a0); discriminate.
      * reflexivity.
Qed.

Lemma comps_app_sep a b : comps (a ++ sep :: b) = comps a ++ comps b.
Proof. unfold comps. rewrite split_on_app_sep, filter_app. reflexivity. Qed.

Lemma comps_nil : comps [] = [].
Proof. reflexivity. Qed.

Lemma ends_sep_inv a : ends_sep a = true -> exists a', a = a' ++ [sep].
Proof.
  unfold ends_sep. intros H. destruct (rev a) as [|c r] eqn:E; [discriminate|].
  unfold is_sep in H. apply Ascii.eqb_eq in H. subst c.
  exists (rev r). rewrite <- (rev_involutive a), E. reflexivity.
Qed.

(* joining with a relative path appends its components *)
Theorem comps_join : forall a b, starts_sep b = false -> comps (join a b) = comps a ++ comps b.
Proof.
  intros a b Hb. unfold join. rewrite Hb.
  destruct (nonempty a) eqn:Ea; cbn [negb orb].
  - destruct (ends_sep a) eqn:Ee.
    + destruct (ends_sep_inv a Ee) as [a' ->]. rewrite <- app_assoc. cbn [app].
      rewrite !comps_app_sep, comps_nil, app_nil_r. reflexivity.
    + cbn [app]. apply comps_app_sep.
  - destruct a; [reflexivity | discriminate].
Qed.

Lemma prefix_of_app a b : prefix_of a (a ++ b) = true.
Proof.
  induction a as [|x a IH]; [reflexivity|]. cbn [app prefix_of]. rewrite bytes_eqb_refl, IH. reflexivity.
Qed.

(* Explicit outputs: every target join(join(out, level_dir), file) lies under
   the output path, for every spelling of out (relative, absolute, repeated or
   trailing separators) and every relative level_dir / file. *)
Theorem explicit_target_inside : forall out level_dir file,
  starts_sep level_dir = false -> starts_sep file = false ->
  inside out (target out level_dir file) = true.
Proof.
  intros out l f Hl Hf. unfold inside, target.
  rewrite (comps_join _ f Hf), (comps_join out l Hl), <- app_assoc. apply prefix_of_app.
Qed.

(* ------------------------------------------------------------------ *)
(** * default outputs made of the normalised input path plus a suffix *)

Lemma split_on_nosep s : forall p, Forall (fun t => nochar s t = true) (split_on s p).
Proof.
  induction p as [|c p IH]; cbn [split_on]; [constructor; [reflexivity | constructor]|].
  destruct (Ascii.eqb c s) eqn:E.
  - constructor; [reflexivity | exact IH].
  - destruct (split_on s p) as [|t r]; [constructor; [|constructor]|].
    + unfold nochar. cbn [forallb]. rewrite E. reflexivity.
    + inversion IH; subst. constructor; [|assumption].
      unfold nochar in *. cbn [forallb]. rewrite E. cbn [negb andb]. assumption.
Qed.

Lemma comps_ok p : Forall (fun t => nonempty t = true /\ nochar sep t = true) (comps p).
Proof.
  unfold comps. pose proof (split_on_nosep sep p) as H.
  induction (split_on sep p) as [|t l IH]; [constructor|].
  inversion H; subst. cbn [filter]. destruct (nonempty t) eqn:E; [constructor; [split; assumption|]|]; apply IH; assumption.
Qed.

Lemma comps_join_with : forall l, Forall (fun t => nonempty t = true /\ nochar sep t = true) l ->
  comps (join_with [sep] l) = l.
Proof.
  intros l Hl. destruct l as [|x l]; [reflexivity|]. unfold comps.
  rewrite split_on_join.
  - apply filter_id. apply forallb_forall. intros t Ht. rewrite Forall_forall in Hl. apply (Hl t Ht).
  - discriminate.
  - revert Hl. apply Forall_impl. intros t [_ H]. exact H.
Qed.

Lemma comps_lead p s : comps (lead_slashes p ++ s) = comps s.
Proof.
  unfold lead_slashes.
  assert (H1 : comps ([sep] ++ s) = comps s) by (change ([sep] ++ s) with ([] ++ sep :: s); rewrite comps_app_sep; reflexivity).
  assert (H2 : comps ([sep; sep] ++ s) = comps s).
  { change ([sep; sep] ++ s) with ([] ++ sep :: ([] ++ sep :: s)). rewrite !comps_app_sep. reflexivity. }
  destruct p as [|c1 [|c2 [|c3 p]]]; cbn [app]; try reflexivity;
    repeat match goal with |- context [if ?b then _ else _] => destruct b end; cbn [app] in *; auto.
Qed.

Lemma join_with_snoc : forall (l : list bytes) x suf,
  join_with [sep] (l ++ [x]) ++ suf = join_with [sep] (l ++ [x ++ suf]).
Proof.
  induction l as [|y l IH]; intros x suf; [reflexivity|].
  destruct l as [|z l].
  - cbn [app join_with]. rewrite <- !app_assoc. reflexivity.
  - change (join_with [sep] ((y :: z :: l) ++ [x])) with (y ++ [sep] ++ join_with [sep] ((z :: l) ++ [x])).
    change (join_with [sep] ((y :: z :: l) ++ [x ++ suf])) with (y ++ [sep] ++ join_with [sep] ((z :: l) ++ [x ++ suf])).
    rewrite <- (IH x suf). rewrite <- !app_assoc. reflexivity.
Qed.

Lemma prefix_of_snoc_diff : forall (l : list bytes) x y, bytes_eqb x y = false -> prefix_of (l ++ [x]) (l ++ [y]) = false.
Proof.
  induction l as [|a l IH]; intros x y H; cbn [app prefix_of]; [rewrite H; reflexivity|].
  rewrite bytes_eqb_refl. cbn [andb]. apply IH. exact H.
Qed.

Lemma bytes_eqb_app_ne x suf : suf <> [] -> bytes_eqb x (x ++ suf) = false.
Proof.
  intros H. destruct (bytes_eqb x (x ++ suf)) eqn:E; [|reflexivity].
  apply bytes_eqb_true in E. exfalso. apply H.
  apply (app_inv_head x). rewrite app_nil_r. symmetry. exact E.
Qed.

(* the normalised input path with a separator-free suffix appended is a sibling
   of the input, never the input itself nor something inside it *)
Theorem suffix_default_outside : forall p suf,
  comps p <> [] -> suf <> [] -> nochar sep suf = true ->
  inside p (normpath p ++ suf) = false.
Proof.
  intros p suf Hne Hsuf Hns. unfold inside, normpath.
  destruct (exists_last Hne) as (cs & x & Hcs).
  assert (Hnz : lead_slashes p ++ join_with [sep] (comps p) <> []).
  { rewrite Hcs. intros E. apply app_eq_nil in E. destruct E as [_ E].
    pose proof (comps_ok p) as Hok. rewrite Hcs in Hok.
    assert (Hc : comps (join_with [sep] (cs ++ [x])) = cs ++ [x]) by (apply comps_join_with; exact Hok).
    rewrite E in Hc. cbn in Hc. destruct cs; discriminate. }
  destruct (lead_slashes p ++ join_with [sep] (comps p)) as [|c r] eqn:Er; [congruence|].
  rewrite <- Er. rewrite <- app_assoc, comps_lead. rewrite Hcs, join_with_snoc.
  pose proof (comps_ok p) as Hok. rewrite Hcs in Hok.
  rewrite comps_join_with.
  - apply prefix_of_snoc_diff. apply bytes_eqb_app_ne. exact Hsuf.
  - apply Forall_app in Hok. destruct Hok as [H1 H2]. apply Forall_app. split; [exact H1|].
    inversion H2 as [|? ? [Hx1 Hx2] _]; subst. constructor; [|constructor]. split.
    + destruct x; [discriminate | reflexivity].
    + unfold nochar in *. rewrite forallb_app, Hx2, Hns. reflexivity.
Qed.

Corollary chef_default_outside : forall p, comps p <> [] -> inside p (chef_default p) = false.
Proof. intros p H. apply suffix_default_outside; [exact H | discriminate | reflexivity]. Qed.

Corollary marinate_default_outside : forall p, comps p <> [] -> inside p (marinate_default p) = false.
Proof. intros p H. apply suffix_default_outside; [exact H | discriminate | reflexivity]. Qed.
