(* posixpath (join, split, normpath) and the output paths the tools derive
   from their arguments.  A path is a byte string; '.' and '..' components
   and symbolic links are outside the model (the generated paths have none).

   comps p      : the non-empty '/'-separated components of p
   inside a b   : b is a or a descendant of a (component prefix)          *)
From AK Require Import Base.Prelude Bytes.Text Bytes.FabHeader Bytes.FabHeaderProofs Reader.Select Writers.Colander.

Definition sep : ascii := "/"%char.
Definition is_sep (c : ascii) : bool := Ascii.eqb c sep.

Definition nonempty (b : bytes) : bool := match b with [] => false | _ => true end.
Definition comps (p : bytes) : list bytes := filter nonempty (split_on sep p).

Definition starts_sep (p : bytes) : bool := match p with c :: _ => is_sep c | [] => false end.
Definition ends_sep (p : bytes) : bool := match rev p with c :: _ => is_sep c | [] => false end.

(* os.path.join(a, b) *)
Definition join (a b : bytes) : bytes :=
  if starts_sep b then b
  else if negb (nonempty a) || ends_sep a then a ++ b
  else a ++ [sep] ++ b.

Fixpoint rstrip_sep_rev (r : bytes) : bytes :=
  match r with
  | c :: r' => if is_sep c then rstrip_sep_rev r' else r
  | [] => []
  end.
Definition rstrip_sep (p : bytes) : bytes := rev (rstrip_sep_rev (rev p)).

(* os.path.split(p): head, tail = p[:i], p[i:] with i = p.rfind('/') + 1;
   head stripped of trailing slashes unless it consists of slashes only *)
Fixpoint split_rev (r : bytes) (tail : bytes) : bytes * bytes :=   (* r = reversed path *)
  match r with
  | [] => ([], tail)
  | c :: r' => if is_sep c then (rev r, tail) else split_rev r' (c :: tail)
  end.
Definition split (p : bytes) : bytes * bytes :=
  let '(head, tail) := split_rev (rev p) [] in
  (if forallb is_sep head then head else rstrip_sep head, tail).

(* os.path.normpath for paths without '.' / '..' components: slashes collapsed,
   trailing slash dropped, '//' (exactly two) kept as POSIX allows, '' -> '.' *)
Definition lead_slashes (p : bytes) : bytes :=
  match p with
  | c1 :: c2 :: c3 :: _ => if is_sep c1 then if is_sep c2 then if is_sep c3 then [sep] else [sep; sep] else [sep] else []
  | [c1; c2] => if is_sep c1 then if is_sep c2 then [sep; sep] else [sep] else []
  | [c1] => if is_sep c1 then [sep] else []
  | [] => []
  end.
Definition normpath (p : bytes) : bytes :=
  let r := lead_slashes p ++ join_with [sep] (comps p) in
  match r with [] => bs "." | _ => r end.

(* ---- the default outputs of the tools ---- *)
Definition contains (pat s : bytes) : bool :=
  existsb (fun k => is_prefix pat (skipn k s)) (seq 0 (S (length s))).

Definition chef_default (p : bytes) : bytes := normpath p ++ bs "_ck".
Definition marinate_default (p : bytes) : bytes := normpath p ++ bs ".pkl".
Definition combine_default (p1 p2 : bytes) : bytes := snd (split (normpath p1)) ++ snd (split (normpath p2)).
Definition chk2plt_default (p : bytes) : bytes :=
  let '(root, base) := split (normpath p) in
  join root (if contains (bs "chk") base then py_replace (bs "chk") (bs "plt") base else base ++ bs "_plt").
(* mandoline: <root>/<slice name>_<plotfile name without 'plt' and '_'> *)
Definition mandoline_default (p slicename : bytes) : bytes :=
  let '(root, name) := split (normpath p) in
  join root (slicename ++ bs "_" ++ remove_char "_"%char (py_replace (bs "plt") [] name)).

(* explicit outputs: every binary / header target of the writers *)
Definition target (out level_dir file : bytes) : bytes := join (join out level_dir) file.

(* ---- containment ---- *)
Fixpoint prefix_of (a b : list bytes) : bool :=
  match a, b with
  | [], _ => true
  | x :: a', y :: b' => bytes_eqb x y && prefix_of a' b'
  | _ :: _, [] => false
  end.
Definition inside (a b : bytes) : bool := prefix_of (comps a) (comps b).
