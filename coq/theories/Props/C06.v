(* C06 - combine merges fields box by box, independent of either input's file
   layout.  Statements only.

   The model of the whole tool is Writers.Combine.combine_tool (two directory
   images -> directory image, with the five repairs of KNOWN_FINDINGS.txt);
   the correspondence compares it with the output directory of combine byte
   for byte in all three combination modes.  PROVED for every input: what each
   worker writes (binary core), what a combined box contains, and that
   different meshes produce no output; AND one whole level in each of the
   three modes, for any pair of layouts satisfying the condition under which
   validate_combine_input picks the mode (theorems C06_level_..., C06_mode_...): the new
   binary files and the offsets table in box order; the level-header rewrite;
   and the WHOLE TOOL (C06_tool): the output directory is exactly the image of
   the combined plotfile [combine_spec]. *)
From AK Require Import Base.Prelude Bytes.Text Bytes.FabHeader Bytes.BinFile
  Reader.Select Reader.BoxRead Reader.Level Reader.ReadSpec
  Plotfile.TextHeader Taste.Taste Plotfile.Abstract
  Writers.Colander Writers.ColanderSpec Writers.ColanderProofs Writers.ColanderLevelProofs Writers.Combine Writers.CombineProofs
  Writers.RelayoutProofs Writers.CombineLevelProofs Writers.CombineHeaderProofs Writers.CombineToolProofs
  Plotfile.HeaderSpec Writers.ColanderPipeline.

(* One pair of source boxes, each stored anywhere in its binary file: the
   worker writes exactly the image of the combined box. *)
Theorem C06_pair : forall pre1 fb1 post1 pre2 fb2 post2 v1 v2,
  fab_ok fb1 = true -> fab_ok fb2 = true ->
  Forall (fun i => 0 <= i < fab_nc fb1) v1 -> Forall (fun i => 0 <= i < fab_nc fb2) v2 ->
  merge_pair (pre1 ++ encode_fab fb1 ++ post1) (blen pre1) (pre2 ++ encode_fab fb2 ++ post2) (blen pre2) v1 v2
  = Some (encode_fab (merge_fab v1 v2 fb1 fb2), blen (pre1 ++ encode_fab fb1), blen (pre2 ++ encode_fab fb2)).
Proof. exact merge_pair_spec. Qed.
Print Assumptions C06_pair.

(* Box-by-box modes (byoffset, bybox): for ANY list of box pairs named by the
   offsets of their FABs - any order, the second boxes in any files - the
   output file is the image of the combined boxes in the order handed, and
   the returned offsets are where each starts. *)
Theorem C06_any_layout : forall f1 v1 v2 (jobs : list (Z * bytes * Z)) (pairs : list (fab * fab)) out0,
  Forall2 (fun job p => job_of f1 (fst p) (snd p) job /\
                        fab_ok (fst p) = true /\ fab_ok (snd p) = true /\
                        Forall (fun i => 0 <= i < fab_nc (fst p)) v1 /\
                        Forall (fun i => 0 <= i < fab_nc (snd p)) v2) jobs pairs ->
  let merged := map (fun p => merge_fab v1 v2 (fst p) (snd p)) pairs in
  combine_at f1 jobs v1 v2 out0
  = Some (out0 ++ encode_file merged,
          map (fun j => blen out0 + fab_offset merged j) (seq 0 (length pairs))).
Proof. exact combine_at_spec. Qed.
Print Assumptions C06_any_layout.

(* MAIN STATEMENT.  For every pair of well-formed 3D plotfiles on the same
   boxes (same number of levels, the same index ranges on every level), each
   stored in ANY box -> file distribution and on-disk order, the first under
   the standard level directories, and every pair of non-empty lists of
   existing field names: the tool writes exactly the directory image of
   [combine_spec v1 v2 (names1 ++ names2) pf1 pf2] - the first input's mesh,
   time and geometry; in every box the components v1 of the first input followed
   by the components v2 of the second, bit for bit; level headers with the new
   field count, offsets and the two inputs' min/max rows side by side; a global
   header naming the fields - whichever combination mode is picked. *)
Theorem C06_tool : forall names1 names2 pf1 pf2 v1 v2,
  wf_plotfile pf1 -> wf_plotfile pf2 -> std_dirs pf1 -> wf_rows pf1 -> wf_rows pf2 ->
  same_mesh pf1 pf2 -> 3 <= g_ndims (pf_g pf1) -> 3 <= g_ndims (pf_g pf2) ->
  names1 <> [] -> names2 <> [] ->
  omap_all (field_index (field_keys (g_names (pf_g pf1)) [])) names1 = Some v1 ->
  omap_all (field_index (field_keys (g_names (pf_g pf2)) [])) names2 = Some v2 ->
  combine_tool names1 names2 (pf_disk pf1) (pf_disk pf2)
  = Some (pf_disk (combine_spec v1 v2 (names1 ++ names2) pf1 pf2)).
Proof. exact combine_refines. Qed.

(* The level header: count, offsets, and every min/max row = the selected
   columns of the first input's row followed by those of the second's. *)
Theorem C06_level_header : forall nf1 nf2 cA cB v1 v2 offs,
  wf_cellh true cA -> wf_cellh true cB -> c_indexes cA <> [] ->
  length (c_indexes cB) = length (c_indexes cA) ->
  Forall (fun r => blen r = nf1) (c_mins cA) -> Forall (fun r => blen r = nf1) (c_maxs cA) ->
  Forall (fun r => blen r = nf2) (c_mins cB) -> Forall (fun r => blen r = nf2) (c_maxs cB) ->
  v1 ++ v2 <> [] -> Forall (fun i => 0 <= i < nf1) v1 -> Forall (fun i => 0 <= i < nf2) v2 ->
  length offs = length (c_indexes cA) ->
  rewrite_level_header (print_cellh nf1 cA) (print_cellh nf2 cB) (blen v1 + blen v2) offs v1 v2
  = Some (print_cellh (blen v1 + blen v2) (combined_cellh cA cB v1 v2 offs)).
Proof. exact rewrite_level_header_print. Qed.

(* ONE LEVEL, ANY PAIR OF LAYOUTS.  Two well-formed levels on the same boxes
   (same number of boxes, box i of the same shape in both), each stored in any
   box -> file distribution and on-disk order.  [merged_lv] is the level of
   merged boxes (components v1 of the first followed by v2 of the second, C06_box_contents)
   laid out under the first input's file names with the boxes of a file in box
   order; it is well-formed.  In box-by-box mode the tool writes exactly its
   binary files and its offsets table in box order, whatever the two layouts: *)
Theorem C06_level_bybox : forall lv1 lv2 v1 v2 c1 c2,
  wf_level lv1 = true -> wf_level lv2 = true -> length (lv_fabs lv2) = length (lv_fabs lv1) ->
  let n := length (lv_fabs lv1) in
  (forall i, (i < n)%nat -> Forall (fun j => 0 <= j < fab_nc (nth i (lv_fabs lv1) dummy_fab)) v1) ->
  (forall i, (i < n)%nat -> Forall (fun j => 0 <= j < fab_nc (nth i (lv_fabs lv2) dummy_fab)) v2) ->
  (forall i, (i < n)%nat -> fab_shape (nth i (lv_fabs lv2) dummy_fab) = fab_shape (nth i (lv_fabs lv1) dummy_fab)) ->
  c_indexes c1 = map (fun fb => (fab_lo fb, fab_hi fb)) (lv_fabs lv1) ->
  c_files c1 = map fst (cells_or_nil lv1) -> c_offsets c1 = map snd (cells_or_nil lv1) ->
  c_files c2 = map fst (cells_or_nil lv2) -> c_offsets c2 = map snd (cells_or_nil lv2) ->
  combine_level ByBox (lv_disk lv1) (lv_disk lv2) c1 c2 v1 v2
  = Some (lv_disk (merged_lv lv1 lv2 v1 v2), map snd (cells_or_nil (merged_lv lv1 lv2 v1 v2)))
  /\ wf_level (merged_lv lv1 lv2 v1 v2) = true.
Proof.
  intros lv1 lv2 v1 v2 c1 c2 W1 W2 Hn n H1 H2 H3 I1 F1 O1 F2 O2. split.
  - exact (combine_level_bybox lv1 lv2 W1 W2 Hn v1 v2 H1 H2 H3 c1 c2 I1 F1 O1 F2 O2).
  - exact (wf_merged lv1 lv2 W1 W2 Hn v1 v2 H1 H2 H3).
Qed.

(* by-offset mode: the same, when every box lies in a file of the same name in both inputs *)
Theorem C06_level_byoffset : forall lv1 lv2 v1 v2 c1 c2,
  wf_level lv1 = true -> wf_level lv2 = true -> length (lv_fabs lv2) = length (lv_fabs lv1) ->
  let n := length (lv_fabs lv1) in
  (forall i, (i < n)%nat -> Forall (fun j => 0 <= j < fab_nc (nth i (lv_fabs lv1) dummy_fab)) v1) ->
  (forall i, (i < n)%nat -> Forall (fun j => 0 <= j < fab_nc (nth i (lv_fabs lv2) dummy_fab)) v2) ->
  (forall i, (i < n)%nat -> fab_shape (nth i (lv_fabs lv2) dummy_fab) = fab_shape (nth i (lv_fabs lv1) dummy_fab)) ->
  c_indexes c1 = map (fun fb => (fab_lo fb, fab_hi fb)) (lv_fabs lv1) ->
  c_files c1 = map fst (cells_or_nil lv1) -> c_offsets c1 = map snd (cells_or_nil lv1) ->
  c_files c2 = map fst (cells_or_nil lv2) -> c_offsets c2 = map snd (cells_or_nil lv2) ->
  map fst (cells_or_nil lv2) = map fst (cells_or_nil lv1) ->
  combine_level ByOffset (lv_disk lv1) (lv_disk lv2) c1 c2 v1 v2
  = Some (lv_disk (merged_lv lv1 lv2 v1 v2), map snd (cells_or_nil (merged_lv lv1 lv2 v1 v2))).
Proof.
  intros lv1 lv2 v1 v2 c1 c2 W1 W2 Hn n H1 H2 H3 I1 F1 O1 F2 O2 S.
  exact (combine_level_byoffset lv1 lv2 W1 W2 Hn v1 v2 H1 H2 H3 c1 c2 I1 F1 O1 F2 O2 S).
Qed.

(* file-by-file mode: the same, when in addition both inputs store the boxes of every file in box order *)
Theorem C06_level_byfile : forall lv1 lv2 v1 v2 c1 c2,
  wf_level lv1 = true -> wf_level lv2 = true -> length (lv_fabs lv2) = length (lv_fabs lv1) ->
  let n := length (lv_fabs lv1) in
  (forall i, (i < n)%nat -> Forall (fun j => 0 <= j < fab_nc (nth i (lv_fabs lv1) dummy_fab)) v1) ->
  (forall i, (i < n)%nat -> Forall (fun j => 0 <= j < fab_nc (nth i (lv_fabs lv2) dummy_fab)) v2) ->
  (forall i, (i < n)%nat -> fab_shape (nth i (lv_fabs lv2) dummy_fab) = fab_shape (nth i (lv_fabs lv1) dummy_fab)) ->
  c_indexes c1 = map (fun fb => (fab_lo fb, fab_hi fb)) (lv_fabs lv1) ->
  c_files c1 = map fst (cells_or_nil lv1) -> c_offsets c1 = map snd (cells_or_nil lv1) ->
  c_files c2 = map fst (cells_or_nil lv2) -> c_offsets c2 = map snd (cells_or_nil lv2) ->
  map fst (cells_or_nil lv2) = map fst (cells_or_nil lv1) ->
  (forall name, In name (np_unique (map fst (cells_or_nil lv1))) -> increasing (offsets_in c1 name) = true) ->
  (forall name, In name (np_unique (map fst (cells_or_nil lv1))) -> increasing (offsets_in c2 name) = true) ->
  combine_level ByFile (lv_disk lv1) (lv_disk lv2) c1 c2 v1 v2
  = Some (lv_disk (merged_lv lv1 lv2 v1 v2), map snd (cells_or_nil (merged_lv lv1 lv2 v1 v2))).
Proof.
  intros lv1 lv2 v1 v2 c1 c2 W1 W2 Hn n H1 H2 H3 I1 F1 O1 F2 O2 S A B.
  exact (combine_level_byfile lv1 lv2 W1 W2 Hn v1 v2 H1 H2 H3 c1 c2 I1 F1 O1 F2 O2 S A B).
Qed.

(* The mode validate_combine_input picks implies the condition its workers
   need, on every level: anything but box-by-box means equal file tables;
   file-by-file means, moreover, offsets increasing with the box index inside
   every file of both inputs.  (The pinned code compared instead of assigning
   the by-offset mode: a fix: commit of KNOWN_FINDINGS.txt.) *)
Theorem C06_mode_same_files : forall cs m, m <> ByBox -> choose_mode cs m <> ByBox -> Forall level_same_files cs.
Proof. exact choose_mode_same_files. Qed.

Theorem C06_mode_byfile : forall cs, choose_mode cs ByFile = ByFile -> Forall level_box_order cs.
Proof. exact choose_mode_byfile. Qed.

(* File-by-file mode: two files holding the same number of boxes, scanned in
   lock step to the end of both. *)
Theorem C06_lock_step : forall (pairs : list (fab * fab)) v1 v2 fuel pre1 pre2 out0,
  Forall (fun p => fab_ok (fst p) = true /\ fab_ok (snd p) = true /\
                   Forall (fun i => 0 <= i < fab_nc (fst p)) v1 /\
                   Forall (fun i => 0 <= i < fab_nc (snd p)) v2) pairs ->
  (length pairs < fuel)%nat ->
  let merged := map (fun p => merge_fab v1 v2 (fst p) (snd p)) pairs in
  combine_scan fuel (pre1 ++ encode_file (map fst pairs)) (pre2 ++ encode_file (map snd pairs))
               (blen pre1) (blen pre2) v1 v2 out0
  = Some (out0 ++ encode_file merged,
          map (fun j => blen out0 + fab_offset merged j) (seq 0 (length pairs))).
Proof. exact combine_scan_spec. Qed.
Print Assumptions C06_lock_step.

(* A combined box is a well-formed box on the first source's index range whose
   components are, bit for bit, the selected components of the first source
   followed by the selected components of the second. *)
Theorem C06_box_contents : forall v1 v2 fb1 fb2,
  fab_ok fb1 = true -> fab_ok fb2 = true -> fab_shape fb2 = fab_shape fb1 ->
  Forall (fun i => 0 <= i < fab_nc fb1) v1 -> Forall (fun i => 0 <= i < fab_nc fb2) v2 ->
  fab_ok (merge_fab v1 v2 fb1 fb2) = true /\
  (forall j, (j < length v1)%nat -> fab_comp (merge_fab v1 v2 fb1 fb2) (Z.of_nat j) = fab_comp fb1 (nth j v1 0)) /\
  (forall j, (j < length v2)%nat ->
             fab_comp (merge_fab v1 v2 fb1 fb2) (Z.of_nat (length v1 + j)) = fab_comp fb2 (nth j v2 0)).
Proof.
  intros v1 v2 fb1 fb2 H1 H2 H3 H4 H5. split; [apply merge_fab_ok; assumption|]. split; intros j Hj.
  - apply merge_fab_comp_first; assumption.
  - apply merge_fab_comp_second; assumption.
Qed.
Print Assumptions C06_box_contents.

(* Inputs whose level count or box index ranges differ produce no output. *)
Theorem C06_refuses : forall names1 names2 d1 d2 out,
  combine_tool names1 names2 d1 d2 = Some out ->
  exists ht1 op1 lv1 ht2 op2 lv2,
    pd_header d1 = Some ht1 /\ open_header ht1 None = Some op1 /\ open_levels d1 op1 false = Some lv1 /\
    pd_header d2 = Some ht2 /\ open_header ht2 None = Some op2 /\ open_levels d2 op2 false = Some lv2 /\
    o_limit op1 = o_limit op2 /\
    forallb (fun cc => same_indexes (c_indexes (snd (fst cc))) (c_indexes (snd (snd cc)))) (combine lv1 lv2) = true.
Proof. exact combine_refuses. Qed.
Print Assumptions C06_refuses.

(* non-vacuity: two files storing the same two boxes in opposite orders *)
Example C06_example :
  let w (x : Z) := [ascii_of_nat (Z.to_nat x); "000"; "000"; "000"; "000"; "000"; "000"; "000"]%char in
  let ws l := concat (map w l) in
  let a0 := {| fab_lo := [0;0;0]; fab_hi := [1;0;0]; fab_nc := 2; fab_data := ws [1;2; 3;4] |} in
  let a1 := {| fab_lo := [2;0;0]; fab_hi := [3;0;0]; fab_nc := 2; fab_data := ws [5;6; 7;8] |} in
  let b0 := {| fab_lo := [0;0;0]; fab_hi := [1;0;0]; fab_nc := 1; fab_data := ws [11;12] |} in
  let b1 := {| fab_lo := [2;0;0]; fab_hi := [3;0;0]; fab_nc := 1; fab_data := ws [15;16] |} in
  let f1 := encode_file [a1; a0] in
  let f2 := encode_file [b0; b1] in
  combine_at f1 [(fab_size a1, f2, 0); (0, f2, fab_size b0)] [1] [0] []
  = Some (encode_file [merge_fab [1] [0] a0 b0; merge_fab [1] [0] a1 b1],
          [0; fab_size (merge_fab [1] [0] a0 b0)]).
Proof. vm_compute. reflexivity. Qed.
(* non-vacuity of the tool theorem: two 3D plotfiles on the same two-level mesh;
   the first stores level 1 in one file in the order (1, 0), the second in two
   files; the tool model on the two images gives the image of the
   specification (recomputed here) *)
Definition ex3_g (names : list bytes) : gheader :=
  {| g_version := [bs "HyperCLaw-V1.1"]; g_names := names;
     g_ndims := 3; g_time := bs "0.5"; g_max_level := 1;
     g_geo_low := [bs "0.0"; bs "0.0"; bs "0.0"]; g_geo_high := [bs "2.0"; bs "1.0"; bs "1.0"];
     g_factors := [2]; g_grid_hi := [[1; 0; 0]; [3; 1; 1]]; g_steps := [7; 7];
     g_dx := [[bs "1.0"; bs "1.0"; bs "1.0"]; [bs "0.5"; bs "0.5"; bs "0.5"]]; g_sys_coord := [bs "0"] |}.
Definition ex3_bytes (n : nat) (c : ascii) : bytes := repeat c n.
Definition ex3_level0 (nc : Z) (d : bytes) (rows : list token) : plevel :=
  {| pl_boxes := {| lb_ncells := 1; lb_step_line := [bs "7"];
                    lb_boxes := [[(bs "0.0", bs "2.0"); (bs "0.0", bs "1.0"); (bs "0.0", bs "1.0")]];
                    lb_cell_dir := bs "Level_0"; lb_time_tok := bs "0.5" |};
     pl_level := {| lv_fabs := [ {| fab_lo := [0; 0; 0]; fab_hi := [1; 0; 0]; fab_nc := nc; fab_data := d |} ];
                    lv_files := [ (bs "Cell_D_00000", [0%nat]) ] |};
     pl_mins := [rows]; pl_maxs := [rows] |}.
Definition ex3_level1 (nc : Z) (d0 d1 : bytes) (rows : list token) (files : list (bytes * list nat)) : plevel :=
  {| pl_boxes := {| lb_ncells := 2; lb_step_line := [bs "7"];
                    lb_boxes := [[(bs "0.0", bs "1.0"); (bs "0.0", bs "1.0"); (bs "0.0", bs "1.0")];
                                 [(bs "1.0", bs "2.0"); (bs "0.0", bs "1.0"); (bs "0.0", bs "1.0")]];
                    lb_cell_dir := bs "Level_1"; lb_time_tok := bs "0.5" |};
     pl_level := {| lv_fabs := [ {| fab_lo := [0; 0; 0]; fab_hi := [1; 1; 1]; fab_nc := nc; fab_data := d0 |};
                                 {| fab_lo := [2; 0; 0]; fab_hi := [3; 1; 1]; fab_nc := nc; fab_data := d1 |} ];
                    lv_files := files |};
     pl_mins := [rows; rows]; pl_maxs := [rows; rows] |}.
Definition ex3_A : plotfile :=
  {| pf_g := ex3_g [bs "a"; bs "b"];
     pf_levels := [ ex3_level0 2 (ex3_bytes 16 "a"%char ++ ex3_bytes 16 "b"%char) [bs "1.0"; bs "2.0"];
                    ex3_level1 2 (ex3_bytes 64 "c"%char ++ ex3_bytes 64 "d"%char) (ex3_bytes 64 "e"%char ++ ex3_bytes 64 "f"%char)
                               [bs "1.0"; bs "2.0"] [ (bs "Cell_D_00000", [1%nat; 0%nat]) ] ] |}.
Definition ex3_B : plotfile :=
  {| pf_g := ex3_g [bs "c"];
     pf_levels := [ ex3_level0 1 (ex3_bytes 16 "x"%char) [bs "3.0"];
                    ex3_level1 1 (ex3_bytes 64 "y"%char) (ex3_bytes 64 "z"%char) [bs "3.0"]
                               [ (bs "Cell_D_00001", [0%nat]); (bs "Cell_D_00000", [1%nat]) ] ] |}.

Ltac solve_good_step :=
  match goal with
  | |- _ /\ _ => split
  | |- forall (k : nat) (pl : plevel), nth_error _ k = Some pl -> _ =>
      intros [|[|[|k]]] pl H; cbn [nth_error] in H; try discriminate; injection H as <-; reflexivity
  | |- ~ In _ _ => let H := fresh in intros H; cbn [In] in H; intuition discriminate
  | |- ~ _ => let H := fresh in intros H; discriminate
  | |- _ <> _ => discriminate
  | |- _ \/ _ => first [left; reflexivity | right; reflexivity]
  | |- _ => first [reflexivity | lia | constructor]
  end.

Example C06_ex_hyps : good ex3_A /\ good ex3_B /\ same_mesh ex3_A ex3_B.
Proof.
  unfold good, wf_plotfile, std_dirs, wf_counts, wf_rows, wf_gheader, same_mesh, wf_plevel, wf_lvboxes, no_char. cbn.
  repeat solve_good_step.
Qed.

Example C06_ex_tool : combine_tool [bs "b"] [bs "c"] (pf_disk ex3_A) (pf_disk ex3_B)
  = Some (pf_disk (combine_spec [1] [0] [bs "b"; bs "c"] ex3_A ex3_B)).
Proof. vm_compute. reflexivity. Qed.

Print Assumptions C06_tool.
Print Assumptions C06_level_header.
Print Assumptions C06_level_bybox.
Print Assumptions C06_level_byoffset.
Print Assumptions C06_level_byfile.
Print Assumptions C06_mode_same_files.
Print Assumptions C06_mode_byfile.
