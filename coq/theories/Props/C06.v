(* C06 - combine merges fields box by box, independent of either input's file
   layout.  Statements only.

   The model of the whole tool is Writers.Combine.combine_tool (two directory
   images -> directory image, with the five repairs of KNOWN_FINDINGS.txt);
   the correspondence compares it with the output directory of combine byte
   for byte in all three combination modes.  PROVED for every input: what each
   worker writes (binary core), what a combined box contains, and that
   different meshes produce no output.  The mode choice, the re-mapping of
   offsets to box order and the text rewriting of the headers are in the
   executable model and tied to the code by the correspondence (partial
   proof, as for C05). *)
From AK Require Import Base.Prelude Bytes.Text Bytes.FabHeader Bytes.BinFile
  Reader.Select Reader.BoxRead Reader.Level Reader.ReadSpec
  Plotfile.TextHeader Taste.Taste Plotfile.Abstract
  Writers.Colander Writers.ColanderProofs Writers.Combine Writers.CombineProofs.

(* One pair of source boxes, each stored anywhere in its binary file: the
   worker writes exactly the image of the combined box. *)
Theorem C06_pair : forall pre1 fb1 post1 pre2 fb2 post2 v1 v2,
  fab_ok fb1 = true -> fab_ok fb2 = true ->
  Forall (fun i => 0 <= i < fab_nc fb1) v1 -> Forall (fun i => 0 <= i < fab_nc fb2) v2 ->
  merge_pair (pre1 ++ encode_fab fb1 ++ post1) (blen pre1) (pre2 ++ encode_fab fb2 ++ post2) (blen pre2) v1 v2
  = Some (encode_fab (merge_fab v1 v2 fb1 fb2), blen (pre1 ++ encode_fab fb1), blen (pre2 ++ encode_fab fb2)).
Proof. exact merge_pair_spec. Qed.
Print Assumptions C06_pair.

(* Box-by-box modes (byoffset, bybox): for ANY list of box pairs named by the
   offsets of their FABs - any order, the second boxes in any files - the
   output file is the image of the combined boxes in the order handed, and
   the returned offsets are where each starts. *)
Theorem C06_any_layout : forall f1 v1 v2 (jobs : list (Z * bytes * Z)) (pairs : list (fab * fab)) out0,
  Forall2 (fun job p => job_of f1 (fst p) (snd p) job /\
                        fab_ok (fst p) = true /\ fab_ok (snd p) = true /\
                        Forall (fun i => 0 <= i < fab_nc (fst p)) v1 /\
                        Forall (fun i => 0 <= i < fab_nc (snd p)) v2) jobs pairs ->
  let merged := map (fun p => merge_fab v1 v2 (fst p) (snd p)) pairs in
  combine_at f1 jobs v1 v2 out0
  = Some (out0 ++ encode_file merged,
          map (fun j => blen out0 + fab_offset merged j) (seq 0 (length pairs))).
Proof. exact combine_at_spec. Qed.
Print Assumptions C06_any_layout.

(* File-by-file mode: two files holding the same number of boxes, scanned in
   lock step to the end of both. *)
Theorem C06_lock_step : forall (pairs : list (fab * fab)) v1 v2 fuel pre1 pre2 out0,
  Forall (fun p => fab_ok (fst p) = true /\ fab_ok (snd p) = true /\
                   Forall (fun i => 0 <= i < fab_nc (fst p)) v1 /\
                   Forall (fun i => 0 <= i < fab_nc (snd p)) v2) pairs ->
  (length pairs < fuel)%nat ->
  let merged := map (fun p => merge_fab v1 v2 (fst p) (snd p)) pairs in
  combine_scan fuel (pre1 ++ encode_file (map fst pairs)) (pre2 ++ encode_file (map snd pairs))
               (blen pre1) (blen pre2) v1 v2 out0
  = Some (out0 ++ encode_file merged,
          map (fun j => blen out0 + fab_offset merged j) (seq 0 (length pairs))).
Proof. exact combine_scan_spec. Qed.
Print Assumptions C06_lock_step.

(* A combined box is a well-formed box on the first source's index range whose
   components are, bit for bit, the selected components of the first source
   followed by the selected components of the second. *)
Theorem C06_box_contents : forall v1 v2 fb1 fb2,
  fab_ok fb1 = true -> fab_ok fb2 = true -> fab_shape fb2 = fab_shape fb1 ->
  Forall (fun i => 0 <= i < fab_nc fb1) v1 -> Forall (fun i => 0 <= i < fab_nc fb2) v2 ->
  fab_ok (merge_fab v1 v2 fb1 fb2) = true /\
  (forall j, (j < length v1)%nat -> fab_comp (merge_fab v1 v2 fb1 fb2) (Z.of_nat j) = fab_comp fb1 (nth j v1 0)) /\
  (forall j, (j < length v2)%nat ->
             fab_comp (merge_fab v1 v2 fb1 fb2) (Z.of_nat (length v1 + j)) = fab_comp fb2 (nth j v2 0)).
Proof.
  intros v1 v2 fb1 fb2 H1 H2 H3 H4 H5. split; [apply merge_fab_ok; assumption|]. split; intros j Hj.
  - apply merge_fab_comp_first; assumption.
  - apply merge_fab_comp_second; assumption.
Qed.
Print Assumptions C06_box_contents.

(* Inputs whose level count or box index ranges differ produce no output. *)
Theorem C06_refuses : forall names1 names2 d1 d2 out,
  combine_tool names1 names2 d1 d2 = Some out ->
  exists ht1 op1 lv1 ht2 op2 lv2,
    pd_header d1 = Some ht1 /\ open_header ht1 None = Some op1 /\ open_levels d1 op1 false = Some lv1 /\
    pd_header d2 = Some ht2 /\ open_header ht2 None = Some op2 /\ open_levels d2 op2 false = Some lv2 /\
    o_limit op1 = o_limit op2 /\
    forallb (fun cc => same_indexes (c_indexes (snd (fst cc))) (c_indexes (snd (snd cc)))) (combine lv1 lv2) = true.
Proof. exact combine_refuses. Qed.
Print Assumptions C06_refuses.

(* non-vacuity: two files storing the same two boxes in opposite orders *)
Example C06_example :
  let w (x : Z) := [ascii_of_nat (Z.to_nat x); "000"; "000"; "000"; "000"; "000"; "000"; "000"]%char in
  let ws l := concat (map w l) in
  let a0 := {| fab_lo := [0;0;0]; fab_hi := [1;0;0]; fab_nc := 2; fab_data := ws [1;2; 3;4] |} in
  let a1 := {| fab_lo := [2;0;0]; fab_hi := [3;0;0]; fab_nc := 2; fab_data := ws [5;6; 7;8] |} in
  let b0 := {| fab_lo := [0;0;0]; fab_hi := [1;0;0]; fab_nc := 1; fab_data := ws [11;12] |} in
  let b1 := {| fab_lo := [2;0;0]; fab_hi := [3;0;0]; fab_nc := 1; fab_data := ws [15;16] |} in
  let f1 := encode_file [a1; a0] in
  let f2 := encode_file [b0; b1] in
  combine_at f1 [(fab_size a1, f2, 0); (0, f2, fab_size b0)] [1] [0] []
  = Some (encode_file [merge_fab [1] [0] a0 b0; merge_fab [1] [0] a1 b1],
          [0; fab_size (merge_fab [1] [0] a0 b0)]).
Proof. vm_compute. reflexivity. Qed.
