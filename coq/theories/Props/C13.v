(* C13 - tools never touch their inputs and report failures instead of
   returning.  Statements only.

   What is logic here is path algebra: where each tool derives its write
   targets from its arguments.  Model: Paths.Posix (posixpath.join / split /
   normpath for paths without '.' and '..', and the default output of each
   tool as repaired by the fix: commits).  The behaviour of the real runs -
   every file opened for writing, every directory created or removed, the
   input tree before and after, the outcome under an I/O fault injected at
   every write-class operation - is observed by the correspondence (audit
   hook + fault injector); the kernel's file system, symbolic links and '..'
   are outside. *)
From AK Require Import Base.Prelude Bytes.Text Bytes.FabHeaderProofs Reader.Select Paths.Posix Paths.PosixProofs.

(* Explicit outputs: every binary file and header a writer creates is
   join(join(out, level directory), file name); it lies under the requested
   output path for EVERY spelling of that path (relative, absolute, repeated
   or trailing separators, any length). *)
Theorem C13_explicit_outputs : forall out level_dir file,
  starts_sep level_dir = false -> starts_sep file = false ->
  inside out (target out level_dir file) = true.
Proof. exact explicit_target_inside. Qed.
Print Assumptions C13_explicit_outputs.

Theorem C13_join_components : forall a b, starts_sep b = false -> comps (join a b) = comps a ++ comps b.
Proof. exact comps_join. Qed.
Print Assumptions C13_join_components.

(* Default outputs of chef ('<plt>_ck') and marinate ('<plt>.pkl'): a sibling
   of the input, never the input itself nor anything inside it - for every
   spelling of the input path, trailing separators included. *)
Theorem C13_default_outputs : forall p, comps p <> [] ->
  inside p (chef_default p) = false /\ inside p (marinate_default p) = false.
Proof. intros p H. split; [apply chef_default_outside | apply marinate_default_outside]; exact H. Qed.
Print Assumptions C13_default_outputs.

Theorem C13_suffix_defaults : forall p suf,
  comps p <> [] -> suf <> [] -> nochar sep suf = true -> inside p (normpath p ++ suf) = false.
Proof. exact suffix_default_outside. Qed.
Print Assumptions C13_suffix_defaults.

(* the spellings that used to put outputs INSIDE the input, and chk2plt's two
   dangerous cases (trailing separator, name without 'chk'), on the model *)
Example C13_examples :
  chef_default (bs "w/a/") = bs "w/a_ck" /\ marinate_default (bs "/d//plt1//") = bs "/d/plt1.pkl" /\
  combine_default (bs "x/plt1/") (bs "plt2") = bs "plt1plt2" /\
  chk2plt_default (bs "run/chk00005/") = bs "run/plt00005" /\ chk2plt_default (bs "run/restart7") = bs "run/restart7_plt" /\
  mandoline_default (bs "run/plt_00010/") (bs "Sz05000temp") = bs "run/Sz05000temp_00010" /\
  inside (bs "run/chk00005/") (chk2plt_default (bs "run/chk00005/")) = false /\
  inside (bs "run/restart7") (chk2plt_default (bs "run/restart7")) = false /\
  inside (bs "run/plt_00010/") (mandoline_default (bs "run/plt_00010/") (bs "Sz05000temp")) = false.
Proof. vm_compute. repeat split. Qed.
