(* C12 - results do not depend on worker count, task order or serial/parallel
   mode.  Statements only.

   The operating-system scheduler is runtime; what is logic - how results are
   paired with tasks, and which files tasks touch - is modelled, and the
   theorems quantify over every execution / completion order.  The
   correspondence checks the theorems' hypotheses on the task structure of
   every real pool call (ordered map / imap except whip's imap_unordered;
   tasks of one call touch disjoint files) and runs the tools under all
   orders of small calls. *)
From AK Require Import Base.Prelude Array.Paint Array.Amr Sched.Pool.
From Coq Require Import Permutation.

(* map / imap: whatever the order in which the tasks run (any sequence that
   runs every task), the parent receives map f tasks: results are paired with
   tasks by submission index.  (colander, combine, chef, chk2plt offset maps;
   mandoline per-level map; pestle's sum is folded in this order, so even the
   sequence of floating-point additions is schedule-independent.) *)
Theorem C12_ordered_pairing : forall (T R : Type) (f : T -> R) tasks sigma,
  (forall i, (i < length tasks)%nat -> In i sigma) ->
  deliver_ordered f tasks sigma = map (fun t => Some (f t)) tasks.
Proof. intros T R f. exact (ordered_pairing f). Qed.
Print Assumptions C12_ordered_pairing.

(* The same positional pairing applied to imap_unordered results does depend
   on the schedule: turning an imap into an imap_unordered breaks the
   property unless results carry their own keys. *)
Theorem C12_unordered_needs_keys : forall (T R : Type) (f : T -> R) (t1 t2 : T), f t1 <> f t2 ->
  deliver_unordered f [t1; t2] [0%nat; 1%nat] <> deliver_unordered f [t1; t2] [1%nat; 0%nat].
Proof. intros T R f. exact (unordered_needs_keys f). Qed.
Print Assumptions C12_unordered_needs_keys.

(* Workers on the file system: if no task writes a file another task reads or
   writes, every execution order leaves the same files and gives every task
   the same return value. *)
Theorem C12_fs_confluence : forall (path content R : Type) (path_eqb : path -> path -> bool),
  (forall a b, path_eqb a b = true <-> a = b) ->
  forall (tasks : nat -> task path content R) sigma sigma' a0,
  Permutation sigma sigma' -> NoDup sigma ->
  (forall i, In i sigma -> frame path content R (tasks i)) ->
  (forall i j, In i sigma -> In j sigma -> i <> j -> independent path content R tasks i j) ->
  (forall p, fst (exec path content R path_eqb tasks sigma a0) p = fst (exec path content R path_eqb tasks sigma' a0) p) /\
  (forall i r, In (i, r) (snd (exec path content R path_eqb tasks sigma a0)) <->
               In (i, r) (snd (exec path content R path_eqb tasks sigma' a0))).
Proof. intros path content R path_eqb H. exact (fs_confluence path content R path_eqb H). Qed.
Print Assumptions C12_fs_confluence.

(* imap_unordered with keyed, disjoint writes (whip): two builds of the patch
   lists from the same boxes - any completion order, any grouping of boxes
   into per-file tasks - paint the same grid.  (Also mandoline's reduction and
   serial = parallel.) *)
Theorem C12_painting_order_free : forall (B V : Type) (lo hi : B -> list Z) (fac : nat -> Z) (mk : nat -> B -> @patch V),
  (forall j b p, covers (mk j b) p = cell_in (lo b) (hi b) (coarsen (fac j) p)) ->
  forall boxes pts pts' c p,
  patches_of mk boxes pts -> patches_of mk boxes pts' ->
  (forall j bs b b', nth_error boxes j = Some bs -> In b bs -> In b' bs ->
     cell_in (lo b) (hi b) (coarsen (fac j) p) = true ->
     cell_in (lo b') (hi b') (coarsen (fac j) p) = true -> p_val (mk j b') p = p_val (mk j b) p) ->
  paint_levels pts c p = paint_levels pts' c p.
Proof. intros B V lo hi fac mk H. exact (amr_order_free lo hi fac mk H). Qed.
Print Assumptions C12_painting_order_free.
