(* C16 - mandoline's plotfile-format slice is a valid 2D plotfile of the plane
   data.  Statements only.

   Model: Mandoline.SlicePlot (interpolate_bylevel per level with one array
   set per level and side, and the distribution of the written boxes over
   binary files by ceiling division - both repaired by fix: commits).  The
   full statement of the property does NOT hold of the code: a box within half
   a cell of which the plane lies has no own-level data on the other side
   (that side of the level's arrays is never written), and a selected level
   without any box near the plane makes the writer raise - both are recorded
   as known findings (KNOWN_FINDINGS.txt), keyed by decidable predicates on
   the case; the theorems below are about the complementary region, where
   every written box holds both of its own bracketing planes. *)
From AK Require Import Base.Prelude Bytes.Text Bytes.FabHeader Bytes.BinFile Array.Paint Mandoline.Plate
  Mandoline.Slice3D Mandoline.Slice3DProofs Mandoline.SlicePlot Mandoline.SlicePlotProofs.
From Coq Require Import QArith.

(* A box written at level lv carries its own level's data: the two planes are
   cells of THIS box, they bracket the plane (one cell apart, or the same cell
   when the plane is on a cell centre), and the 2D box is the box's in-plane
   footprint. *)
Theorem C16_own_level_partial : forall L cn cx cy P lv ncomp b r,
  (nthZ (sb_lo b) cn <= nthZ (sb_hi b) cn)%Z ->
  slice_box2d L cn cx cy P lv ncomp b = Some r ->
  selected L cn P lv b = true /\
  exists il ir, slice_idx L cn P lv b = (Some il, Some ir) /\
    (0 <= il <= nthZ (sb_hi b) cn - nthZ (sb_lo b) cn /\ 0 <= ir <= nthZ (sb_hi b) cn - nthZ (sb_lo b) cn /\
    b2_left r = centre L lv (nthZ (sb_lo b) cn + il) /\ b2_right r = centre L lv (nthZ (sb_lo b) cn + ir) /\
    b2_left r <= P <= b2_right r /\
    ((il = ir /\ b2_left r = P) \/ (ir = il + 1 /\ b2_left r < P < b2_right r)))%Z /\
    b2_lo r = [nthZ (sb_lo b) cx; nthZ (sb_lo b) cy] /\ b2_hi r = [nthZ (sb_hi b) cx; nthZ (sb_hi b) cy].
Proof.
  intros L cn cx cy P lv ncomp b r H1 H2.
  destruct (slice_box2d_own_level L cn cx cy P lv ncomp b r H1 H2) as (Hs & il & ir & E & A & B & C & D & F & G & I & J).
  split; [exact Hs|]. exists il, ir. repeat split; try assumption; try lia.
Qed.
Print Assumptions C16_own_level_partial.

(* Hence, in every written box of every level, a field affine along the normal
   is reproduced exactly and a field constant along the normal keeps the box's
   stored values (exact arithmetic; same identities as C07). *)
Theorem C16_affine_exact : forall a b ln rn p : Q, ~ rn - ln == 0 ->
  lerp (a * ln + b) (a * rn + b) ln rn p == a * p + b.
Proof. exact lerp_affine. Qed.
Print Assumptions C16_affine_exact.

Theorem C16_constant_normal : forall v ln rn p : Q, ~ rn - ln == 0 -> lerp v v ln rn p == v.
Proof. exact lerp_const. Qed.
Print Assumptions C16_constant_normal.

(* Binary files: the boxes of a level are spread over at most nfiles files and
   every box is written exactly once, in order - for every number of boxes and
   every written size (the one-megabyte threshold included). *)
Theorem C16_chunking : forall (A : Type) (boxes : list A) total_size,
  boxes <> [] -> (0 <= total_size)%Z ->
  concat (file_chunks boxes total_size) = boxes /\
  (length (file_chunks boxes total_size) <= Z.to_nat (nfiles_of total_size))%nat.
Proof. exact file_chunks_cover. Qed.
Print Assumptions C16_chunking.

(* ... which the pinned floor division did not: 8 boxes, 4 MB: two boxes lost. *)
Theorem C16_chunk_drop_refuted_on_pinned_code :
  concat (file_chunks_pinned (seq 0 8) 4000000) = seq 0 6.
Proof. exact file_chunks_pinned_refuted. Qed.
Print Assumptions C16_chunk_drop_refuted_on_pinned_code.

(* the known findings, on the model: a plane a quarter cell below the top
   face of a box gives that box a left plane only (no own-level right sample);
   a plane a quarter cell ABOVE the face still selects the box although the
   plane does not meet it *)
Open Scope Z_scope.
Example C16_one_sided_refuted :
  let b := {| sb_lo := [0;0;0]; sb_hi := [1;1;1]; sb_comps := [] |} in
  selected 0 2 14 0 b = true /\ slice_idx 0 2 14 0 b = (Some 1, None) /\ slice_box2d 0 2 0 1 14 0 0 b = None /\
  selected 0 2 18 0 b = true /\ selected 0 2 20 0 b = false.
Proof. vm_compute. repeat split. Qed.
