(* C09 - pestle integrates every point of the domain exactly once.
   Statements only.

   Model: Pestle.Pestle.volume_integral = pestle.volume_integral together
   with PlotfileCooker.compute_box_array (occupancy resolution r = gcd of all
   box corners, as repaired by the fix: commits listed in KNOWN_FINDINGS.txt).
   Values are integers (the correspondence uses integer payloads and dyadic
   cell volumes, so every floating-point operation of the implementation is
   exact and the per-box sums are compared bit for bit); floating-point
   rounding of np.sum is outside the theorems. *)
From AK Require Import Base.Prelude Bytes.FabHeader Array.Paint Pestle.Pestle Pestle.PestleProofs.

(* The occupancy resolution divides every corner of every box of every level,
   whatever the mix of box sizes (16 and 24, ...): no box-array cell
   straddles a box face. *)
Theorem C09_resolution_aligned : forall lvls bs b, In bs lvls -> In b bs -> aligned (box_rez lvls) b.
Proof. exact box_rez_aligned. Qed.
Print Assumptions C09_resolution_aligned.

(* The covering mask of a coarse cell lo + t is true exactly when no box of
   the next level contains the cell's refinement. *)
Theorem C09_mask : forall r fine lo t,
  0 < r -> Z.even r = true -> Forall (aligned r) fine ->
  Forall (fun l => (r | l)) lo -> length t = length lo -> Forall (fun x => 0 <= x) t ->
  mask_at r (box_array r fine) lo t = negb (covered fine (refine (zip_add lo t))).
Proof. exact mask_spec. Qed.
Print Assumptions C09_mask.

(* Every level below the last selected one contributes, box by box, exactly
   the sum over its cells not covered by the next level of value (x volume
   fraction); the last selected level contributes all its cells; there are
   exactly L + 1 contributing levels (the level limit). *)
Theorem C09_partition_masked : forall lvls L lv id_int id_vol,
  (lv < L)%nat -> 0 < box_rez lvls -> Z.even (box_rez lvls) = true ->
  (forall bs b, In bs lvls -> In b bs -> box_wf b) ->
  nth lv (volume_integral lvls L id_int id_vol) []
  = map (uncovered_sum (nth (S lv) lvls []) id_int id_vol) (nth lv lvls []).
Proof. exact volume_integral_masked. Qed.
Print Assumptions C09_partition_masked.

Theorem C09_partition_finest : forall lvls L id_int id_vol,
  nth L (volume_integral lvls L id_int id_vol) []
  = map (fun b => box_sum b id_int id_vol (fun _ => true)) (nth L lvls []).
Proof. exact volume_integral_finest. Qed.
Print Assumptions C09_partition_finest.

Theorem C09_limit : forall lvls L id_int id_vol,
  length (volume_integral lvls L id_int id_vol) = S L.
Proof. exact volume_integral_levels. Qed.
Print Assumptions C09_limit.

(* Exactly once: a coarse cell is refined as a whole or not at all (a fine
   cell lies in a box of its level iff its parent's refinement does), so a
   point is counted either in its coarse cell (mask true) or in its fine
   cells, never in both and never in neither. *)
Theorem C09_once : forall r fine x, 0 < r -> Z.even r = true -> Forall (aligned r) fine ->
  covered fine (refine (coarsen 2 x)) = covered fine x.
Proof. exact covered_children. Qed.
Print Assumptions C09_once.

(* non-vacuity: boxes of 4 and 6 cells (the scaled-down "16 and 24"), a fine
   box starting at cell 6: r = gcd = 2, the masked level-0 sum counts exactly
   the 10 - 3 = 7 uncovered cells of a 10x1x1... here in 1D-like 3D boxes *)
Example C09_example :
  let ones (n : Z) := repeat 1 (Z.to_nat n) in
  let c0 := {| ib_lo := [0;0;0]; ib_hi := [3;1;1]; ib_data := [ones 16] |} in
  let c1 := {| ib_lo := [4;0;0]; ib_hi := [9;1;1]; ib_data := [ones 24] |} in
  let f0 := {| ib_lo := [6;0;0]; ib_hi := [11;3;3]; ib_data := [ones 96] |} in
  box_rez [[c0; c1]; [f0]] = 2 /\
  volume_integral [[c0; c1]; [f0]] 1 0 None = [[12; 16]; [96]].
Proof. vm_compute. split; reflexivity. Qed.
