(* C02 - opening a plotfile exposes exactly the metadata its headers state.
   Statements only. *)
From AK Require Import Base.Prelude Bytes.Text Bytes.FabHeader Reader.Select
  Plotfile.TextHeader Plotfile.HeaderSpec Plotfile.HeaderProofs.

(* Global header: parsing what a well-formed header states gives it back,
   whatever follows it. *)
Theorem C02_global_roundtrip : forall g rest, wf_gheader g ->
  p_gheader (print_gheader g ++ rest) = Some (g, rest).
Proof. exact p_gheader_print. Qed.
Print Assumptions C02_global_roundtrip.

(* Opening with any admissible level limit exposes exactly the global
   metadata, the (renamed-if-repeated) field keys in header order, and the
   box tables of levels 0..limit; the header may list more refinement ratios
   than needed (g_factors is only tokenised). *)
Theorem C02_open_roundtrip : forall g lvs limit lim,
  wf_gheader g -> Forall (wf_lvboxes (g_ndims g)) lvs -> blen lvs = g_max_level g + 1 ->
  eff_limit (g_max_level g) limit = Some lim -> 0 <= lim + 1 ->
  open_header (print_header g lvs) limit =
    Some {| o_g := g; o_keys := field_keys (g_names g) []; o_limit := lim;
            o_levels := restrict_levels lim lvs |}.
Proof. exact open_header_roundtrip. Qed.
Print Assumptions C02_open_roundtrip.

Theorem C02_limit_semantics : forall m limit lim, eff_limit m limit = Some lim ->
  (limit = None /\ lim = m) \/ (limit = Some lim /\ lim <= m).
Proof. exact eff_limit_spec. Qed.
Print Assumptions C02_limit_semantics.

(* A limit above the finest level is refused. *)
Theorem C02_limit_refused : forall g lvs l, wf_gheader g -> g_max_level g < l ->
  open_header (print_header g lvs) (Some l) = None.
Proof. exact open_header_refuses. Qed.
Print Assumptions C02_limit_refused.

(* Level header: index ranges, binary file and byte offset of every box and,
   when requested, the per-box minima and maxima of every field. *)
Theorem C02_cell_header_roundtrip : forall nf mm c rest, wf_cellh mm c ->
  (mm = true ->  p_cellh nf true (print_cellh nf c ++ rest) = Some (c, rest)) /\
  (mm = false -> exists rest', p_cellh nf false (print_cellh nf c ++ rest) = Some (strip_minmax c, rest')).
Proof. exact p_cellh_print. Qed.
Print Assumptions C02_cell_header_roundtrip.

(* Field dictionary: one key per header field, in header order (key i is
   field i), pairwise distinct, and the identity when no name repeats. *)
Theorem C02_keys_length : forall names, length (field_keys names []) = length names.
Proof. exact field_keys_length. Qed.
Print Assumptions C02_keys_length.

Theorem C02_keys_distinct : forall names, NoDup (field_keys names []).
Proof. exact field_keys_NoDup. Qed.
Print Assumptions C02_keys_distinct.

Theorem C02_keys_identity : forall names, NoDup names -> field_keys names [] = names.
Proof. exact field_keys_nodup_id. Qed.
Print Assumptions C02_keys_identity.

(* header-only opening: [open_header] takes the Header text and the limit
   only - the exposed global metadata cannot depend on level headers or
   binaries (by construction of the model; checked against the
   implementation with the level directories removed). *)

Example C02_nonvacuous :
  let g := {| g_version := [bs "HyperCLaw-V1.1"]; g_names := [bs "temp"; bs "temp"; bs "Y(H2)"];
              g_ndims := 2; g_time := bs "0.5"; g_max_level := 1;
              g_geo_low := [bs "-1.0"; bs "0.25"]; g_geo_high := [bs "3.0"; bs "2.25"];
              g_factors := [2; 2; 2]; g_grid_hi := [[7; 3]; [15; 7]]; g_steps := [7; 7];
              g_dx := [[bs "0.5"; bs "0.5"]; [bs "0.25"; bs "0.25"]]; g_sys_coord := [bs "0"] |} in
  let lv0 := {| lb_ncells := 1; lb_step_line := [bs "7"];
                lb_boxes := [[(bs "-1.0", bs "3.0"); (bs "0.25", bs "2.25")]];
                lb_cell_dir := bs "Level_0"; lb_time_tok := bs "0.5" |} in
  let lv1 := {| lb_ncells := 2; lb_step_line := [bs "7"];
                lb_boxes := [[(bs "-1.0", bs "0.0"); (bs "0.25", bs "1.25")];
                             [(bs "0.0", bs "1.0"); (bs "0.25", bs "1.25")]];
                lb_cell_dir := bs "Level_1"; lb_time_tok := bs "0.5" |} in
  exists o, open_header (print_header g [lv0; lv1]) (Some 0) = Some o /\
            o_keys o = [bs "temp"; bs "temp_2"; bs "Y(H2)"] /\ length (o_levels o) = 1%nat.
Proof. eexists. split; [vm_compute; reflexivity|]. split; vm_compute; reflexivity. Qed.
