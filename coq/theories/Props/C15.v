(* C15 - level iteration yields every box exactly once, whatever the
   schedule.  Statements only. *)
From AK Require Import Base.Prelude Bytes.Text Bytes.FabHeader Bytes.BinFile
  Reader.Select Reader.BoxRead Reader.Level Reader.ReadSpec Reader.ReadProofs
  Reader.LayoutProofs Reader.GetItemProofs Reader.IterProofs Props.C01.
From Coq Require Import Permutation.

(* The sequential scan of one binary file returns the specified read of
   every FAB of the file, in file order, and then stops at end of file
   (completeness and termination; no bound on the number of FABs). *)
Theorem C15_scan_file : forall (fs : list fab) (a : farg) (rs : list arr),
  forallb fab_ok fs = true ->
  omap_all (fun fb => spec_read fb a) fs = Some rs ->
  read_bfile (encode_file fs) a = rs.
Proof. exact read_bfile_spec. Qed.
Print Assumptions C15_scan_file.

(* Every box is stored exactly once over all the binary files of a level. *)
Theorem C15_files_partition : forall lv, wf_level lv = true ->
  Permutation (concat (map (fun nf => file_fabs lv (snd nf)) (lv_files lv))) (lv_fabs lv).
Proof. exact files_partition. Qed.
Print Assumptions C15_files_partition.

(* The chained iterator does not stop early when every file yields data. *)
Theorem C15_chain : forall (ls : list (list arr)),
  Forall (fun l => l <> []) ls -> chain_iter ls = concat ls.
Proof. exact chain_iter_concat. Qed.
Print Assumptions C15_chain.

(* Main statement: iterating a field selection over a level yields every box
   of the level exactly once with its specified data - a permutation of the
   per-box reads - however the boxes are spread over binary files and
   ordered inside them.  The per-file tasks are delivered by an ordered
   imap, so the model has no dependence on the schedule at all (the yielded
   sequence is a function of the directory content only). *)
Theorem C15_iterate_level : forall lv cells a rs,
  wf_level lv = true -> lv_cells lv = Some cells -> lv_fabs lv <> [] ->
  omap_all (fun fb => spec_read fb a) (lv_fabs lv) = Some rs ->
  exists out, stream_iter_all (lv_disk lv) cells a = Some out /\ Permutation out rs.
Proof. exact stream_iter_all_perm. Qed.
Print Assumptions C15_iterate_level.

(* The on-demand iterator over a box selection yields the selected boxes in
   the requested order: it is the same pairing of selection and reads as the
   indexing interface (C01_getitem / C01_order). *)
Theorem C15_iter_selection : forall lv cells a s,
  wf_level lv = true -> lv_cells lv = Some cells ->
  (forall fb, In fb (lv_fabs lv) -> exists r, spec_read fb a = Some r) ->
  stream_getitem (lv_disk lv) cells a s = spec_getitem lv a s.
Proof. exact stream_getitem_spec. Qed.
Print Assumptions C15_iter_selection.

Example C15_nonvacuous :
  exists out, stream_iter_all (lv_disk AK.Props.C01.ex_level)
                (match lv_cells AK.Props.C01.ex_level with Some c => c | None => [] end) (FInt 0) = Some out
              /\ length out = 3%nat.
Proof. eexists. split; vm_compute; reflexivity. Qed.
