(* C04 - taste rejects missing, truncated, shifted or inconsistent plotfile
   data.  Stated as SOUNDNESS of the validator over ARBITRARY directory
   contents: whatever it reports good is consistent; every listed corruption
   class destroys one of the conclusions below, hence is rejected.
   Statements only. *)
From AK Require Import Base.Prelude Bytes.Text Bytes.FabHeader Bytes.BinFile
  Reader.Select Reader.BoxRead Reader.Level Plotfile.TextHeader
  Taste.Taste Taste.TasteSpec Taste.SoundProofs.

(* "good" implies: the global header opens, every validated level has its
   directory and a level header that parses with the right field count
   (a missing / unparsable entry, a dropped index or FabOnDisk line, a wrong
   component count make p_cellh fail), all named binaries exist, and the
   enabled binary checks passed on every validated level.  In failing mode
   "not good" raises, in non-failing mode it evaluates false without raising:
   both are the same boolean (Taster.__init__ catches every exception). *)
Theorem C04_good_inv : forall close o limit d, taste_good close o limit d = true ->
  exists ht op lvs,
    pd_header d = Some ht /\ open_header ht limit = Some op /\
    open_levels d op (t_data o) = Some lvs /\
    Forall (fun lc => check_structure (fst lc) (snd lc) = true) lvs /\
    (t_headers o = true -> Forall (fun lc => check_headers (blen (o_keys op)) (fst lc) (snd lc) = true) lvs) /\
    (t_shape o = true -> Forall (fun lc => check_shape (blen (o_keys op)) (fst lc) (snd lc) = true) lvs) /\
    (t_data o && negb (t_headers o && t_shape o) = true ->
     Forall (fun lc => check_data close (blen (o_keys op)) (fst lc) (snd lc) = true) lvs).
Proof. exact taste_good_inv. Qed.
Print Assumptions C04_good_inv.

Theorem C04_levels_open : forall d op mm lvs, open_levels d op mm = Some lvs ->
  Forall2 (fun lb lc => lookup_dir (lb_cell_dir lb) (pd_dirs d) = Some (fst lc) /\
             exists t rest, ld_cellh (fst lc) = Some t /\ p_cellh (blen (o_keys op)) mm t = Some (snd lc, rest))
          (o_levels op) lvs.
Proof. exact open_levels_inv. Qed.
Print Assumptions C04_levels_open.

(* missing binary file *)
Theorem C04_missing_file : forall (lc : ldir * cellh) f,
  check_structure (fst lc) (snd lc) = true -> In f (c_files (snd lc)) ->
  exists content, lookup f (ld_files (fst lc)) = Some content.
Proof. exact taste_rejects_missing_file. Qed.
Print Assumptions C04_missing_file.

Theorem C04_missing_header : forall close o limit d, pd_header d = None -> taste_good close o limit d = false.
Proof. exact taste_rejects_missing_header. Qed.
Print Assumptions C04_missing_header.

(* index range / component count / unreadable position: at every recorded
   (file, offset) a header line can be read that names exactly the level
   header's index range and the plotfile's field count *)
Theorem C04_headers_sound : forall nf ld c b, check_headers nf ld c = true -> In b (cell_boxes c) ->
  exists f h, lookup (br_file b) (ld_files ld) = Some f /\ 0 <= br_off b /\
    parse_hdr (readline f (br_off b)) = Some h /\ h_lo h = br_lo b /\ h_hi h = br_hi b /\ h_nc h = nf /\
    exists shp, hdr_shape h = Some shp.
Proof. exact check_headers_sound. Qed.
Print Assumptions C04_headers_sound.

(* truncated / extended / data inserted or removed / wrong shape: an accepted
   file is EXACTLY a sequence of FABs, one per box the level header assigns to
   it, each payload of the size its header announces, each header after the
   first exactly the header of the corresponding box *)
Theorem C04_shape_sound : forall nf ld c name f,
  lookup name (ld_files ld) = Some f -> file_boxes c name <> [] -> shape_ok_file nf ld c name = true ->
  0 <= nf -> Forall box_valid (file_boxes c name) ->
  (forall hd shp, parse_hdr (readline f 0) = Some hd -> hdr_shape hd = Some shp -> 0 <= zprod shp * h_nc hd) ->
  file_tiled nf f (file_boxes c name).
Proof. exact shape_ok_file_tiled. Qed.
Print Assumptions C04_shape_sound.

Theorem C04_shape_every_file : forall nf ld c name, check_shape nf ld c = true -> In name (c_files c) ->
  shape_ok_file nf ld c name = true /\ exists f, lookup name (ld_files ld) = Some f.
Proof. exact check_shape_sound. Qed.
Print Assumptions C04_shape_every_file.

(* an accepted file extended by any non-empty bytes is rejected - so of a
   file and any of its proper truncations at most one is accepted *)
Theorem C04_extension_rejected : forall nf ld c name f extra,
  lookup name (ld_files ld) = Some f -> extra <> [] -> file_boxes c name <> [] ->
  In nl f ->
  shape_ok_file nf ld c name = true ->
  forall ld', lookup name (ld_files ld') = Some (f ++ extra) -> shape_ok_file nf ld' c name = false.
Proof. exact shape_ok_file_length. Qed.
Print Assumptions C04_extension_rejected.
