(* C01 - box data read through the indexing interface is exactly what is on
   disk.  Statements only; every proof is [exact lemma]. *)
From AK Require Import Base.Prelude Bytes.Text Bytes.FabHeader Bytes.FabHeaderProofs
  Bytes.BinFile Reader.Select Reader.BoxRead Reader.Level Reader.ReadSpec
  Reader.ReadProofs Reader.LayoutProofs Reader.GetItemProofs.

(* The FAB header codec the whole byte-level model rests on. *)
Theorem C01_header_roundtrip : forall (lo hi : list Z) (nc : Z),
  lo <> [] -> hi <> [] ->
  parse_hdr (print_hdr lo hi nc) = Some {| h_lo := lo; h_hi := hi; h_nc := nc |}.
Proof. exact parse_print_hdr. Qed.
Print Assumptions C01_header_roundtrip.

Theorem C01_header_line : forall (lo hi : list Z) (nc : Z) (r : bytes),
  take_line (print_hdr lo hi nc ++ r) = print_hdr lo hi nc.
Proof. exact take_line_print_hdr. Qed.
Print Assumptions C01_header_line.

(* Reading any honoured field selection of a FAB stored anywhere in any file
   (arbitrary bytes before and after it) at its byte offset returns exactly
   the stored bytes of the selected components, shaped as specified. *)
Theorem C01_read_box : forall pre fb post a r,
  fab_ok fb = true ->
  spec_read fb a = Some r ->
  read_box (pre ++ encode_fab fb ++ post) (blen pre) a = Some r.
Proof. exact read_box_spec. Qed.
Print Assumptions C01_read_box.

(* The level header's (file, offset) of box b points at the FAB of box b. *)
Theorem C01_offset_table : forall lv b c,
  wf_level lv = true -> (b < length (lv_fabs lv))%nat ->
  locate lv (lv_files lv) b = Some c ->
  exists pre post,
    lookup (fst c) (lv_disk lv) = Some (pre ++ encode_fab (nth b (lv_fabs lv) dummy_fab) ++ post)
    /\ blen pre = snd c.
Proof. exact locate_spec. Qed.
Print Assumptions C01_offset_table.

(* Every selection the field selector accepts is honoured on every box. *)
Theorem C01_selector_valid : forall fields u a lv,
  norm_farg fields u = Some a -> wf_level lv = true ->
  (forall fb, In fb (lv_fabs lv) -> fab_nc fb = blen fields) ->
  forall fb, In fb (lv_fabs lv) -> exists r, spec_read fb a = Some r.
Proof. exact norm_farg_valid_level. Qed.
Print Assumptions C01_selector_valid.

(* Main statement: on every well-formed level (any number of boxes, any
   box->file distribution, any on-disk order), for every selection the
   selector accepts and every box selector form, the indexing interface
   returns exactly the specification: the stored data of the selected boxes,
   or an error - never anything else. *)
Theorem C01_getitem : forall lv cells a s,
  wf_level lv = true -> lv_cells lv = Some cells ->
  (forall fb, In fb (lv_fabs lv) -> exists r, spec_read fb a = Some r) ->
  stream_getitem (lv_disk lv) cells a s = spec_getitem lv a s.
Proof. exact stream_getitem_spec. Qed.
Print Assumptions C01_getitem.

(* ... for each selected box in the order requested. *)
Theorem C01_order : forall lv a s idxs rs,
  select_boxes (blen (lv_fabs lv)) s = Some idxs ->
  spec_getitem lv a s = Some rs ->
  length rs = length idxs /\
  forall k i, nth_error idxs k = Some i ->
              exists r, nth_error rs k = Some r /\ spec_level_read lv a i = Some r.
Proof. exact spec_getitem_order. Qed.
Print Assumptions C01_order.

(* Refused selections. *)
Theorem C01_refuse_index : forall fields i,
  (blen fields <= i \/ i < - blen fields) -> norm_farg fields (UInt i) = None.
Proof. exact norm_farg_bad_int. Qed.
Print Assumptions C01_refuse_index.

Theorem C01_refuse_name : forall fields s,
  ~ In s fields -> norm_farg fields (UName s) = None.
Proof. exact norm_farg_bad_name. Qed.
Print Assumptions C01_refuse_name.

Theorem C01_refuse_backward_slice : forall fields a b st,
  st <= 0 -> norm_farg fields (USlice a b (Some st)) = None.
Proof. exact norm_farg_backward_slice. Qed.
Print Assumptions C01_refuse_backward_slice.

Theorem C01_refuse_level : forall limit key, limit < key -> norm_level limit key = None.
Proof. exact norm_level_above_limit. Qed.
Print Assumptions C01_refuse_level.

(* Non-vacuity: a two-file level with three boxes of different shapes stored
   out of order satisfies the hypotheses, and a read goes through. *)
Definition ex_data (n : nat) (c : ascii) : bytes := repeat c n.
Definition ex_level : level :=
  {| lv_fabs :=
       [ {| fab_lo := [0; 0]; fab_hi := [1; 0]; fab_nc := 2; fab_data := ex_data 16 "a"%char ++ ex_data 16 "b"%char |};
         {| fab_lo := [2; 0]; fab_hi := [2; 1]; fab_nc := 2; fab_data := ex_data 16 "c"%char ++ ex_data 16 "d"%char |};
         {| fab_lo := [0; 1]; fab_hi := [0; 1]; fab_nc := 2; fab_data := ex_data 8 "e"%char ++ ex_data 8 "f"%char |} ];
     lv_files := [ (bs "Cell_D_00001", [2; 0]%nat); (bs "Cell_D_00000", [1]%nat) ] |}.

Example C01_nonvacuous :
  wf_level ex_level = true /\
  exists cells, lv_cells ex_level = Some cells /\
    stream_getitem (lv_disk ex_level) cells (FInt 1) (BList [2; 0]) =
      Some [ {| a_shape := [1; 1]; a_data := ex_data 8 "f"%char |};
             {| a_shape := [2; 1]; a_data := ex_data 16 "b"%char |} ].
Proof. split; [vm_compute; reflexivity|]. eexists. split; vm_compute; reflexivity. Qed.
