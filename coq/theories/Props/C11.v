(* C11 - chef writes recipe(box) under the right names with true min/max.
   Statements only.

   Model: Writers.Chef.chef (user recipes of the plotfile data) - scan of each
   binary file, header count rewrite, kept ++ new components, per-box minima
   and maxima, offset-sorted box map, level-header and global-header writers.
   The recipe is a parameter of the model and of the theorems (any function
   of a box's level, index range and data).  Compared byte for byte with
   Chef.cook on every run.  PROVED for every layout: the per-file scan, and the
   mapping of the per-file results back to box order (C11_level_any_layout);
   and THE WHOLE TOOL for user recipes (C11_tool): on the directory image of
   every well-formed 3D plotfile the model writes the directory image of the
   cooked plotfile - binary files, level headers and global header.  The
   decimal printing of the minima / maxima is outside the model (bit patterns).  Cantera-backed recipes share the skeleton; their values are
   Cantera's (oracle). *)
From AK Require Import Base.Prelude Bytes.Text Bytes.FabHeader Bytes.BinFile
  Reader.Select Reader.BoxRead Reader.Level Reader.ReadSpec
  Plotfile.TextHeader Plotfile.HeaderSpec Taste.Taste Plotfile.Abstract Writers.Colander Writers.ColanderSpec
  Writers.Chef Writers.ChefProofs Writers.ScatterProofs Writers.ChefLevelProofs Writers.RelistProofs Writers.ChefToolProofs.

(* The scan of a binary file holding ANY list of well-formed 3D boxes cooks
   every box, in file order, and stops at end of file: the output file is the
   image of the cooked boxes, and the per-box records are their offsets and
   the minima / maxima of exactly the components written. *)
Theorem C11_scan : forall recipe lv (fs : list fab) (news : list (list bytes)) keep fuel pre out0,
  Forall2 (fun fb new => fab_ok fb = true /\ length (fab_lo fb) = 3%nat /\
                         Forall (fun i => 0 <= i < fab_nc fb) keep /\
                         recipe_ok recipe lv fb new /\ (new <> [] \/ keep <> [])) fs news ->
  (length fs < fuel)%nat ->
  let cooked_fs := map (fun fn => cooked keep (snd fn) (fst fn)) (combine fs news) in
  knife_scan recipe lv fuel (pre ++ encode_file fs) (blen pre) keep out0
  = Some (out0 ++ encode_file cooked_fs,
          map (fun jfn => (blen out0 + fab_offset cooked_fs (fst jfn),
                           map comp_min (map (fab_comp (fst (snd jfn))) keep ++ snd (snd jfn)),
                           map comp_max (map (fab_comp (fst (snd jfn))) keep ++ snd (snd jfn))))
              (combine (seq 0 (length fs)) (combine fs news))).
Proof. exact knife_scan_spec. Qed.
Print Assumptions C11_scan.

(* One level, ANY layout (any box -> file distribution, any on-disk order):
   Chef.cook's per-file tasks and the mapping of their results back to box
   order give, for every box i, in box order: the byte offset of the cooked box
   i in the new files, and the minima / maxima of exactly the components of
   box i (kept fields, then the recipe's) - never another box's; the new files
   hold the cooked boxes in the input's layout, which is well-formed. *)
Theorem C11_level_any_layout : forall recipe k lv keep nout new_of c,
  wf_level lv = true ->
  let n := length (lv_fabs lv) in
  let fabi := fun i => nth i (lv_fabs lv) dummy_fab in
  (forall i, (i < n)%nat -> length (fab_lo (fabi i)) = 3%nat) ->
  (forall i, (i < n)%nat -> Forall (fun j => 0 <= j < fab_nc (fabi i)) keep) ->
  (forall i, (i < n)%nat -> recipe_ok recipe k (fabi i) (new_of i)) ->
  (forall i, (i < n)%nat -> new_of i <> [] \/ keep <> []) ->
  (forall i, (i < n)%nat -> blen (new_of i) + blen keep = nout) ->
  c_indexes c = map (fun fb => (fab_lo fb, fab_hi fb)) (lv_fabs lv) ->
  c_files c = map fst (cells_or_nil lv) -> c_offsets c = map snd (cells_or_nil lv) ->
  cook_level recipe k (lv_disk lv) c keep nout
  = Some (map (fun name => (name, encode_file (file_fabs (cooked_lv lv keep new_of) (ids_of lv name))))
              (np_unique (map fst (cells_or_nil lv))),
          map snd (cells_or_nil (cooked_lv lv keep new_of)),
          map (fun i => map comp_min (comps_of lv keep new_of i)) (seq 0 n),
          map (fun i => map comp_max (comps_of lv keep new_of i)) (seq 0 n))
  /\ wf_level (cooked_lv lv keep new_of) = true.
Proof.
  intros recipe k lv keep nout new_of c Hwf n fabi H3 Hk Hr Hne Hno Hi Hf Ho. split.
  - exact (cook_level_spec recipe k lv Hwf keep nout new_of H3 Hk Hr Hne Hno c Hi Hf Ho).
  - exact (wf_cooked recipe k lv Hwf keep nout new_of H3 Hk Hr Hne Hno).
Qed.

(* A cooked box: kept fields bit-identical to the input, then the recipe's
   components, each stored as its own component (the names of the header are
   kept names followed by the recipe's names: checked by the correspondence). *)
Theorem C11_box_contents : forall keep new fb,
  fab_ok fb = true -> Forall (fun i => 0 <= i < fab_nc fb) keep ->
  Forall (fun c => blen c = 8 * fab_cells fb) new ->
  fab_lo (cooked keep new fb) = fab_lo fb /\ fab_hi (cooked keep new fb) = fab_hi fb /\
  (forall j, (j < length keep)%nat -> fab_comp (cooked keep new fb) (Z.of_nat j) = fab_comp fb (nth j keep 0)) /\
  (forall j, (j < length new)%nat -> fab_comp (cooked keep new fb) (Z.of_nat (length keep + j)) = nth j new []).
Proof.
  intros keep new fb H1 H2 H3. repeat split; intros j Hj; [apply cooked_kept | apply cooked_new]; assumption.
Qed.
Print Assumptions C11_box_contents.

(* The recorded minimum (maximum) of a component is one of its values and is
   below (above) every value of the component: the true extremum, for the
   order of finite float64 values on their bit patterns. *)
Theorem C11_minmax : forall c, words_of c <> [] ->
  (In (comp_min c) (words_of c) /\ forall x, In x (words_of c) -> word_leb (comp_min c) x = true) /\
  (In (comp_max c) (words_of c) /\ forall x, In x (words_of c) -> word_leb x (comp_max c) = true).
Proof. intros c H. split; [apply comp_min_spec | apply comp_max_spec]; exact H. Qed.
Print Assumptions C11_minmax.

(* the order on bit patterns is the numeric order: spot checks incl. signs and zeros *)
Example C11_order_examples :
  let w (l : list Z) := map (fun x => ascii_of_nat (Z.to_nat x)) l in
  let one := w [0;0;0;0;0;0;240;63] in        (* 1.0 *)
  let two := w [0;0;0;0;0;0;0;64] in          (* 2.0 *)
  let mone := w [0;0;0;0;0;0;240;191] in      (* -1.0 *)
  let mtwo := w [0;0;0;0;0;0;0;192] in        (* -2.0 *)
  let zero := w [0;0;0;0;0;0;0;0] in
  let mzero := w [0;0;0;0;0;0;0;128] in
  (word_leb one two, word_leb mtwo mone, word_leb mone zero, word_leb zero mzero, word_leb mzero zero, word_leb two one,
   comp_min (one ++ mtwo ++ two), comp_max (one ++ mtwo ++ two))
  = (true, true, true, true, true, false, mtwo, two).
Proof. vm_compute. reflexivity. Qed.
Print Assumptions C11_level_any_layout.

(* THE WHOLE TOOL (user recipes of the plotfile data).  For every well-formed 3D
   plotfile - any number of levels and boxes, any distribution of the boxes over
   binary files, any on-disk order -, every list of kept field indices and every
   recipe that answers on each box with components of the box's size, the model
   of Chef(...).cook() applied to the directory image of the plotfile returns the
   directory image of [chef_spec]: on the same mesh and in the same layout every
   box holds the kept components bit for bit followed by the recipe's; the level
   headers state the new offsets IN BOX ORDER and, per box, the minima / maxima
   of exactly its components; the global header names the output fields. *)
Theorem C11_tool : forall recipe keep outnames pf,
  wf_plotfile pf -> std_dirs pf -> g_ndims (pf_g pf) = 3 -> 0 <= g_max_level (pf_g pf) ->
  Forall (fun i => 0 <= i < pf_nfields pf) keep ->
  (forall k pl, nth_error (pf_levels pf) k = Some pl -> recipe_fits recipe keep outnames k pl) ->
  chef recipe keep outnames (pf_disk pf) = Some (pf_disk (chef_spec recipe keep outnames pf)).
Proof. exact chef_refines. Qed.
Print Assumptions C11_tool.

(* listing the binary files of a level in another order changes neither its
   well-formedness nor where any box lies (the tool lists them by sorted name) *)
Theorem C11_file_listing_irrelevant : forall lv, wf_level lv = true ->
  wf_level (sorted_lv lv) = true /\ cells_or_nil (sorted_lv lv) = cells_or_nil lv /\ lv_fabs (sorted_lv lv) = lv_fabs lv.
Proof. intros lv H. split; [exact (wf_sorted lv H)|]. split; [exact (sorted_cells lv H) | reflexivity]. Qed.
Print Assumptions C11_file_listing_irrelevant.

(* non-vacuity of C11_tool: a two-level 3D plotfile with two fields whose level 1
   lies in one file in the on-disk order (1, 0); the recipe returns a copy of the
   first component; field 1 is kept *)
Definition ex11_g : gheader :=
  {| g_version := [bs "HyperCLaw-V1.1"]; g_names := [bs "a"; bs "b"];
     g_ndims := 3; g_time := bs "0.5"; g_max_level := 1;
     g_geo_low := [bs "0.0"; bs "0.0"; bs "0.0"]; g_geo_high := [bs "2.0"; bs "1.0"; bs "1.0"];
     g_factors := [2]; g_grid_hi := [[1; 0; 0]; [3; 1; 1]]; g_steps := [7; 7];
     g_dx := [[bs "1.0"; bs "1.0"; bs "1.0"]; [bs "0.5"; bs "0.5"; bs "0.5"]]; g_sys_coord := [bs "0"] |}.
Definition ex11_bytes (n : nat) (c : ascii) : bytes := repeat c n.
Definition ex11_pf : plotfile :=
  {| pf_g := ex11_g;
     pf_levels :=
       [ {| pl_boxes := {| lb_ncells := 1; lb_step_line := [bs "7"];
                           lb_boxes := [[(bs "0.0", bs "2.0"); (bs "0.0", bs "1.0"); (bs "0.0", bs "1.0")]];
                           lb_cell_dir := bs "Level_0"; lb_time_tok := bs "0.5" |};
            pl_level := {| lv_fabs := [ {| fab_lo := [0; 0; 0]; fab_hi := [1; 0; 0]; fab_nc := 2;
                                           fab_data := ex11_bytes 16 "a"%char ++ ex11_bytes 16 "b"%char |} ];
                           lv_files := [ (bs "Cell_D_00000", [0%nat]) ] |};
            pl_mins := [[bs "1.0"; bs "2.0"]]; pl_maxs := [[bs "1.0"; bs "2.0"]] |};
         {| pl_boxes := {| lb_ncells := 2; lb_step_line := [bs "7"];
                           lb_boxes := [[(bs "0.0", bs "1.0"); (bs "0.0", bs "1.0"); (bs "0.0", bs "1.0")];
                                        [(bs "1.0", bs "2.0"); (bs "0.0", bs "1.0"); (bs "0.0", bs "1.0")]];
                           lb_cell_dir := bs "Level_1"; lb_time_tok := bs "0.5" |};
            pl_level := {| lv_fabs := [ {| fab_lo := [0; 0; 0]; fab_hi := [1; 1; 1]; fab_nc := 2;
                                           fab_data := ex11_bytes 64 "c"%char ++ ex11_bytes 64 "d"%char |};
                                        {| fab_lo := [2; 0; 0]; fab_hi := [3; 1; 1]; fab_nc := 2;
                                           fab_data := ex11_bytes 64 "e"%char ++ ex11_bytes 64 "f"%char |} ];
                           lv_files := [ (bs "Cell_D_00003", [1%nat; 0%nat]) ] |};
            pl_mins := [[bs "1.0"; bs "2.0"]; [bs "1.0"; bs "2.0"]]; pl_maxs := [[bs "1.0"; bs "2.0"]; [bs "1.0"; bs "2.0"]] |} ] |}.
Definition ex11_recipe (k : nat) (lo hi : list Z) (data : bytes) : option (list bytes) :=
  Some [firstn (length data / 2) data].

Ltac solve_ex11_step :=
  match goal with
  | |- _ /\ _ => split
  | |- forall (k : nat) (pl : plevel), nth_error _ k = Some pl -> _ =>
      intros [|[|[|k]]] pl H; cbn [nth_error] in H; try discriminate; injection H as <-
  | |- ~ In _ _ => let H := fresh in intros H; cbn [In] in H; intuition discriminate
  | |- ~ _ => let H := fresh in intros H; discriminate
  | |- _ <> _ => discriminate
  | |- _ \/ _ => first [left; reflexivity | right; reflexivity]
  | |- _ => first [reflexivity | lia | constructor]
  end.

Example C11_ex_hyps :
  (wf_plotfile ex11_pf /\ std_dirs ex11_pf /\ g_ndims (pf_g ex11_pf) = 3 /\ 0 <= g_max_level (pf_g ex11_pf) /\
   Forall (fun i => 0 <= i < pf_nfields ex11_pf) [1]) /\
  (forall k pl, nth_error (pf_levels ex11_pf) k = Some pl -> recipe_fits ex11_recipe [1] [bs "b"; bs "half"] k pl).
Proof.
  split.
  - unfold wf_plotfile, std_dirs, wf_gheader, wf_plevel, wf_lvboxes, no_char. cbn.
    repeat solve_ex11_step.
  - intros [|[|[|k]]] pl H; cbn [nth_error ex11_pf pf_levels] in H; try discriminate; injection H as <-;
      intros fb Hfb; cbn [pl_level lv_fabs In] in Hfb.
    + destruct Hfb as [<-|[]]. split; [reflexivity|]. eexists. split; [reflexivity|].
      split; [constructor; [vm_compute; reflexivity | constructor]|]. split; [left; discriminate | reflexivity].
    + destruct Hfb as [<-|[<-|[]]]; (split; [reflexivity|]); eexists; (split; [reflexivity|]);
        (split; [constructor; [vm_compute; reflexivity | constructor]|]); (split; [left; discriminate | reflexivity]).
Qed.

Example C11_ex_tool : chef ex11_recipe [1] [bs "b"; bs "half"] (pf_disk ex11_pf)
  = Some (pf_disk (chef_spec ex11_recipe [1] [bs "b"; bs "half"] ex11_pf)).
Proof. vm_compute. reflexivity. Qed.
