(* C11 - chef writes recipe(box) under the right names with true min/max.
   Statements only.

   Model: Writers.Chef.chef (user recipes of the plotfile data) - scan of each
   binary file, header count rewrite, kept ++ new components, per-box minima
   and maxima, offset-sorted box map, level-header and global-header writers.
   The recipe is a parameter of the model and of the theorems (any function
   of a box's level, index range and data).  Compared byte for byte with
   Chef.cook on every run.  PROVED for every layout: the per-file scan, and the
   mapping of the per-file results back to box order (C11_level_any_layout);
   the header text is tied to the code by the correspondence (partial proof).  Cantera-backed recipes share the skeleton; their values are
   Cantera's (oracle). *)
From AK Require Import Base.Prelude Bytes.Text Bytes.FabHeader Bytes.BinFile
  Reader.Select Reader.BoxRead Reader.Level Reader.ReadSpec
  Plotfile.TextHeader Taste.Taste Plotfile.Abstract Writers.Colander Writers.Chef Writers.ChefProofs Writers.ChefLevelProofs.

(* The scan of a binary file holding ANY list of well-formed 3D boxes cooks
   every box, in file order, and stops at end of file: the output file is the
   image of the cooked boxes, and the per-box records are their offsets and
   the minima / maxima of exactly the components written. *)
Theorem C11_scan : forall recipe lv (fs : list fab) (news : list (list bytes)) keep fuel pre out0,
  Forall2 (fun fb new => fab_ok fb = true /\ length (fab_lo fb) = 3%nat /\
                         Forall (fun i => 0 <= i < fab_nc fb) keep /\
                         recipe_ok recipe lv fb new /\ (new <> [] \/ keep <> [])) fs news ->
  (length fs < fuel)%nat ->
  let cooked_fs := map (fun fn => cooked keep (snd fn) (fst fn)) (combine fs news) in
  knife_scan recipe lv fuel (pre ++ encode_file fs) (blen pre) keep out0
  = Some (out0 ++ encode_file cooked_fs,
          map (fun jfn => (blen out0 + fab_offset cooked_fs (fst jfn),
                           map comp_min (map (fab_comp (fst (snd jfn))) keep ++ snd (snd jfn)),
                           map comp_max (map (fab_comp (fst (snd jfn))) keep ++ snd (snd jfn))))
              (combine (seq 0 (length fs)) (combine fs news))).
Proof. exact knife_scan_spec. Qed.
Print Assumptions C11_scan.

(* One level, ANY layout (any box -> file distribution, any on-disk order):
   Chef.cook's per-file tasks and the mapping of their results back to box
   order give, for every box i, in box order: the byte offset of the cooked box
   i in the new files, and the minima / maxima of exactly the components of
   box i (kept fields, then the recipe's) - never another box's; the new files
   hold the cooked boxes in the input's layout, which is well-formed. *)
Theorem C11_level_any_layout : forall recipe k lv keep nout new_of c,
  wf_level lv = true ->
  let n := length (lv_fabs lv) in
  let fabi := fun i => nth i (lv_fabs lv) dummy_fab in
  (forall i, (i < n)%nat -> length (fab_lo (fabi i)) = 3%nat) ->
  (forall i, (i < n)%nat -> Forall (fun j => 0 <= j < fab_nc (fabi i)) keep) ->
  (forall i, (i < n)%nat -> recipe_ok recipe k (fabi i) (new_of i)) ->
  (forall i, (i < n)%nat -> new_of i <> [] \/ keep <> []) ->
  (forall i, (i < n)%nat -> blen (new_of i) + blen keep = nout) ->
  c_indexes c = map (fun fb => (fab_lo fb, fab_hi fb)) (lv_fabs lv) ->
  c_files c = map fst (cells_or_nil lv) -> c_offsets c = map snd (cells_or_nil lv) ->
  cook_level recipe k (lv_disk lv) c keep nout
  = Some (map (fun name => (name, encode_file (file_fabs (cooked_lv lv keep new_of) (ids_of lv name))))
              (np_unique (map fst (cells_or_nil lv))),
          map snd (cells_or_nil (cooked_lv lv keep new_of)),
          map (fun i => map comp_min (comps_of lv keep new_of i)) (seq 0 n),
          map (fun i => map comp_max (comps_of lv keep new_of i)) (seq 0 n))
  /\ wf_level (cooked_lv lv keep new_of) = true.
Proof.
  intros recipe k lv keep nout new_of c Hwf n fabi H3 Hk Hr Hne Hno Hi Hf Ho. split.
  - exact (cook_level_spec recipe k lv Hwf keep nout new_of H3 Hk Hr Hne Hno c Hi Hf Ho).
  - exact (wf_cooked recipe k lv Hwf keep nout new_of H3 Hk Hr Hne Hno).
Qed.

(* A cooked box: kept fields bit-identical to the input, then the recipe's
   components, each stored as its own component (the names of the header are
   kept names followed by the recipe's names: checked by the correspondence). *)
Theorem C11_box_contents : forall keep new fb,
  fab_ok fb = true -> Forall (fun i => 0 <= i < fab_nc fb) keep ->
  Forall (fun c => blen c = 8 * fab_cells fb) new ->
  fab_lo (cooked keep new fb) = fab_lo fb /\ fab_hi (cooked keep new fb) = fab_hi fb /\
  (forall j, (j < length keep)%nat -> fab_comp (cooked keep new fb) (Z.of_nat j) = fab_comp fb (nth j keep 0)) /\
  (forall j, (j < length new)%nat -> fab_comp (cooked keep new fb) (Z.of_nat (length keep + j)) = nth j new []).
Proof.
  intros keep new fb H1 H2 H3. repeat split; intros j Hj; [apply cooked_kept | apply cooked_new]; assumption.
Qed.
Print Assumptions C11_box_contents.

(* The recorded minimum (maximum) of a component is one of its values and is
   below (above) every value of the component: the true extremum, for the
   order of finite float64 values on their bit patterns. *)
Theorem C11_minmax : forall c, words_of c <> [] ->
  (In (comp_min c) (words_of c) /\ forall x, In x (words_of c) -> word_leb (comp_min c) x = true) /\
  (In (comp_max c) (words_of c) /\ forall x, In x (words_of c) -> word_leb x (comp_max c) = true).
Proof. intros c H. split; [apply comp_min_spec | apply comp_max_spec]; exact H. Qed.
Print Assumptions C11_minmax.

(* the order on bit patterns is the numeric order: spot checks incl. signs and zeros *)
Example C11_order_examples :
  let w (l : list Z) := map (fun x => ascii_of_nat (Z.to_nat x)) l in
  let one := w [0;0;0;0;0;0;240;63] in        (* 1.0 *)
  let two := w [0;0;0;0;0;0;0;64] in          (* 2.0 *)
  let mone := w [0;0;0;0;0;0;240;191] in      (* -1.0 *)
  let mtwo := w [0;0;0;0;0;0;0;192] in        (* -2.0 *)
  let zero := w [0;0;0;0;0;0;0;0] in
  let mzero := w [0;0;0;0;0;0;0;128] in
  (word_leb one two, word_leb mtwo mone, word_leb mone zero, word_leb zero mzero, word_leb mzero zero, word_leb two one,
   comp_min (one ++ mtwo ++ two), comp_max (one ++ mtwo ++ two))
  = (true, true, true, true, true, false, mtwo, two).
Proof. vm_compute. reflexivity. Qed.
Print Assumptions C11_level_any_layout.
