(* C17 - chk2plt carries the checkpoint's interior state into a valid
   plotfile.  Statements only.

   Model: Writers.Chk2plt.convert_level (write_plt_bin_from_chk: sequential
   scan of a state file, ghost stripping, optional flooring table, gradp /
   I_R boxes read at their recorded (file, offset), FAB header from the box
   indices, per-box min/max; chk2plt.convert: per state file tasks in offset
   order, results mapped back to box order, 'state' -> 'Cell' file names).
   Compared byte for byte with the converted level directories on every run;
   PROVED for every layout of the state boxes: the scan of a state file
   (C17_scan) and the mapping of the per-file results back to box order, the
   written level being a well-formed level in the state files' layout
   (C17_level_any_layout).
   the text headers (checkpoint Header parse, grid sizes, dx = domain / grid,
   box bounds, Header / Cell_H writers) are checked at property level by the
   independent reader and taste with box coordinates (not modelled: partial). *)
From AK Require Import Base.Prelude Bytes.Text Bytes.FabHeader Bytes.BinFile Bytes.Word
  Reader.Select Reader.BoxRead Reader.Level Reader.ReadSpec Plotfile.Abstract Taste.CompleteProofs
  Writers.Chef Writers.ChefProofs Writers.Chk2plt Writers.Chk2pltProofs Writers.ScatterProofs Writers.Chk2pltLevelProofs
  Plotfile.TextHeader Plotfile.HeaderSpec Taste.Taste Writers.ChkHeader Writers.ChkHeaderProofs Writers.Chk2pltTool Writers.Chk2pltToolProofs Writers.Colander Writers.ColanderSpec Writers.ColanderPipeline Writers.ColanderToolProofs Writers.Chk2pltPipeline Writers.Chk2pltFullProofs Writers.Chk2pltWellFormed.

(* Ghost stripping keeps exactly the interior: for every ghost width >= 1 in
   each direction (they may differ), every component c and every interior cell
   (i, j, k), the converted box holds at (i, j, k) the checkpoint word stored at
   (i + gx, j + gy, k + gz) - Fortran order on both sides. *)
Theorem C17_interior : forall sx sy sz gx gy gz nc data c i j k,
  0 < gx -> 0 < gy -> 0 < gz ->
  0 < sx - 2 * gx -> 0 < sy - 2 * gy -> 0 < sz - 2 * gz ->
  blen data = 8 * (sx * sy * sz * nc) ->
  0 <= c < nc ->
  0 <= i < sx - 2 * gx -> 0 <= j < sy - 2 * gy -> 0 <= k < sz - 2 * gz ->
  sub (8 * (i + (sx - 2 * gx) * (j + (sy - 2 * gy) * k))) 8
      (nth (Z.to_nat c) (strip_ghosts sx sy sz gx gy gz nc data) [])
  = sub (8 * ((i + gx) + sx * ((j + gy) + sy * ((k + gz) + sz * c)))) 8 data.
Proof. exact strip_ghosts_interior. Qed.
Print Assumptions C17_interior.

(* The minima / maxima written to the level header are true extrema of the
   components written (same lemma as for chef). *)
Theorem C17_minmax : forall c, words_of c <> [] ->
  (In (comp_min c) (words_of c) /\ forall x, In x (words_of c) -> word_leb (comp_min c) x = true) /\
  (In (comp_max c) (words_of c) /\ forall x, In x (words_of c) -> word_leb x (comp_max c) = true).
Proof. intros c H. split; [apply comp_min_spec | apply comp_max_spec]; exact H. Qed.
Print Assumptions C17_minmax.

(* non-vacuity: a 2x1x1 box stored with one ghost cell (4x3x3 values, 2 components) *)
Example C17_example :
  let w (x : Z) := [ascii_of_nat (Z.to_nat x); "000"; "000"; "000"; "000"; "000"; "000"; "000"]%char in
  let data := concat (map w (map Z.of_nat (seq 0 72))) in
  strip_ghosts 4 3 3 1 1 1 2 data = [w 17 ++ w 18; w 53 ++ w 54].
Proof. vm_compute. reflexivity. Qed.

(* The scan of a state file holding ANY list of well-formed boxes converts every
   box, in file order, with the job (index range, gradp / I_R location) handed
   over for that position, and stops at end of file: the output file is the image
   of the converted boxes; the records are their offsets and the minima / maxima
   of exactly the components written.  box_comps is one box's conversion (ghost
   stripping - C17_interior -, flooring table, gradp and I_R components read at
   their recorded place). *)
Theorem C17_scan : forall gradp_files ir_files do_gradp do_ir floored y_start nspecies
    (sfs : list fab) (jobs : list job) (compss : list (list bytes)) fuel pre out0,
  Forall2 (fun sfb jc => fab_ok sfb = true /\
                         box_comps gradp_files ir_files do_gradp do_ir floored y_start nspecies
                                   (fab_nc sfb) (fab_shape sfb) (fab_data sfb) (fst jc) = Some (snd jc))
          sfs (combine jobs compss) ->
  length jobs = length sfs -> length compss = length sfs -> (length sfs < fuel)%nat ->
  let outs := map (fun jc => conv_fab (fst jc) (snd jc)) (combine jobs compss) in
  chk_scan gradp_files ir_files do_gradp do_ir floored y_start nspecies fuel (pre ++ encode_file sfs) (blen pre) jobs out0
  = Some (out0 ++ encode_file outs,
          map (fun kjc => (blen out0 + fab_offset outs (fst kjc), map comp_min (snd (snd kjc)), map comp_max (snd (snd kjc))))
              (combine (seq 0 (length sfs)) (combine jobs compss))).
Proof. exact chk_scan_spec. Qed.
Print Assumptions C17_scan.

(* One level, ANY layout of the state boxes (any box -> file distribution, any
   on-disk order; the gradp and I_R boxes lie wherever their own tables say):
   chk2plt.convert's per-state-file tasks and the mapping of their results back
   to box order write the converted boxes in the state files' layout under the
   'state' -> 'Cell' names, record for every box i, IN BOX ORDER, the (file,
   offset) of converted box i and the minima / maxima of ITS components - never
   another box's -, and the written level is a well-formed level: by the reader
   theorems (C01) box i of it reads back as converted box i.
   Hypotheses: each box converts (box_comps, the per-box step), the renamed file
   names stay distinct, each converted box is a well-formed FAB. *)
Theorem C17_level_any_layout : forall gradp_files ir_files gradp_cells ir_cells do_gradp do_ir floored y_start nspecies
    slv boxes comps_of,
  wf_level slv = true -> length boxes = length (lv_fabs slv) ->
  let n := length (lv_fabs slv) in
  let sf := fun i => nth i (lv_fabs slv) dummy_fab in
  (forall i, (i < n)%nat ->
     box_comps gradp_files ir_files do_gradp do_ir floored y_start nspecies
               (fab_nc (sf i)) (fab_shape (sf i)) (fab_data (sf i)) (jobi gradp_cells ir_cells boxes i) = Some (comps_of i)) ->
  NoDup (map (fun nf : bytes * list nat => cell_name (fst nf)) (lv_files slv)) ->
  (forall i, (i < n)%nat -> fab_ok (conv_i gradp_cells ir_cells boxes comps_of i) = true) ->
  let out := conv_lv gradp_cells ir_cells slv boxes comps_of in
  convert_level boxes (lv_disk slv) (cells_or_nil slv) gradp_files gradp_cells ir_files ir_cells do_gradp do_ir floored y_start nspecies
  = Some (map (fun name => (cell_name name, encode_file (file_fabs out (ids_of slv name)))) (np_unique (map fst (cells_or_nil slv))),
          cells_or_nil out,
          map (fun i => map comp_min (comps_of i)) (seq 0 n),
          map (fun i => map comp_max (comps_of i)) (seq 0 n))
  /\ wf_level out = true.
Proof.
  intros gf irf gc ic dg di fl ys ns slv boxes comps_of Hwf Hb n sf Hconv Hnames Hok out.
  exact (convert_level_layout gf irf gc ic dg di fl ys ns slv Hwf boxes Hb comps_of Hconv Hnames Hok).
Qed.
Print Assumptions C17_level_any_layout.

(* The level DIRECTORY: the binary files together with the level header chk2plt
   writes (field count, index ranges, (file, offset) table, minima / maxima rows)
   are the directory of an abstract level (Plotfile.Abstract.pl_dir) - the
   converted level with its files listed as the tool lists them -, which is
   well-formed: the same statement as the level lemmas of the colander / combine
   / chef tool theorems.  ('%.16e' prints stand as the model's word tokens.) *)
Theorem C17_level_directory : forall gradp_files ir_files gradp_cells ir_cells do_gradp do_ir floored y_start nspecies
    slv boxes comps_of nout lb,
  wf_level slv = true -> length boxes = length (lv_fabs slv) ->
  let n := length (lv_fabs slv) in
  let sf := fun i => nth i (lv_fabs slv) dummy_fab in
  (forall i, (i < n)%nat ->
     box_comps gradp_files ir_files do_gradp do_ir floored y_start nspecies
               (fab_nc (sf i)) (fab_shape (sf i)) (fab_data (sf i)) (jobi gradp_cells ir_cells boxes i) = Some (comps_of i)) ->
  NoDup (map (fun nf : bytes * list nat => cell_name (fst nf)) (lv_files slv)) ->
  (forall i, (i < n)%nat -> fab_ok (conv_i gradp_cells ir_cells boxes comps_of i) = true) ->
  let out := conv_plevel gradp_cells ir_cells slv boxes comps_of lb in
  convert_level_dir nout boxes (lv_disk slv) (cells_or_nil slv) gradp_files gradp_cells ir_files ir_cells do_gradp do_ir floored y_start nspecies
  = Some (snd (pl_dir nout out))
  /\ wf_level (pl_level out) = true.
Proof.
  intros gf irf gc ic dg di fl ys ns slv boxes comps_of nout lb Hwf Hb n sf Hconv Hnames Hok out.
  exact (convert_level_dir_spec gf irf gc ic dg di fl ys ns slv Hwf boxes Hb comps_of Hconv Hnames Hok nout lb).
Qed.
Print Assumptions C17_level_directory.

(* The state-only conversion (no gradp, no I_R, no flooring) of a level whose
   boxes are stored with g >= 1 ghost cells on every side, ANY layout: no per-box
   hypothesis is left - every box converts to its interior (C17_interior), each
   converted box is a well-formed FAB, and the conclusions of
   C17_level_any_layout hold with the stripped components. *)
Theorem C17_level_plain : forall g slv boxes,
  1 <= g -> wf_level slv = true -> length boxes = length (lv_fabs slv) ->
  (forall i, (i < length (lv_fabs slv))%nat -> ghosted g (nth i (lv_fabs slv) dummy_fab) (nth i boxes ([], []))) ->
  NoDup (map (fun nf : bytes * list nat => cell_name (fst nf)) (lv_files slv)) ->
  let n := length (lv_fabs slv) in
  let comps := plain_of g slv in
  let out := conv_lv [] [] slv boxes comps in
  convert_level boxes (lv_disk slv) (cells_or_nil slv) [] [] [] [] false false None 0 0
  = Some (map (fun name => (cell_name name, encode_file (file_fabs out (ids_of slv name)))) (np_unique (map fst (cells_or_nil slv))),
          cells_or_nil out,
          map (fun i => map comp_min (comps i)) (seq 0 n),
          map (fun i => map comp_max (comps i)) (seq 0 n))
  /\ wf_level out = true.
Proof. intros g slv boxes Hg Hwf Hb Hgh Hn. exact (convert_level_plain g Hg slv Hwf boxes Hb Hgh Hn). Qed.
Print Assumptions C17_level_plain.

(* non-vacuity: two 1x1x1 boxes stored with one ghost cell (3x3x3 values, 2
   components), box 1 BEFORE box 0 in the one state file: the hypotheses of
   C17_level_any_layout hold and the table comes out in box order *)
Definition exw (x : Z) : bytes := [ascii_of_nat (Z.to_nat x); "000"; "000"; "000"; "000"; "000"; "000"; "000"]%char.
Definition ex_state (base : Z) : bytes := concat (map exw (map (fun k => base + Z.of_nat k) (seq 0 54))).
Definition ex_slv : level :=
  {| lv_fabs := [ {| fab_lo := [-1; -1; -1]; fab_hi := [1; 1; 1]; fab_nc := 2; fab_data := ex_state 0 |};
                  {| fab_lo := [0; -1; -1]; fab_hi := [2; 1; 1]; fab_nc := 2; fab_data := ex_state 100 |} ];
     lv_files := [ (bs "state_D_00000", [1%nat; 0%nat]) ] |}.
Definition ex_boxes : list (list Z * list Z) := [([0; 0; 0], [0; 0; 0]); ([1; 0; 0], [1; 0; 0])].
Definition ex_comps (i : nat) : list bytes := match i with O => [exw 13; exw 40] | _ => [exw 113; exw 140] end.
Example C17_level_example :
  wf_level ex_slv = true /\
  (forall i, (i < 2)%nat ->
     box_comps [] [] false false None 0 0 (fab_nc (nth i (lv_fabs ex_slv) dummy_fab)) (fab_shape (nth i (lv_fabs ex_slv) dummy_fab))
               (fab_data (nth i (lv_fabs ex_slv) dummy_fab)) (jobi [] [] ex_boxes i) = Some (ex_comps i)) /\
  (forall i, (i < 2)%nat -> fab_ok (conv_i [] [] ex_boxes ex_comps i) = true) /\
  option_map (fun r => (map fst (fst (fst (fst r))), map snd (snd (fst (fst r))), snd (fst r)))
             (convert_level ex_boxes (lv_disk ex_slv) (cells_or_nil ex_slv) [] [] [] [] false false None 0 0)
  = Some ([bs "Cell_D_00000"], [blen (encode_fab (conv_i [] [] ex_boxes ex_comps 1)); 0], [[exw 13; exw 40]; [exw 113; exw 140]]).
Proof.
  split; [vm_compute; reflexivity|]. split.
  - intros [|[|i]] Hi; [vm_compute; reflexivity | vm_compute; reflexivity | exfalso; inversion Hi as [|? H1]; inversion H1 as [|? H2]; inversion H2].
  - split.
    + intros [|[|i]] Hi; [vm_compute; reflexivity | vm_compute; reflexivity | exfalso; inversion Hi as [|? H1]; inversion H1 as [|? H2]; inversion H2].
    + vm_compute. reflexivity.
Qed.

(* ... and the same level meets the hypotheses of C17_level_plain with g = 1 *)
Example C17_plain_example :
  (forall i, (i < length (lv_fabs ex_slv))%nat -> ghosted 1 (nth i (lv_fabs ex_slv) dummy_fab) (nth i ex_boxes ([], []))) /\
  NoDup (map (fun nf : bytes * list nat => cell_name (fst nf)) (lv_files ex_slv)) /\
  plain_of 1 ex_slv 0%nat = ex_comps 0 /\ plain_of 1 ex_slv 1%nat = ex_comps 1.
Proof.
  split.
  - intros [|[|i]] Hi; [| | exfalso; cbn in Hi; lia].
    + exists 0, 0, 0, 0, 0, 0. cbn. repeat split; lia.
    + exists 1, 0, 0, 1, 0, 0. cbn. repeat split; lia.
  - split; [vm_compute; repeat constructor; intros []|]. split; vm_compute; reflexivity.
Qed.

(* ---------------------------------------------------------------------- *)
(* The checkpoint Header.  [whole t] stands for float(t) % 1 == 0 and [to_int t]
   for int(float(t)) (parameters: any functions).

   The repaired reader (commit d496cd6) reads back every well-formed checkpoint
   header: with or without the optional integer line after the step number, and
   WHATEVER the time is - there is no hypothesis on the value of the time. *)
Theorem C17_checkpoint_header : forall whole to_int h,
  wf_chk whole to_int h -> p_chk whole to_int (print_chk h) = Some (h, []).
Proof. intros whole to_int h H. exact (p_chk_print whole to_int h H). Qed.
Print Assumptions C17_checkpoint_header.

(* The reader of the pinned commit recognised the integer line by the VALUE of
   the first number after the step: it reads the header back exactly when that
   value tells the two layouts apart (the integer line is one whole number /
   the time is not a whole number) ... *)
Theorem C17_checkpoint_header_pinned : forall whole to_int h,
  wf_chk whole to_int h ->
  match ch_int h with
  | Some l => exists t, l = [t] /\ float_ok t = true /\ whole t = true
  | None => whole (ch_time h) = false
  end ->
  p_chk_pinned whole to_int (print_chk h) = Some (h, []).
Proof. intros whole to_int h H Hv. exact (p_chk_pinned_print whole to_int h H Hv). Qed.
Print Assumptions C17_checkpoint_header_pinned.

(* ... and fails on the initial checkpoint (time 0, no integer line), which the
   repaired reader reads: the defect found by the C17 check and fixed. *)
Definition ex_whole (t : token) : bool := mem t [bs "0"; bs "0.0"; bs "2.0"; bs "1"].
Definition ex_to_int (t : token) : Z := match py_int t with Some z => z | None => 0 end.
Definition ex_chk (time : token) (il : option line) : chk_header :=
  {| ch_version := [bs "Checkpoint"; bs "version:"; bs "1"]; ch_max_level := 1; ch_step := 0; ch_int := il;
     ch_time := time; ch_dt1 := bs "3.9e-12"; ch_dt2 := bs "3.5e-12";
     ch_lo := [bs "0"; bs "0"; bs "0"]; ch_hi := [bs "0.016"; bs "0.016"; bs "0.032"];
     ch_boxes := [[([0; 0; 0], [3; 3; 7])]; [([0; 0; 0], [3; 3; 3]); ([4; 4; 8], [7; 7; 15])]];
     ch_tail := {| ct_pressure := bs "101325.0"; ct_sys := Some 0; ct_typvals := [bs "1.5"; bs "300.0"] |} |}.

Lemma ex_chk_wf time il : float_ok time = true -> match il with Some l => starts_lp l = false | None => True end ->
  wf_chk ex_whole ex_to_int (ex_chk time il).
Proof.
  intros Ht Hl. unfold wf_chk, ex_chk. cbn [ch_max_level ch_boxes ch_int ch_time ch_dt1 ch_dt2 ch_lo ch_hi ch_tail].
  split; [lia|]. split; [reflexivity|]. split; [exact Hl|]. split; [exact Ht|].
  split; [reflexivity|]. split; [reflexivity|].
  split; [repeat constructor|]. split; [repeat constructor|].
  split; [repeat constructor; discriminate|].
  unfold wf_tail. cbn. repeat split; repeat constructor.
Qed.

Example C17_initial_checkpoint_refuted_on_pinned_reader :
  wf_chk ex_whole ex_to_int (ex_chk (bs "0.0") None) /\
  p_chk_pinned ex_whole ex_to_int (print_chk (ex_chk (bs "0.0") None)) = None /\
  p_chk ex_whole ex_to_int (print_chk (ex_chk (bs "0.0") None)) = Some (ex_chk (bs "0.0") None, []).
Proof.
  split; [apply ex_chk_wf; [reflexivity|exact I]|]. split; vm_compute; reflexivity.
Qed.

(* non-vacuity of C17_checkpoint_header with the integer line present and a whole-number time *)
Example C17_checkpoint_header_example :
  wf_chk ex_whole ex_to_int (ex_chk (bs "2.0") (Some [bs "1"])) /\
  p_chk ex_whole ex_to_int (print_chk (ex_chk (bs "2.0") (Some [bs "1"]))) = Some (ex_chk (bs "2.0") (Some [bs "1"]), []).
Proof. split; [apply ex_chk_wf; reflexivity | vm_compute; reflexivity]. Qed.

(* The plotfile Header chk2plt writes.  [frepr t] stands for Python's printing of
   float(t), [dx_row lv] / [bounds lv] for the printed cell sizes and physical box
   bounds of level lv (parameters).  Line by line, what write_global_header writes
   is the printed form of header records (chk_g, chk_lvs): the field list, three
   dimensions, the checkpoint's number of levels, steps and per-level box counts,
   grid sizes 2^lv times the level-0 extent, Level_lv directories ... *)
Theorem C17_written_header : forall frepr dx_row bounds h fields nout,
  nout = blen fields ->
  length (grid0 (hd [] (ch_boxes h))) = 3%nat ->
  write_global_header frepr dx_row bounds h fields nout
  = print_header (chk_g frepr dx_row h fields) (chk_lvs frepr bounds h).
Proof. intros frepr dx_row bounds h fields nout Hn Hg. exact (write_global_header_print frepr dx_row bounds h fields nout Hn Hg). Qed.
Print Assumptions C17_written_header.

(* ... which the plotfile reader opens (C02), for every admissible level limit,
   finding exactly those records: fields velocity, density, Y(species), rhoh,
   temp, RhoRT, then the pressure gradient and the reaction rates when requested
   (chk_fields), and per level the checkpoint's box count. *)
Theorem C17_written_header_opens : forall frepr dx_row bounds h species do_gradp do_ir nout limit lim,
  wf_written frepr dx_row bounds h -> nout = blen (chk_fields species do_gradp do_ir) ->
  eff_limit (ch_max_level h) limit = Some lim -> 0 <= lim + 1 ->
  open_header (write_global_header frepr dx_row bounds h (chk_fields species do_gradp do_ir) nout) limit
  = Some {| o_g := chk_g frepr dx_row h (chk_fields species do_gradp do_ir);
            o_keys := field_keys (chk_fields species do_gradp do_ir) []; o_limit := lim;
            o_levels := restrict_levels lim (chk_lvs frepr bounds h) |}.
Proof.
  intros frepr dx_row bounds h species dg di nout limit lim Hwf Hn Heff Hlim.
  exact (written_header_opens frepr dx_row bounds h (chk_fields species dg di) nout limit lim Hwf Hn Heff Hlim).
Qed.
Print Assumptions C17_written_header_opens.

(* non-vacuity: the example checkpoint with tokens as Python prints them *)
Definition ex_frepr (t : token) : token := if bytes_eqb t (bs "0") then bs "0.0" else t.
Definition ex_dx (lv : Z) : list token := if lv =? 0 then [bs "0.004"; bs "0.004"; bs "0.004"] else [bs "0.002"; bs "0.002"; bs "0.002"].
Definition ex_bounds (lv : Z) : list (list (token * token)) :=
  if lv =? 0 then [[(bs "0.0", bs "0.016"); (bs "0.0", bs "0.016"); (bs "0.0", bs "0.032")]]
  else [[(bs "0.0", bs "0.008"); (bs "0.0", bs "0.008"); (bs "0.0", bs "0.008")];
        [(bs "0.008", bs "0.016"); (bs "0.008", bs "0.016"); (bs "0.016", bs "0.032")]].
Example C17_written_header_example :
  wf_written ex_frepr ex_dx ex_bounds (ex_chk (bs "0.0") None) /\
  option_map (fun o => (g_names (o_g o), map lb_ncells (o_levels o), g_grid_hi (o_g o)))
    (open_header (write_global_header ex_frepr ex_dx ex_bounds (ex_chk (bs "0.0") None) (chk_fields [bs "H2"] true false) 11) None)
  = Some ([bs "x_velocity"; bs "y_velocity"; bs "z_velocity"; bs "density"; bs "Y(H2)"; bs "rhoh"; bs "temp"; bs "RhoRT";
           bs "gradpx"; bs "gradpy"; bs "gradpz"], [1; 2], [[3; 3; 7]; [7; 7; 15]]).
Proof.
  split; [|vm_compute; reflexivity].
  unfold wf_written. split; [cbn; lia|]. split; [reflexivity|]. split; [reflexivity|]. split; [reflexivity|].
  split; [repeat constructor|]. split; [repeat constructor|].
  intros lv Hlv. cbn [ex_chk ch_max_level] in Hlv.
  assert (E : lv = 0 \/ lv = 1) by lia. destruct E as [-> | ->]; (split; [repeat constructor|]; split; [reflexivity|]; repeat constructor).
Qed.

(* ---------------------------------------------------------------------- *)
(* The whole conversion.  chk2plt_tool (Writers/Chk2pltTool.v) is Chk2plt.__init__ +
   convert as one function from the checkpoint directory - Header text, per
   level the binary files and (file, offset) tables of the state / gradp / I_R
   subsets - to the plotfile directory written.  For every abstract checkpoint
   (achk: header record + per level a ghosted state level in ANY file layout)
   whose header is well-formed and three-dimensional, whose component counts
   add up to the field list, and whose levels meet the hypotheses of the level
   theorem, the directory written is pf_disk of the converted abstract plotfile
   conv_pf: the statement of the colander / combine / chef tool theorems
   (C05_tool, C06_tool, C11_tool).  conv_pf has the fields chk_fields, the
   checkpoint's levels, boxes and per-level box counts, and box i of level k
   holds al_comps i - its interior when nothing but the state is converted
   (C17_level_plain). *)
Theorem C17_tool : forall whole to_int frepr dx_row bounds species do_gradp do_ir floored y_start nspecies n_state n_gradp n_ir c,
  wf_chk whole to_int (ac_h c) ->
  chk_nfields_out n_state n_gradp n_ir do_gradp do_ir = blen (chk_fields species do_gradp do_ir) ->
  length (grid0 (hd [] (ch_boxes (ac_h c)))) = 3%nat ->
  length (ac_levels c) = Z.to_nat (ch_max_level (ac_h c) + 1) ->
  (forall k al, nth_error (ac_levels c) k = Some al -> level_ok do_gradp do_ir floored y_start nspecies c k al) ->
  chk2plt_tool whole to_int frepr dx_row bounds species do_gradp do_ir floored y_start nspecies n_state n_gradp n_ir (achk_disk c)
  = Some (pf_disk (conv_pf frepr dx_row bounds species do_gradp do_ir c)).
Proof.
  intros whole to_int frepr dx_row bounds species dg di fl ys ns n1 n2 n3 c Hwf Hn Hg Hlen Hlv.
  exact (chk2plt_refines whole to_int frepr dx_row bounds species dg di fl ys ns n1 n2 n3 c Hwf Hn Hg Hlen Hlv).
Qed.
Print Assumptions C17_tool.

(* non-vacuity of C17_tool: a one-level checkpoint, two 1x1x1 boxes stored with one ghost cell (27 cells, the 7
   state components of a checkpoint without species), box 1 BEFORE box 0 in the one state file; state-only
   conversion.  The hypotheses hold and the tool model, evaluated, agrees with the theorem's right-hand side. *)
Definition ex7_state (base : Z) : bytes := concat (map exw (map (fun k => base + Z.of_nat k) (seq 0 189))).
Definition ex7_slv : level :=
  {| lv_fabs := [ {| fab_lo := [-1; -1; -1]; fab_hi := [1; 1; 1]; fab_nc := 7; fab_data := ex7_state 0 |};
                  {| fab_lo := [0; -1; -1]; fab_hi := [2; 1; 1]; fab_nc := 7; fab_data := ex7_state 50 |} ];
     lv_files := [ (bs "state_D_00000", [1%nat; 0%nat]) ] |}.
Definition ex7_h : chk_header :=
  {| ch_version := [bs "Checkpoint"; bs "version:"; bs "1"]; ch_max_level := 0; ch_step := 0; ch_int := None;
     ch_time := bs "0.0"; ch_dt1 := bs "3.9e-12"; ch_dt2 := bs "3.5e-12";
     ch_lo := [bs "0"; bs "0"; bs "0"]; ch_hi := [bs "2.0"; bs "1.0"; bs "1.0"];
     ch_boxes := [ex_boxes];
     ch_tail := {| ct_pressure := bs "101325.0"; ct_sys := Some 0; ct_typvals := [bs "1.5"; bs "300.0"] |} |}.
Definition ex7_chk : achk :=
  {| ac_h := ex7_h;
     ac_levels := [ {| al_state := ex7_slv; al_gradp_files := []; al_gradp_cells := []; al_ir_files := []; al_ir_cells := [];
                       al_comps := plain_of 1 ex7_slv |} ] |}.
Definition ex7_bounds (lv : Z) : list (list (token * token)) :=
  [[(bs "0.0", bs "1.0"); (bs "0.0", bs "1.0"); (bs "0.0", bs "1.0")];
   [(bs "1.0", bs "2.0"); (bs "0.0", bs "1.0"); (bs "0.0", bs "1.0")]].
Example C17_tool_example :
  wf_chk ex_whole ex_to_int (ac_h ex7_chk) /\
  chk_nfields_out 7 3 0 false false = blen (chk_fields [] false false) /\
  length (grid0 (hd [] (ch_boxes (ac_h ex7_chk)))) = 3%nat /\
  (forall k al, nth_error (ac_levels ex7_chk) k = Some al -> level_ok false false (fun _ => None) 0 0 ex7_chk k al) /\
  chk2plt_tool ex_whole ex_to_int ex_frepr (fun _ => [bs "1.0"; bs "1.0"; bs "1.0"]) ex7_bounds [] false false (fun _ => None) 0 0 7 3 0
               (achk_disk ex7_chk)
  = Some (pf_disk (conv_pf ex_frepr (fun _ => [bs "1.0"; bs "1.0"; bs "1.0"]) ex7_bounds [] false false ex7_chk)).
Proof.
  assert (Hwf : wf_chk ex_whole ex_to_int (ac_h ex7_chk)).
  { unfold wf_chk. cbn [ex7_chk ac_h ex7_h ch_max_level ch_boxes ch_int ch_time ch_dt1 ch_dt2 ch_lo ch_hi ch_tail].
    split; [lia|]. split; [reflexivity|]. split; [exact I|]. split; [reflexivity|].
    split; [reflexivity|]. split; [reflexivity|].
    split; [repeat constructor|]. split; [repeat constructor|].
    split; [repeat constructor; discriminate|].
    unfold wf_tail. cbn. repeat split; repeat constructor. }
  assert (Hlv : forall k al, nth_error (ac_levels ex7_chk) k = Some al -> level_ok false false (fun _ => None) 0 0 ex7_chk k al).
  { intros [|[|k]] al Hk; cbn in Hk; try discriminate Hk. injection Hk as <-.
    unfold level_ok. cbv zeta.
    split; [vm_compute; reflexivity|]. split; [reflexivity|]. split.
    - intros [|[|i]] Hi; [vm_compute; reflexivity | vm_compute; reflexivity | exfalso; cbn in Hi; lia].
    - split; [vm_compute; repeat constructor; intros []|].
      intros [|[|i]] Hi; [vm_compute; reflexivity | vm_compute; reflexivity | exfalso; cbn in Hi; lia]. }
  split; [exact Hwf|]. split; [reflexivity|]. split; [reflexivity|]. split; [exact Hlv|].
  apply C17_tool; [exact Hwf | reflexivity | reflexivity | reflexivity | exact Hlv].
Qed.

(* ... and the converted plotfile is GOOD - the hypothesis of the tool theorems of
   colander, combine and chef and of the chain theorems (C05_tool, C06_tool,
   C11_tool, C14_full_chain) - when in addition the printed floats are float
   literals (wf_written), every level has a box and every converted box holds one
   component per output field (counts_ok). *)
Theorem C17_tool_output_good : forall frepr dx_row bounds species do_gradp do_ir floored y_start nspecies c,
  wf_written frepr dx_row bounds (ac_h c) ->
  length (ac_levels c) = Z.to_nat (ch_max_level (ac_h c) + 1) ->
  (forall k al, nth_error (ac_levels c) k = Some al -> level_ok do_gradp do_ir floored y_start nspecies c k al) ->
  counts_ok species do_gradp do_ir c ->
  good (conv_pf frepr dx_row bounds species do_gradp do_ir c).
Proof.
  intros frepr dx_row bounds species dg di fl ys ns c Hw Hlen Hlv Hcnt.
  exact (conv_pf_good frepr dx_row bounds species dg di fl ys ns c Hw Hlen Hlv Hcnt).
Qed.
Print Assumptions C17_tool_output_good.

(* A conversion followed by a strain: what colander writes from the directory
   chk2plt wrote is pf_disk of the pure strain of the pure conversion. *)
Theorem C17_then_colander : forall whole to_int frepr dx_row bounds species do_gradp do_ir floored y_start nspecies
    n_state n_gradp n_ir c vars limit lim d,
  wf_chk whole to_int (ac_h c) -> wf_written frepr dx_row bounds (ac_h c) ->
  chk_nfields_out n_state n_gradp n_ir do_gradp do_ir = blen (chk_fields species do_gradp do_ir) ->
  length (ac_levels c) = Z.to_nat (ch_max_level (ac_h c) + 1) ->
  (forall k al, nth_error (ac_levels c) k = Some al -> level_ok do_gradp do_ir floored y_start nspecies c k al) ->
  counts_ok species do_gradp do_ir c ->
  chk2plt_tool whole to_int frepr dx_row bounds species do_gradp do_ir floored y_start nspecies n_state n_gradp n_ir (achk_disk c) = Some d ->
  eff_limit (ch_max_level (ac_h c)) limit = Some lim -> 0 <= lim ->
  fst (resolve_vars (field_keys (chk_fields species do_gradp do_ir) []) vars) <> [] ->
  colander vars limit d = Some (pf_disk (colander_spec vars lim (conv_pf frepr dx_row bounds species do_gradp do_ir c))).
Proof.
  intros whole to_int frepr dx_row bounds species dg di fl ys ns n1 n2 n3 c vars limit lim d
         Hwf Hw Hn Hlen Hlv Hcnt Htool Heff Hlim Hvars.
  exact (chk2plt_then_colander whole to_int frepr dx_row bounds species dg di fl ys ns n1 n2 n3 c vars limit lim d
           Hwf Hw Hn Hlen Hlv Hcnt Htool Heff Hlim Hvars).
Qed.
Print Assumptions C17_then_colander.

(* non-vacuity of C17_tool_output_good / C17_then_colander: the example checkpoint of C17_tool_example meets the two
   further hypotheses, and straining its conversion to two fields, evaluated, agrees with the theorem *)
Example C17_tool_output_good_example :
  wf_written ex_frepr (fun _ => [bs "1.0"; bs "1.0"; bs "1.0"]) ex7_bounds (ac_h ex7_chk) /\
  counts_ok [] false false ex7_chk /\
  option_map (fun d => option_map (fun t => nth 2 t []) (pd_header d))
    (match chk2plt_tool ex_whole ex_to_int ex_frepr (fun _ => [bs "1.0"; bs "1.0"; bs "1.0"]) ex7_bounds [] false false (fun _ => None) 0 0 7 3 0
                        (achk_disk ex7_chk) with
     | Some d => colander [bs "temp"; bs "density"] None d
     | None => None end)
  = Some (Some [bs "temp"]).
Proof.
  split.
  - unfold wf_written. split; [cbn; lia|]. split; [reflexivity|]. split; [reflexivity|]. split; [reflexivity|].
    split; [repeat constructor|]. split; [repeat constructor|].
    intros lv Hlv. cbn [ex7_chk ac_h ex7_h ch_max_level] in Hlv. assert (lv = 0) by lia. subst lv.
    split; [repeat constructor|]. split; [reflexivity|]. repeat constructor.
  - split; [|vm_compute; reflexivity].
    intros [|[|k]] al Hk; cbn in Hk; try discriminate Hk. injection Hk as <-.
    split; [discriminate|].
    intros [|[|i]] Hi; [vm_compute; reflexivity | vm_compute; reflexivity | exfalso; cbn in Hi; lia].
Qed.

(* "Converting a PeleLMeX checkpoint writes a 3D plotfile that validation accepts":
   for every convertible abstract checkpoint (the hypotheses of C17_tool and
   C17_tool_output_good together: Chk2pltPipeline.convertible) the conversion
   succeeds and the validator accepts the directory written, for every admissible
   level limit and every option set that does not reach the data check alone (box
   coordinates are outside the model: oracle). *)
Theorem C17_output_accepted : forall whole to_int frepr dx_row bounds species do_gradp do_ir floored y_start nspecies
    n_state n_gradp n_ir close c o limit lim,
  convertible whole to_int frepr dx_row bounds species do_gradp do_ir floored y_start nspecies n_state n_gradp n_ir c ->
  eff_limit (ch_max_level (ac_h c)) limit = Some lim -> 0 <= lim ->
  (t_data o && negb (t_headers o && t_shape o)) = false ->
  exists d, chk2plt_tool whole to_int frepr dx_row bounds species do_gradp do_ir floored y_start nspecies n_state n_gradp n_ir (achk_disk c) = Some d /\
            taste_good close o limit d = true.
Proof.
  intros whole to_int frepr dx_row bounds species dg di fl ys ns n1 n2 n3 close c o limit lim Hc Heff Hlim Ho.
  exact (chk2plt_output_accepted whole to_int frepr dx_row bounds species dg di fl ys ns n1 n2 n3 close c o limit lim Hc Heff Hlim Ho).
Qed.
Print Assumptions C17_output_accepted.

(* non-vacuity of `convertible` (C17_output_accepted, C14_chain_from_checkpoint) *)
Example C17_convertible_example :
  convertible ex_whole ex_to_int ex_frepr (fun _ => [bs "1.0"; bs "1.0"; bs "1.0"]) ex7_bounds [] false false (fun _ => None) 0 0 7 3 0 ex7_chk.
Proof.
  destruct C17_tool_example as (Hwf & Hn & Hg & Hlv & _).
  destruct C17_tool_output_good_example as (Hw & Hcnt & _).
  unfold convertible. split; [exact Hwf|]. split; [exact Hw|]. split; [exact Hn|]. split; [reflexivity|]. split; [exact Hlv|exact Hcnt].
Qed.

(* The conversion in EVERY mode - pressure gradient and / or species reaction rates
   converted or not, flooring on or off -, ANY layout of each of the three data
   subsets: when the state boxes are stored with g >= 1 ghost cells, the gradp /
   I_R subsets are well-formed levels of their own on the boxes' interiors (read
   through their own (file, offset) tables), and - with flooring - the table of
   the rescaled species components (a floating-point result, numpy's) has for
   every box as many components as there are species, each of the interior's
   size, no per-box hypothesis is left: every box converts to its interior, with
   the species components replaced by the table's when flooring, followed by the
   gradient and the rate components (full_of); each converted box is a
   well-formed FAB and the conclusions of C17_level_any_layout hold.
   (glv / rlv = None: that subset is not converted; floored = None: no flooring;
   all three None is C17_level_plain.) *)
Theorem C17_level_full : forall g slv boxes glv rlv floored ys ns,
  1 <= g -> wf_level slv = true -> length boxes = length (lv_fabs slv) ->
  (forall i, (i < length (lv_fabs slv))%nat -> ghosted g (nth i (lv_fabs slv) dummy_fab) (nth i boxes ([], []))) ->
  NoDup (map (fun nf : bytes * list nat => cell_name (fst nf)) (lv_files slv)) ->
  (forall i, (i < length (lv_fabs slv))%nat ->
     match floored with
     | Some tbl => exists new, nth_error tbl i = Some new /\ Z.of_nat (length new) = ns /\
                               Forall (fun c => blen c = 8 * interior_cells (nth i boxes ([], []))) new
     | None => True end) ->
  subset_ok slv boxes glv -> subset_ok slv boxes rlv ->
  let n := length (lv_fabs slv) in
  let comps := full_of g slv glv rlv floored ys in
  let out := conv_lv (sub_cells glv) (sub_cells rlv) slv boxes comps in
  convert_level boxes (lv_disk slv) (cells_or_nil slv) (sub_files glv) (sub_cells glv) (sub_files rlv) (sub_cells rlv)
                (sub_on glv) (sub_on rlv) floored ys ns
  = Some (map (fun name => (cell_name name, encode_file (file_fabs out (ids_of slv name)))) (np_unique (map fst (cells_or_nil slv))),
          cells_or_nil out,
          map (fun i => map comp_min (comps i)) (seq 0 n),
          map (fun i => map comp_max (comps i)) (seq 0 n))
  /\ wf_level out = true.
Proof.
  intros g slv boxes glv rlv floored ys ns Hg Hwf Hb Hgh Hn Hfl Hgl Hrl.
  exact (convert_level_full g Hg slv Hwf boxes Hb Hgh Hn glv rlv floored ys ns Hfl Hgl Hrl).
Qed.
Print Assumptions C17_level_full.

(* non-vacuity: the two ghosted boxes of ex_slv with a pressure-gradient subset (3 components per box, box 1 before
   box 0 in ITS file), no reaction rates, and flooring with a one-species table replacing component 1: the hypotheses hold,
   and each converted box is interior (component 1 replaced) ++ gradient *)
Definition ex_floor : list (list bytes) := [[exw 77]; [exw 88]].
Definition ex_glv : level :=
  {| lv_fabs := [ {| fab_lo := [0; 0; 0]; fab_hi := [0; 0; 0]; fab_nc := 3; fab_data := exw 201 ++ exw 202 ++ exw 203 |};
                  {| fab_lo := [1; 0; 0]; fab_hi := [1; 0; 0]; fab_nc := 3; fab_data := exw 211 ++ exw 212 ++ exw 213 |} ];
     lv_files := [ (bs "gradp_D_00000", [1%nat; 0%nat]) ] |}.
Example C17_level_full_example :
  subset_ok ex_slv ex_boxes (Some ex_glv) /\ subset_ok ex_slv ex_boxes None /\
  (forall i, (i < length (lv_fabs ex_slv))%nat ->
     exists new, nth_error ex_floor i = Some new /\ Z.of_nat (length new) = 1 /\
                 Forall (fun c => blen c = 8 * interior_cells (nth i ex_boxes ([], []))) new) /\
  full_of 1 ex_slv (Some ex_glv) None (Some ex_floor) 1 0%nat = [exw 13; exw 77; exw 201; exw 202; exw 203] /\
  full_of 1 ex_slv (Some ex_glv) None (Some ex_floor) 1 1%nat = [exw 113; exw 88; exw 211; exw 212; exw 213] /\
  full_of 1 ex_slv (Some ex_glv) None None 0 0%nat = [exw 13; exw 40; exw 201; exw 202; exw 203].
Proof.
  split.
  - unfold subset_ok. split; [vm_compute; reflexivity|]. split; [reflexivity|].
    intros [|[|i]] Hi; [reflexivity | reflexivity | exfalso; cbn in Hi; lia].
  - split; [exact I|]. split.
    + intros [|[|i]] Hi; [| | exfalso; cbn in Hi; lia].
      * exists [exw 77]. split; [reflexivity|]. split; [reflexivity|]. repeat constructor.
      * exists [exw 88]. split; [reflexivity|]. split; [reflexivity|]. repeat constructor.
    + split; [vm_compute; reflexivity|]. split; vm_compute; reflexivity.
Qed.

(* WELL-FORMED CHECKPOINTS ARE CONVERTIBLE.  An abstract checkpoint given by its
   header record and, per level, a state level stored with g >= 1 ghost cells in
   ANY file layout, the gradp / I_R subsets as levels of their own on the
   interiors when they are converted (any layout each), and - with flooring - the
   table of rescaled species components (Chk2pltWellFormed.wlevel_ok): with a
   well-formed header whose printed floats are float literals and the component
   counts announced by the checkpoint's level headers - holding for every FAB
   (wcounts_ok) - adding up to the field list, it is `convertible`: nothing is
   assumed about individual boxes any more.  Hence
   (C17_output_accepted, C17_tool, C14_chain_from_checkpoint) the conversion
   succeeds in every mode, writes pf_disk of the pure conversion - box i of level
   k holding interior (species rescaled) ++ gradient ++ rates -, the validator
   accepts it, and it is a valid input of every chain of the other writers. *)
Theorem C17_wellformed_convertible : forall g ys ns whole to_int frepr dx_row bounds species do_gradp do_ir n_state n_gradp n_ir h wls,
  1 <= g ->
  wf_chk whole to_int h -> wf_written frepr dx_row bounds h ->
  chk_nfields_out n_state n_gradp n_ir do_gradp do_ir = blen (chk_fields species do_gradp do_ir) ->
  length wls = Z.to_nat (ch_max_level h + 1) ->
  (forall k wl, nth_error wls k = Some wl ->
     wlevel_ok g ns do_gradp do_ir (nth k (ch_boxes h) []) wl /\ wcounts_ok ys ns n_state n_gradp n_ir wl) ->
  convertible whole to_int frepr dx_row bounds species do_gradp do_ir
              (fun j => match nth_error wls j with Some w => wl_floor w | None => None end) ys ns n_state n_gradp n_ir
              (achk_of g ys h wls).
Proof.
  intros g ys ns whole to_int frepr dx_row bounds species dg di n1 n2 n3 h wls Hg Hwf Hw Hn Hlen Hlv.
  exact (wellformed_convertible_counts g ys ns whole to_int frepr dx_row bounds species dg di n1 n2 n3 h wls Hg Hwf Hw Hn Hlen Hlv).
Qed.
Print Assumptions C17_wellformed_convertible.

(* non-vacuity: the state level of C17_tool_example (one ghost cell; no gradp, no I_R, no flooring) is a well-formed
   level, and its converted boxes are the interiors *)
Example C17_wellformed_example :
  full_of 1 ex7_slv None None None 0 0%nat = plain_of 1 ex7_slv 0%nat /\
  (forall k wl, nth_error [ {| wl_state := ex7_slv; wl_gradp := None; wl_ir := None; wl_floor := None |} ] k = Some wl ->
     wlevel_ok 1 0 false false (nth k (ch_boxes ex7_h) []) wl /\ wcounts_ok 0 0 7 3 0 wl).
Proof.
  split; [vm_compute; reflexivity|].
  intros [|[|k]] wl Hk; cbn in Hk; try discriminate Hk. injection Hk as <-.
  split.
  - unfold wlevel_ok. cbv zeta. cbn [wl_state wl_gradp wl_ir wl_floor].
    split; [vm_compute; reflexivity|]. split; [reflexivity|]. split.
    + intros [|[|i]] Hi; [| | exfalso; cbn in Hi; lia].
      * exists 0, 0, 0, 0, 0, 0. cbn. repeat split; lia.
      * exists 1, 0, 0, 1, 0, 0. cbn. repeat split; lia.
    + split; [vm_compute; repeat constructor; intros []|].
      split; [reflexivity|]. split; [reflexivity|]. split; [exact I|]. split; [exact I|]. intros i _. exact I.
  - unfold wcounts_ok. cbn [wl_state wl_gradp wl_ir wl_floor ex7_slv lv_fabs].
    split; [discriminate|]. split; [repeat constructor|]. split; [exact I|]. split; exact I.
Qed.
