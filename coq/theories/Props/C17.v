(* C17 - chk2plt carries the checkpoint's interior state into a valid
   plotfile.  Statements only.

   Model: Writers.Chk2plt.convert_level (write_plt_bin_from_chk: sequential
   scan of a state file, ghost stripping, optional flooring table, gradp /
   I_R boxes read at their recorded (file, offset), FAB header from the box
   indices, per-box min/max; chk2plt.convert: per state file tasks in offset
   order, results mapped back to box order, 'state' -> 'Cell' file names).
   Compared byte for byte with the converted level directories on every run;
   the text headers (checkpoint Header parse, grid sizes, dx = domain / grid,
   box bounds, Header / Cell_H writers) are checked at property level by the
   independent reader and taste with box coordinates (not modelled: partial). *)
From AK Require Import Base.Prelude Bytes.Text Bytes.FabHeader Bytes.BinFile
  Reader.Select Reader.BoxRead Reader.Level Writers.Chef Writers.ChefProofs Writers.Chk2plt Writers.Chk2pltProofs.

(* Ghost stripping keeps exactly the interior: for every ghost width >= 1 in
   each direction (they may differ), every component c and every interior cell
   (i, j, k), the converted box holds at (i, j, k) the checkpoint word stored at
   (i + gx, j + gy, k + gz) - Fortran order on both sides. *)
Theorem C17_interior : forall sx sy sz gx gy gz nc data c i j k,
  0 < gx -> 0 < gy -> 0 < gz ->
  0 < sx - 2 * gx -> 0 < sy - 2 * gy -> 0 < sz - 2 * gz ->
  blen data = 8 * (sx * sy * sz * nc) ->
  0 <= c < nc ->
  0 <= i < sx - 2 * gx -> 0 <= j < sy - 2 * gy -> 0 <= k < sz - 2 * gz ->
  sub (8 * (i + (sx - 2 * gx) * (j + (sy - 2 * gy) * k))) 8
      (nth (Z.to_nat c) (strip_ghosts sx sy sz gx gy gz nc data) [])
  = sub (8 * ((i + gx) + sx * ((j + gy) + sy * ((k + gz) + sz * c)))) 8 data.
Proof. exact strip_ghosts_interior. Qed.
Print Assumptions C17_interior.

(* The minima / maxima written to the level header are true extrema of the
   components written (same lemma as for chef). *)
Theorem C17_minmax : forall c, words_of c <> [] ->
  (In (comp_min c) (words_of c) /\ forall x, In x (words_of c) -> word_leb (comp_min c) x = true) /\
  (In (comp_max c) (words_of c) /\ forall x, In x (words_of c) -> word_leb x (comp_max c) = true).
Proof. intros c H. split; [apply comp_min_spec | apply comp_max_spec]; exact H. Qed.
Print Assumptions C17_minmax.

(* non-vacuity: a 2x1x1 box stored with one ghost cell (4x3x3 values, 2 components) *)
Example C17_example :
  let w (x : Z) := [ascii_of_nat (Z.to_nat x); "000"; "000"; "000"; "000"; "000"; "000"; "000"]%char in
  let data := concat (map w (map Z.of_nat (seq 0 72))) in
  strip_ghosts 4 3 3 1 1 1 2 data = [w 17 ++ w 18; w 53 ++ w 54].
Proof. vm_compute. reflexivity. Qed.
