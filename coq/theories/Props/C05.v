From AK Require Import Base.Prelude Bytes.FabHeaderProofs.
Theorem C05_stub : forall z, Text.py_int (Text.str_of_Z z) = Some z.
Proof. exact py_int_str_of_Z. Qed.
Print Assumptions C05_stub.
