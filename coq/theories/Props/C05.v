(* C05 - colander output holds exactly the kept fields and levels, bit for
   bit.  Statements only.

   The model of the whole tool is Writers.Colander.colander (directory image
   -> directory image); the correspondence check compares it with the output
   directory of Colander.strain byte for byte / token for token on every run.
   What is PROVED about that model, for every input, is the binary core: the
   per-file worker, variable resolution and the contents of a strained box.
   The re-mapping of the returned offsets to box order (strain_level) and the
   text rewriting of the two headers are part of the executable model and are
   tied to the code by the correspondence only (C05 is therefore a partial
   proof: see DESIGN.md). *)
From AK Require Import Base.Prelude Bytes.Text Bytes.FabHeader Bytes.BinFile
  Reader.Select Reader.BoxRead Reader.Level Reader.ReadSpec
  Plotfile.TextHeader Taste.Taste Plotfile.Abstract
  Writers.Colander Writers.ColanderSpec Writers.ColanderSpecProofs Writers.ColanderProofs.

(* Variable resolution: every kept index names an input field, there is one
   output name per kept index ('all', unknown names, repeats and any order
   included). *)
Theorem C05_resolve_vars : forall keys vars kept names,
  resolve_vars keys vars = (kept, names) ->
  length kept = length names /\ Forall (fun i => 0 <= i < blen keys) kept.
Proof. exact resolve_vars_range. Qed.
Print Assumptions C05_resolve_vars.

(* The worker, on the image of ANY list of well-formed FABs (any box shapes,
   2D or 3D, any number of boxes), handed ANY sub-list of its boxes in ANY
   order with their true offsets: the output file is exactly the image of
   those boxes restricted to the kept components in the requested order, and
   the returned offsets are where each of them starts in the output. *)
Theorem C05_worker_any_layout : forall (fs : list fab) (nvars : Z) (kept : list Z) (sel : list nat) (out0 : bytes),
  Forall (fun fb => fab_ok fb = true /\ fab_nc fb = nvars) fs ->
  Forall (fun i => 0 <= i < nvars) kept ->
  Forall (fun k => (k < length fs)%nat) sel ->
  let picked := map (fun k => nth k fs dummy_fab) sel in
  strain_boxes (encode_file fs) nvars kept (map (box_of fs) sel) out0
  = Some (out0 ++ encode_file (map (keep_fab kept) picked),
          map (fun j => blen out0 + fab_offset (map (keep_fab kept) picked) j) (seq 0 (length sel))).
Proof. exact strain_boxes_spec. Qed.
Print Assumptions C05_worker_any_layout.

(* Component j of an output box is bit for bit component kept[j] of the input
   box with the same index range. *)
Theorem C05_kept_fields_bit_identical : forall kept fb j,
  fab_ok fb = true -> Forall (fun i => 0 <= i < fab_nc fb) kept -> (j < length kept)%nat ->
  fab_lo (keep_fab kept fb) = fab_lo fb /\ fab_hi (keep_fab kept fb) = fab_hi fb /\
  fab_comp (keep_fab kept fb) (Z.of_nat j) = fab_comp fb (nth j kept 0).
Proof. intros; repeat split; apply keep_fab_comp; assumption. Qed.
Print Assumptions C05_kept_fields_bit_identical.

(* An output box is a well-formed FAB with one component per kept field (so
   the validator theorems of C03 apply to files made of them). *)
Theorem C05_strained_box_wf : forall kept fb, fab_ok fb = true ->
  Forall (fun i => 0 <= i < fab_nc fb) kept ->
  fab_ok (keep_fab kept fb) = true /\ fab_nc (keep_fab kept fb) = blen kept.
Proof. intros kept fb H1 H2. split; [apply keep_fab_ok; assumption | reflexivity]. Qed.
Print Assumptions C05_strained_box_wf.

(* The textual header rewrite of the worker changes the component count and
   nothing else, whatever digits the index ranges contain. *)
Theorem C05_header_rewrite : forall lo hi nvars nkept,
  py_replace (str_of_Z nvars ++ [nl]) (str_of_Z nkept ++ [nl]) (print_hdr lo hi nvars)
  = print_hdr lo hi nkept.
Proof. exact replace_count_in_header. Qed.
Print Assumptions C05_header_rewrite.

(* non-vacuity: two 2x1 boxes with 3 components stored in the order (1, 0),
   strained to components [2; 0] in box order *)
Example C05_worker_example :
  let w (x : Z) := [ascii_of_nat (Z.to_nat x); "000"; "000"; "000"; "000"; "000"; "000"; "000"]%char in
  let fb0 := {| fab_lo := [0; 0]; fab_hi := [1; 0]; fab_nc := 3;
                fab_data := w 1 ++ w 2 ++ w 3 ++ w 4 ++ w 5 ++ w 6 |} in
  let fb1 := {| fab_lo := [2; 0]; fab_hi := [3; 0]; fab_nc := 3;
                fab_data := w 11 ++ w 12 ++ w 13 ++ w 14 ++ w 15 ++ w 16 |} in
  let fs := [fb1; fb0] in
  strain_boxes (encode_file fs) 3 [2; 0] (map (box_of fs) [1%nat; 0%nat]) []
  = Some (encode_file [keep_fab [2; 0] fb0; keep_fab [2; 0] fb1],
          [0; fab_size (keep_fab [2; 0] fb0)]).
Proof. vm_compute. reflexivity. Qed.
