(* C05 - colander output holds exactly the kept fields and levels, bit for
   bit.  Statements only.

   The model of the whole tool is Writers.Colander.colander (directory image
   -> directory image); the correspondence check compares it with the output
   directory of Colander.strain byte for byte / token for token on every run.
   PROVED about that model, for every well-formed plotfile: the whole tool
   (C05_tool) - it writes exactly the directory image of the strained plotfile
   [colander_spec]; below it the pieces: variable resolution, the per-file
   worker, the re-mapping of offsets to box order for any layout
   (C05_level_any_layout), the text rewriting of the level header
   (C05_level_header), what a strained box holds. *)
From AK Require Import Base.Prelude Bytes.Text Bytes.FabHeader Bytes.BinFile
  Reader.Select Reader.BoxRead Reader.Level Reader.ReadSpec
  Plotfile.TextHeader Plotfile.HeaderSpec Taste.Taste Plotfile.Abstract
  Writers.Colander Writers.ColanderSpec Writers.ColanderSpecProofs Writers.ColanderProofs
  Writers.ColanderLevelProofs Writers.ColanderHeaderProofs Writers.ColanderToolProofs Writers.ColanderPipeline.

(* MAIN STATEMENT.  For every well-formed plotfile stored under the standard
   level directories (any number of levels, boxes and fields, 2D or 3D, any
   box -> file distribution and on-disk order), every variable list naming at
   least one existing field ('all', repeats, unknown names, any order) and
   every admissible level limit: the tool writes exactly the directory image of
   [colander_spec vars lim pf] - the kept levels only; in every box the kept
   components bit for bit in the requested order; the same file names, inside a
   file the boxes in box order; level headers with the new field count, byte
   offsets and the kept columns of the min/max tables; a global header naming
   the kept fields and levels.  Nothing else is in the output. *)
Theorem C05_tool : forall vars limit lim pf,
  wf_plotfile pf -> std_dirs pf -> wf_counts pf -> wf_rows pf ->
  eff_limit (g_max_level (pf_g pf)) limit = Some lim -> 0 <= lim ->
  fst (resolve_vars (field_keys (g_names (pf_g pf)) []) vars) <> [] ->
  colander vars limit (pf_disk pf) = Some (pf_disk (colander_spec vars lim pf)).
Proof. exact colander_refines. Qed.

(* The strained plotfile is again a well-formed plotfile under the standard
   directories (hence accepted by the validator: C03, and a valid input: C14). *)
Theorem C05_output_wellformed : forall pf vars lim,
  good pf -> 0 <= lim <= g_max_level (pf_g pf) -> good (colander_spec vars lim pf).
Proof. exact spec_good. Qed.

(* One level, any layout: the per-file tasks and the scattering of their
   results back to box order produce the binary files of the strained level
   and its offsets table, and that layout is well-formed. *)
Theorem C05_level_any_layout : forall lv kept nvars c,
  wf_level lv = true ->
  Forall (fun fb => fab_nc fb = nvars) (lv_fabs lv) -> Forall (fun i => 0 <= i < nvars) kept ->
  c_indexes c = map (fun fb => (fab_lo fb, fab_hi fb)) (lv_fabs lv) ->
  c_files c = map fst (cells_or_nil lv) -> c_offsets c = map snd (cells_or_nil lv) ->
  strain_level (lv_disk lv) c nvars kept
  = Some (lv_disk (strained_lv lv kept), map snd (cells_or_nil (strained_lv lv kept)))
  /\ wf_level (strained_lv lv kept) = true.
Proof.
  intros lv kept nvars c H1 H2 H3 H4 H5 H6. split.
  - apply (strain_level_spec lv H1 kept nvars H2 H3 c H4 H5 H6).
  - apply (wf_strained lv H1 kept nvars H2 H3).
Qed.

(* The level header: field count, offsets and table columns replaced,
   everything else copied. *)
Theorem C05_level_header : forall nf c kept offs,
  wf_cellh true c -> c_indexes c <> [] ->
  Forall (fun r => blen r = nf) (c_mins c) -> Forall (fun r => blen r = nf) (c_maxs c) ->
  kept <> [] -> Forall (fun i => 0 <= i < nf) kept ->
  length offs = length (c_indexes c) ->
  update_cell_header (print_cellh nf c) kept offs = Some (print_cellh (blen kept) (strained_cellh c kept offs)).
Proof. exact update_cell_header_print. Qed.

(* Variable resolution: every kept index names an input field, there is one
   output name per kept index ('all', unknown names, repeats and any order
   included). *)
Theorem C05_resolve_vars : forall keys vars kept names,
  resolve_vars keys vars = (kept, names) ->
  length kept = length names /\ Forall (fun i => 0 <= i < blen keys) kept.
Proof. exact resolve_vars_range. Qed.
Print Assumptions C05_resolve_vars.

(* The worker, on the image of ANY list of well-formed FABs (any box shapes,
   2D or 3D, any number of boxes), handed ANY sub-list of its boxes in ANY
   order with their true offsets: the output file is exactly the image of
   those boxes restricted to the kept components in the requested order, and
   the returned offsets are where each of them starts in the output. *)
Theorem C05_worker_any_layout : forall (fs : list fab) (nvars : Z) (kept : list Z) (sel : list nat) (out0 : bytes),
  Forall (fun fb => fab_ok fb = true /\ fab_nc fb = nvars) fs ->
  Forall (fun i => 0 <= i < nvars) kept ->
  Forall (fun k => (k < length fs)%nat) sel ->
  let picked := map (fun k => nth k fs dummy_fab) sel in
  strain_boxes (encode_file fs) nvars kept (map (box_of fs) sel) out0
  = Some (out0 ++ encode_file (map (keep_fab kept) picked),
          map (fun j => blen out0 + fab_offset (map (keep_fab kept) picked) j) (seq 0 (length sel))).
Proof. exact strain_boxes_spec. Qed.
Print Assumptions C05_worker_any_layout.

(* Component j of an output box is bit for bit component kept[j] of the input
   box with the same index range. *)
Theorem C05_kept_fields_bit_identical : forall kept fb j,
  fab_ok fb = true -> Forall (fun i => 0 <= i < fab_nc fb) kept -> (j < length kept)%nat ->
  fab_lo (keep_fab kept fb) = fab_lo fb /\ fab_hi (keep_fab kept fb) = fab_hi fb /\
  fab_comp (keep_fab kept fb) (Z.of_nat j) = fab_comp fb (nth j kept 0).
Proof. intros; repeat split; apply keep_fab_comp; assumption. Qed.
Print Assumptions C05_kept_fields_bit_identical.

(* An output box is a well-formed FAB with one component per kept field (so
   the validator theorems of C03 apply to files made of them). *)
Theorem C05_strained_box_wf : forall kept fb, fab_ok fb = true ->
  Forall (fun i => 0 <= i < fab_nc fb) kept ->
  fab_ok (keep_fab kept fb) = true /\ fab_nc (keep_fab kept fb) = blen kept.
Proof. intros kept fb H1 H2. split; [apply keep_fab_ok; assumption | reflexivity]. Qed.
Print Assumptions C05_strained_box_wf.

(* The textual header rewrite of the worker changes the component count and
   nothing else, whatever digits the index ranges contain. *)
Theorem C05_header_rewrite : forall lo hi nvars nkept,
  py_replace (str_of_Z nvars ++ [nl]) (str_of_Z nkept ++ [nl]) (print_hdr lo hi nvars)
  = print_hdr lo hi nkept.
Proof. exact replace_count_in_header. Qed.
Print Assumptions C05_header_rewrite.

(* non-vacuity: two 2x1 boxes with 3 components stored in the order (1, 0),
   strained to components [2; 0] in box order *)
Example C05_worker_example :
  let w (x : Z) := [ascii_of_nat (Z.to_nat x); "000"; "000"; "000"; "000"; "000"; "000"; "000"]%char in
  let fb0 := {| fab_lo := [0; 0]; fab_hi := [1; 0]; fab_nc := 3;
                fab_data := w 1 ++ w 2 ++ w 3 ++ w 4 ++ w 5 ++ w 6 |} in
  let fb1 := {| fab_lo := [2; 0]; fab_hi := [3; 0]; fab_nc := 3;
                fab_data := w 11 ++ w 12 ++ w 13 ++ w 14 ++ w 15 ++ w 16 |} in
  let fs := [fb1; fb0] in
  strain_boxes (encode_file fs) 3 [2; 0] (map (box_of fs) [1%nat; 0%nat]) []
  = Some (encode_file [keep_fab [2; 0] fb0; keep_fab [2; 0] fb1],
          [0; fab_size (keep_fab [2; 0] fb0)]).
Proof. vm_compute. reflexivity. Qed.

(* non-vacuity of the tool theorem: a two-level plotfile whose level 1 stores
   its two boxes in one file in the order (1, 0) is good; the tool model run on
   its image gives the image of the specification (recomputed here) *)
Definition ex_g : gheader :=
  {| g_version := [bs "HyperCLaw-V1.1"]; g_names := [bs "a"; bs "b"];
     g_ndims := 2; g_time := bs "0.5"; g_max_level := 1;
     g_geo_low := [bs "0.0"; bs "0.0"]; g_geo_high := [bs "2.0"; bs "1.0"];
     g_factors := [2]; g_grid_hi := [[1; 0]; [3; 1]]; g_steps := [7; 7];
     g_dx := [[bs "1.0"; bs "1.0"]; [bs "0.5"; bs "0.5"]]; g_sys_coord := [bs "0"] |}.
Definition ex_bytes (n : nat) (c : ascii) : bytes := repeat c n.
Definition ex_l0 : plevel :=
  {| pl_boxes := {| lb_ncells := 1; lb_step_line := [bs "7"];
                    lb_boxes := [[(bs "0.0", bs "2.0"); (bs "0.0", bs "1.0")]];
                    lb_cell_dir := bs "Level_0"; lb_time_tok := bs "0.5" |};
     pl_level := {| lv_fabs := [ {| fab_lo := [0; 0]; fab_hi := [1; 0]; fab_nc := 2;
                                    fab_data := ex_bytes 16 "a"%char ++ ex_bytes 16 "b"%char |} ];
                    lv_files := [ (bs "Cell_D_00000", [0%nat]) ] |};
     pl_mins := [[bs "1.0"; bs "2.0"]]; pl_maxs := [[bs "3.0"; bs "4.0"]] |}.
Definition ex_l1 : plevel :=
  {| pl_boxes := {| lb_ncells := 2; lb_step_line := [bs "7"];
                    lb_boxes := [[(bs "0.0", bs "1.0"); (bs "0.0", bs "1.0")];
                                 [(bs "1.0", bs "2.0"); (bs "0.0", bs "1.0")]];
                    lb_cell_dir := bs "Level_1"; lb_time_tok := bs "0.5" |};
     pl_level := {| lv_fabs := [ {| fab_lo := [0; 0]; fab_hi := [1; 1]; fab_nc := 2;
                                    fab_data := ex_bytes 32 "c"%char ++ ex_bytes 32 "d"%char |};
                                 {| fab_lo := [2; 0]; fab_hi := [3; 1]; fab_nc := 2;
                                    fab_data := ex_bytes 32 "e"%char ++ ex_bytes 32 "f"%char |} ];
                    lv_files := [ (bs "Cell_D_00000", [1%nat; 0%nat]) ] |};
     pl_mins := [[bs "1.0"; bs "2.0"]; [bs "5.0"; bs "6.0"]];
     pl_maxs := [[bs "3.0"; bs "4.0"]; [bs "7.0"; bs "8.0"]] |}.
Definition ex_pf : plotfile := {| pf_g := ex_g; pf_levels := [ex_l0; ex_l1] |}.

Example C05_ex_good : good ex_pf.
Proof.
  unfold good, wf_plotfile, std_dirs, wf_counts, wf_rows, wf_gheader. cbn.
  repeat split; try reflexivity; try lia;
    repeat (first [ constructor | reflexivity | discriminate | lia | (intros [H|H]; [discriminate | try destruct H]) | split ]).
  - intros [].
  - intros [|[|[|k]]] pl H; cbn [nth_error] in H; try discriminate; injection H as <-; reflexivity.
Qed.

Example C05_ex_tool : colander [bs "b"; bs "zz"; bs "a"] None (pf_disk ex_pf)
  = Some (pf_disk (colander_spec [bs "b"; bs "zz"; bs "a"] 1 ex_pf)).
Proof. vm_compute. reflexivity. Qed.

Print Assumptions C05_tool.
Print Assumptions C05_output_wellformed.
Print Assumptions C05_level_any_layout.
Print Assumptions C05_level_header.
