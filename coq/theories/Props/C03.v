(* C03 - taste accepts every well-formed plotfile under every option
   combination.  Statements only. *)
From AK Require Import Base.Prelude Bytes.Text Bytes.FabHeader Bytes.BinFile Bytes.Word Bytes.WordProofs
  Reader.Select Reader.BoxRead Reader.Level Reader.ReadSpec
  Plotfile.TextHeader Plotfile.HeaderSpec Taste.Taste Taste.TasteSpec Plotfile.Abstract
  Taste.CompleteProofs Taste.DataProofs.

(* Full statement, all 16 option sets: every well-formed plotfile - any number
   of levels and boxes, any box->file distribution and on-disk order - is
   accepted for every admissible level limit.  The verdict is the same function
   in failing and non-failing mode (good = no raise / evaluates true); the
   box-coordinate flag is not part of the modelled verdict (checked by the
   correspondence).

   [close tok w] is np.isclose(float(tok), w), an oracle of the model (Python's
   float parsing and arithmetic).  The six option sets that reach the
   binary-data check (binary_data with binary_headers or binary_shape off)
   compare the level header's per-box minima / maxima with the stored data, so
   for them "well-formed" includes: on the validated levels every table entry
   is close to the extremum of the non-NaN values of the component it
   describes ([pl_minmax_close], the model's own per-box boolean; see
   [C03_tables_close_suffices]).  The other ten need nothing of the tables. *)
Theorem C03_complete : forall close (pf : plotfile) (o : topts) (limit : option Z) (lim : Z),
  wf_plotfile pf ->
  eff_limit (g_max_level (pf_g pf)) limit = Some lim -> 0 <= lim ->
  ((t_data o && negb (t_headers o && t_shape o)) = true ->
   Forall (pl_minmax_close close (pf_nfields pf)) (firstn (Z.to_nat (lim + 1)) (pf_levels pf))) ->
  taste_good close o limit (pf_disk pf) = true.
Proof. exact taste_complete. Qed.

Theorem C03_complete_without_data_check : forall close (pf : plotfile) (o : topts) (limit : option Z) (lim : Z),
  wf_plotfile pf ->
  eff_limit (g_max_level (pf_g pf)) limit = Some lim -> 0 <= lim ->
  (t_data o && negb (t_headers o && t_shape o)) = false ->
  taste_good close o limit (pf_disk pf) = true.
Proof. exact taste_complete_nodata. Qed.

(* The table hypothesis holds as soon as each entry is close to np.nanmin /
   np.nanmax of its component and no component is entirely NaN. *)
Theorem C03_tables_close_suffices : forall close nf fb mins maxs,
  (forall k, (k < Z.to_nat nf)%nat ->
     Z.of_nat k < fab_nc fb /\
     exists tmin tmax wmin wmax,
       nth_error mins k = Some tmin /\ nth_error maxs k = Some tmax /\
       nan_min (fab_comp fb (Z.of_nat k)) = Some wmin /\ nan_max (fab_comp fb (Z.of_nat k)) = Some wmax /\
       close tmin wmin = true /\ close tmax wmax = true) ->
  fab_data_ok close nf (fab_rec fb) mins maxs = true.
Proof. exact fab_data_ok_intro. Qed.

(* np.nanmin / np.nanmax in the model: an extremum of the non-NaN values. *)
Theorem C03_nanmin : forall c w, nan_min c = Some w ->
  In w (words_of c) /\ is_nan w = false /\
  forall x, In x (words_of c) -> is_nan x = false -> word_leb w x = true.
Proof. exact nan_min_spec. Qed.

(* The data scan reads every FAB of a binary file, in file order, and stops. *)
Theorem C03_data_scan : forall (fs : list fab) fuel pre,
  Forall (fun fb => fab_ok fb = true) fs -> (length fs < fuel)%nat ->
  scan_data fuel (pre ++ encode_file fs) (blen pre) = map fab_rec fs.
Proof. exact scan_data_spec. Qed.

(* The rows of a file sorted by recorded offset are its boxes in on-disk order
   (so row idx of the sorted tables describes the idx-th FAB read). *)
Theorem C03_rows_in_disk_order : forall pl name ids,
  wf_level (pl_level pl) = true -> In (name, ids) (lv_files (pl_level pl)) ->
  file_ids (pl_cellh pl) name = ids.
Proof. exact file_ids_sorted. Qed.

Theorem C03_sorted_by_offset_is_disk_order : forall l l',
  Permutation.Permutation l l' -> Sorted.StronglySorted off_lt l' -> sort_by_off l = l'.
Proof. exact sort_by_off_unique. Qed.

(* The pinned code (before the fix: commit of KNOWN_FINDINGS.txt) rejected EVERY
   directory under the six option sets reaching the data check. *)
Theorem C03_binary_data_refuted_on_pinned_code : forall close o limit d,
  (t_data o && negb (t_headers o && t_shape o)) = true -> taste_good_pinned close o limit d = false.
Proof. exact taste_binary_data_branch_pinned. Qed.

(* non-vacuity of the data check: one 2x1 box with two components, rows naming
   the extrema; accepted with a table relating each token to its word, rejected
   when the table does not hold the maximum of the second component *)
Example C03_data_check_example :
  let w (x : Z) := [ascii_of_nat (Z.to_nat x); "000"; "000"; "000"; "000"; "000"; "000"; "000"]%char in
  let fb := {| fab_lo := [0; 0]; fab_hi := [1; 0]; fab_nc := 2; fab_data := w 3 ++ w 1 ++ w 7 ++ w 9 |} in
  let tbl := [(bs "a", w 1); (bs "b", w 3); (bs "c", w 7); (bs "d", w 9)] in
  let close := fun t x => existsb (fun p => bytes_eqb (fst p) t && bytes_eqb (snd p) x) tbl in
  fab_data_ok close 2 (fab_rec fb) [bs "a"; bs "c"] [bs "b"; bs "d"] = true /\
  fab_data_ok close 2 (fab_rec fb) [bs "a"; bs "c"] [bs "b"; bs "c"] = false /\
  scan_data 100 (encode_file [fb; fb]) 0 = [fab_rec fb; fab_rec fb].
Proof. vm_compute. repeat split. Qed.

Print Assumptions C03_complete.
Print Assumptions C03_complete_without_data_check.
Print Assumptions C03_tables_close_suffices.
Print Assumptions C03_nanmin.
Print Assumptions C03_data_scan.
Print Assumptions C03_rows_in_disk_order.
Print Assumptions C03_sorted_by_offset_is_disk_order.
Print Assumptions C03_binary_data_refuted_on_pinned_code.
