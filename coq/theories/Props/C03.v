(* C03 - taste accepts every well-formed plotfile under every option
   combination.  Statements only. *)
From AK Require Import Base.Prelude Bytes.Text Bytes.FabHeader Bytes.BinFile
  Reader.Select Reader.BoxRead Reader.Level Reader.ReadSpec
  Plotfile.TextHeader Plotfile.HeaderSpec Taste.Taste Taste.TasteSpec Plotfile.Abstract
  Taste.CompleteProofs.

(* Full statement (all 16 option sets):
     forall pf o limit lim, wf_plotfile pf -> eff_limit .. limit = Some lim -> 0 <= lim ->
       taste_good o limit (pf_disk pf) = true.
   It is FALSE of the pinned code: see C03_binary_data_refuted.  What holds: *)

(* Completeness on the option sets that do not reach the binary-data branch
   (10 of the 16 sets; the box-coordinate flag is not part of the modelled
   verdict): every well-formed plotfile - any number of levels, boxes, any
   box->file distribution and on-disk order - is accepted, for every
   admissible level limit.  The verdict is the same function in failing and
   non-failing mode (good = no raise / evaluates true). *)
Theorem C03_complete_partial : forall (pf : plotfile) (o : topts) (limit : option Z) (lim : Z),
  wf_plotfile pf ->
  eff_limit (g_max_level (pf_g pf)) limit = Some lim -> 0 <= lim ->
  (t_data o && negb (t_headers o && t_shape o)) = false ->
  taste_good o limit (pf_disk pf) = true.
Proof. exact taste_complete. Qed.
Print Assumptions C03_complete_partial.

(* The six remaining option sets reject EVERY directory, hence every
   well-formed plotfile: the known finding of KNOWN_FINDINGS.txt
   (key binary-data-branch).  Replayed on the implementation on every run. *)
Theorem C03_binary_data_refuted : forall o limit d,
  (t_data o && negb (t_headers o && t_shape o)) = true -> taste_good o limit d = false.
Proof. exact taste_binary_data_branch. Qed.
Print Assumptions C03_binary_data_refuted.

(* The binary-shape walk accepts the image of any list of well-formed FABs
   (the induction the completeness proof rests on). *)
Theorem C03_sorted_by_offset_is_disk_order : forall l l',
  Permutation.Permutation l l' -> Sorted.StronglySorted off_lt l' -> sort_by_off l = l'.
Proof. exact sort_by_off_unique. Qed.
Print Assumptions C03_sorted_by_offset_is_disk_order.
