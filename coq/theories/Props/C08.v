(* C08 - mandoline 2D flattening equals the finest-level covering grid
   exactly.  Statements only.

   Model: Mandoline.Plate.plate (plate_box reads through seek / readline /
   relative seek / fromfile on the level's binary files, Fortran reshape,
   utils.expand_array, level-ordered slice assignment, final transpose in
   [render]).  [plate_covering] is about the directory image [lv_disk] of
   well-formed levels: any number of levels, boxes, any box -> file layout. *)
From AK Require Import Base.Prelude Bytes.Text Bytes.FabHeader Bytes.BinFile
  Reader.Select Reader.BoxRead Reader.Level Reader.ReadSpec
  Array.Paint Mandoline.Plate Mandoline.PlateProofs.

(* utils.expand_array replicates every coarse cell factor x factor times and
   alters no value: out[i][j] = arr[i // f][j // f]. *)
Theorem C08_expand : forall (arr : list (list word)) (n1 f i j : nat),
  (0 < f)%nat -> Forall (fun r => length r = n1) arr ->
  nth j (nth i (expand_array arr f) []) [] = nth (j / f) (nth (i / f) arr []) [].
Proof. exact (expand_spec []). Qed.
Print Assumptions C08_expand.

(* plate_box's read of field [fidx] of a box stored anywhere in a binary file
   returns exactly the stored component. *)
Theorem C08_box_read : forall pre fb post fidx,
  fab_ok fb = true -> 0 <= fidx < fab_nc fb ->
  plate_read (pre ++ encode_fab fb ++ post) (blen pre) (fab_shape fb) fidx = Some (fab_comp fb fidx).
Proof. exact plate_read_spec. Qed.
Print Assumptions C08_box_read.

(* Main statement.  For every list of well-formed 2D levels (every layout),
   every limit L, every list of field indices: the pixel (x, y) of the k-th
   returned canvas holds the stored word of field fidxs[k] of the cell that
   contains the pixel in the finest selected level having a box over it
   (coarse cells replicated unchanged), and 'grid_level' holds that level. *)
Theorem C08_covering : forall lvls L fidxs nf cs gl,
  Forall (level_ok nf) lvls -> Forall (fun i => 0 <= i < nf) fidxs ->
  plate lvls L fidxs = Some (cs, gl) ->
  forall x y lv lvl fb,
    (lv <= L)%nat -> nth_error lvls lv = Some lvl -> In fb (lv_fabs lvl) ->
    let f := fun j => Z.of_nat (nat_pow2 (L - j)) in
    cell_in (fab_lo fb) (fab_hi fb) (coarsen (f lv) [x; y]) = true ->
    (forall fb', In fb' (lv_fabs lvl) -> cell_in (fab_lo fb') (fab_hi fb') (coarsen (f lv) [x; y]) = true -> fb' = fb) ->
    (forall j lvl' fb', (lv < j <= L)%nat -> nth_error lvls j = Some lvl' -> In fb' (lv_fabs lvl') ->
                        cell_in (fab_lo fb') (fab_hi fb') (coarsen (f j) [x; y]) = false) ->
    gl [x; y] = Some (Z.of_nat lv) /\
    forall k, (k < length fidxs)%nat ->
      nth k cs blank [x; y]
      = Some (cell_word fb (nth k fidxs 0) (x / f lv - hd 0 (fab_lo fb)) (y / f lv - hd 0 (tl (fab_lo fb)))).
Proof. exact plate_covering. Qed.
Print Assumptions C08_covering.

(* The flattening never fails on well-formed levels (for any layout). *)
Theorem C08_succeeds : forall lvls L fidxs nf,
  Forall (level_ok nf) lvls -> Forall (fun i => 0 <= i < nf) fidxs ->
  exists cs gl, plate lvls L fidxs = Some (cs, gl) /\ length cs = length fidxs.
Proof.
  intros lvls L fidxs nf H1 H2. rewrite (plate_spec lvls L fidxs nf H1 H2).
  eexists. eexists. split; [reflexivity|]. rewrite map_length, seq_length. reflexivity.
Qed.
Print Assumptions C08_succeeds.

(* No pixel over which some selected level has a box keeps the uninitialised
   value, and the reported grid level is a level that has a box there. *)
Theorem C08_total : forall lvls L fidxs nf cs gl,
  Forall (level_ok nf) lvls -> Forall (fun i => 0 <= i < nf) fidxs ->
  Forall level_disjoint lvls ->
  plate lvls L fidxs = Some (cs, gl) ->
  forall x y,
    (exists j, (j <= L)%nat /\ level_covers lvls L [x; y] j = true) ->
    (exists lv, gl [x; y] = Some (Z.of_nat lv) /\ (lv <= L)%nat /\ level_covers lvls L [x; y] lv = true) /\
    forall k, (k < length fidxs)%nat -> nth k cs blank [x; y] <> None.
Proof. exact plate_total. Qed.
Print Assumptions C08_total.

(* Within a level the order in which box results are painted is irrelevant
   (boxes of a level are disjoint): serial = parallel, any pool order. *)
Theorem C08_order_free : forall (pts pts' : list (@patch word)) c p,
  (forall pt, In pt pts <-> In pt pts') ->
  (forall a b, In a pts -> In b pts -> covers a p = true -> covers b p = true -> p_val a p = p_val b p) ->
  paint_all pts c p = paint_all pts' c p.
Proof. exact paint_all_order_free. Qed.
Print Assumptions C08_order_free.

(* non-vacuity: two levels, the fine box stored in a file behind another box;
   the rendered 4x4 grid of field 1 *)
Example C08_example :
  let w (x : Z) := [ascii_of_nat (Z.to_nat x); "000"; "000"; "000"; "000"; "000"; "000"; "000"]%char in
  let ws l := concat (map w l) in
  let c0 := {| fab_lo := [0; 0]; fab_hi := [1; 1]; fab_nc := 2; fab_data := ws [1;2;3;4; 11;12;13;14] |} in
  let f0 := {| fab_lo := [2; 0]; fab_hi := [3; 1]; fab_nc := 2; fab_data := ws [5;6;7;8; 15;16;17;18] |} in
  let f1 := {| fab_lo := [0; 2]; fab_hi := [1; 3]; fab_nc := 2; fab_data := ws [21;22;23;24; 31;32;33;34] |} in
  let l0 := {| lv_fabs := [c0]; lv_files := [(bs "Cell_D_00000", [0%nat])] |} in
  let l1 := {| lv_fabs := [f0; f1]; lv_files := [(bs "Cell_D_00001", [1%nat; 0%nat])] |} in
  match plate [l0; l1] 1 [1] with
  | Some ([c], g) =>
      render c 4 4 = Some (map w [11;11;15;16; 11;11;17;18; 31;32;14;14; 33;34;14;14]) /\
      render g 4 4 = Some [0;0;1;1; 0;0;1;1; 1;1;0;0; 1;1;0;0]
  | _ => False
  end.
Proof. vm_compute. split; reflexivity. Qed.
