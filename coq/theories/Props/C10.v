(* C10 - whip's uniform grid is the covering grid of the chosen field.
   Statements only.

   Model: Whip.Whip.whip - per level, one sequential scan per binary file
   (readfieldfrombinfile), results consumed in an arbitrary completion order
   (the [orders] argument = the schedule of imap_unordered), each box
   expanded by expand_array3d and assigned to its slice of a zero grid;
   levels strictly in order.  The dtype conversion is an abstract cast
   applied to the float64 words (numpy's astype in the correspondence). *)
From AK Require Import Base.Prelude Bytes.Text Bytes.FabHeader Bytes.BinFile
  Reader.Select Reader.BoxRead Reader.Level Reader.ReadSpec
  Array.Paint Array.Amr Mandoline.Plate Mandoline.PlateProofs Whip.Whip Whip.WhipProofs.

(* The sequential scan of a binary file returns every box of the file, in
   file order, with exactly the stored component, and stops at end of file. *)
Theorem C10_scan_file : forall (fs : list fab) (nfields fidx : Z),
  Forall (fun fb => fab_ok fb = true /\ fab3d fb /\ fab_nc fb = nfields) fs ->
  0 <= fidx < nfields ->
  readfieldfrombinfile (encode_file fs) nfields fidx = map (tr fidx) fs.
Proof. exact readfield_spec. Qed.
Print Assumptions C10_scan_file.

(* expand_array3d replicates every coarse cell and alters no value. *)
Theorem C10_expand3 : forall (arr : list (list (list word))) (f i j k : nat),
  (0 < f)%nat ->
  nth k (nth j (nth i (expand_array3d arr f) []) []) []
  = nth (k / f) (nth (j / f) (nth (i / f) arr []) []) [].
Proof. exact (expand3_spec []). Qed.
Print Assumptions C10_expand3.

(* Main statement: cell (x, y, z) of the grid (axes x, y, z) holds the stored
   value of the field in the finest selected level with a box over the cell -
   for every list of well-formed 3D levels, every layout, every limit and
   every complete delivery order of the per-file tasks. *)
Theorem C10_covering : forall lvls L nf fidx orders c,
  Forall (level_ok3 nf) lvls -> 0 <= fidx < nf ->
  orders_complete (firstn (S L) lvls) orders ->
  whip lvls L nf fidx orders = Some c ->
  forall x y z lv lvl fb,
    (lv <= L)%nat -> nth_error lvls lv = Some lvl -> In fb (lv_fabs lvl) ->
    cell_in (fab_lo fb) (fab_hi fb) (coarsen (fac L lv) [x; y; z]) = true ->
    (forall fb', In fb' (lv_fabs lvl) -> cell_in (fab_lo fb') (fab_hi fb') (coarsen (fac L lv) [x; y; z]) = true -> fb' = fb) ->
    (forall j lvl' fb', (lv < j <= L)%nat -> nth_error lvls j = Some lvl' -> In fb' (lv_fabs lvl') ->
                        cell_in (fab_lo fb') (fab_hi fb') (coarsen (fac L j) [x; y; z]) = false) ->
    c [x; y; z] = Some (cell_word3 fb fidx (x / fac L lv - nth 0 (fab_lo fb) 0)
                                           (y / fac L lv - nth 1 (fab_lo fb) 0)
                                           (z / fac L lv - nth 2 (fab_lo fb) 0)).
Proof. exact whip_covering. Qed.
Print Assumptions C10_covering.

(* The grid does not depend on the order in which binary files are read or
   complete: every two schedules that deliver each file's result (at least)
   once produce the same array, cell for cell. *)
Theorem C10_order_free : forall lvls L nf fidx orders orders' c c',
  Forall (level_ok3 nf) lvls -> 0 <= fidx < nf ->
  Forall level_disjoint lvls ->
  orders_complete (firstn (S L) lvls) orders ->
  orders_complete (firstn (S L) lvls) orders' ->
  whip lvls L nf fidx orders = Some c ->
  whip lvls L nf fidx orders' = Some c' ->
  forall p, c p = c' p.
Proof. exact whip_order_free. Qed.
Print Assumptions C10_order_free.

(* The level limit: only levels 0..L are scanned and painted (the model's
   [firstn (S L)]); with L = 0 the grid is the level-0 data. *)
Theorem C10_limit_patches : forall lvls L nf fidx orders,
  Forall (level_ok3 nf) lvls -> 0 <= fidx < nf ->
  orders_complete (firstn (S L) lvls) orders ->
  exists pts,
    whip lvls L nf fidx orders = Some (paint_levels pts blank) /\
    patches_of (wpatch L fidx) (map lv_fabs (firstn (S L) lvls)) pts.
Proof.
  intros lvls L nf fidx orders H1 H2 H3.
  destruct (whip_patches lvls L nf fidx orders H1 H2 H3) as (pts & Hp & Hpo).
  exists pts. split; [apply whip_unfold; exact Hp | exact Hpo].
Qed.
Print Assumptions C10_limit_patches.

(* non-vacuity: two levels; level 1 has two boxes in two files; both
   completion orders give the same 4x2x2 grid of field 1 *)
Example C10_example :
  let w (x : Z) := [ascii_of_nat (Z.to_nat x); "000"; "000"; "000"; "000"; "000"; "000"; "000"]%char in
  let ws l := concat (map w l) in
  let c0 := {| fab_lo := [0;0;0]; fab_hi := [1;0;0]; fab_nc := 2; fab_data := ws [1;2; 11;12] |} in
  let f0 := {| fab_lo := [0;0;0]; fab_hi := [1;1;1]; fab_nc := 2; fab_data := ws [1;2;3;4;5;6;7;8; 21;22;23;24;25;26;27;28] |} in
  let l0 := {| lv_fabs := [c0]; lv_files := [(bs "Cell_D_00000", [0%nat])] |} in
  let l1 := {| lv_fabs := [f0]; lv_files := [(bs "Cell_D_00003", [0%nat])] |} in
  match whip [l0; l1] 1 2 1 [[0%nat]; [0%nat]] with
  | Some c => render3 c 4 2 2 = map w [21;25;23;27; 22;26;24;28; 12;12;12;12; 12;12;12;12]
  | None => False
  end.
Proof. vm_compute. reflexivity. Qed.
