(* C18 - header-only tools report what the full reader holds.  Statements only.

   Model: Menu.Menu (minuterie's header skip; menu's extrema over the per-box
   min/max tables, two-column table layout, field classification with the
   regular expressions as a parameter, species list, row chunking).  The
   printed text (three significant digits, padding) and marinate's pickle are
   Python's: checked by the correspondence, not modelled. *)
From AK Require Import Base.Prelude Bytes.Text Bytes.FabHeader Plotfile.TextHeader
  Writers.Chef Menu.Menu Menu.MenuProofs.

(* minuterie prints the time of the header, whatever the number of fields. *)
Theorem C18_time : forall g lvs, float_ok (g_time g) = true ->
  minuterie (print_header g lvs) = Some (g_time g).
Proof. exact minuterie_print. Qed.
Print Assumptions C18_time.

(* The value shown for a field is the extremum of its per-box table entries
   over all levels (or over the finest level when asked). *)
Theorem C18_minmax_values : forall (finest : bool) (per_level : list (list bytes)),
  let vals := if finest then last per_level [] else concat per_level in
  vals <> (@nil bytes) ->
  (In (field_min finest per_level) vals /\ forall x, In x vals -> word_leb (field_min finest per_level) x = true) /\
  (In (field_max finest per_level) vals /\ forall x, In x vals -> word_leb x (field_max finest per_level) = true).
Proof. intros finest per_level vals H. split; [apply field_min_spec | apply field_max_spec]; exact H. Qed.
Print Assumptions C18_minmax_values.

(* The two-column table shows every field in exactly one cell, for odd and
   even counts (an odd count is padded by one empty cell). *)
Theorem C18_rows : forall n k, (k < n)%nat ->
  count_occ Nat.eq_dec (map fst (table_rows n) ++ map snd (table_rows n)) k = 1%nat.
Proof. exact table_rows_every_field_once. Qed.
Print Assumptions C18_rows.

(* ... which the pinned layout did not: with 3 fields the last one was in no row. *)
Theorem C18_rows_odd_refuted_on_pinned_layout :
  ~ In 2%nat (map fst (table_rows_pinned 3) ++ map snd (table_rows_pinned 3)).
Proof. exact table_rows_pinned_refuted. Qed.
Print Assumptions C18_rows_odd_refuted_on_pinned_layout.

(* The field listing has no repeats and contains, for every header field, its
   class key or - for a field unknown to the database - its own name; and
   nothing else. *)
Theorem C18_listing : forall classify fields,
  NoDup (variables_finder classify fields []) /\
  (forall k, In k (variables_finder classify fields []) <-> exists f, In f fields /\ class_of classify f = k).
Proof.
  intros classify fields. destruct (vf_spec classify fields [] (NoDup_nil _)) as [H1 H2]. split; [exact H1|].
  intros k. rewrite H2. split; [intros [[]|H]; exact H | intros H; right; exact H].
Qed.
Print Assumptions C18_listing.

(* The species list holds every Y(...) field exactly once (stripped of its
   decoration), and printing names in rows of any width loses nothing. *)
Theorem C18_species : forall fields,
  (forall s, In s (species_finder fields) <-> exists f, In f fields /\ strip_Y f = Some s) /\
  length (species_finder fields) = length (filter (fun f => match strip_Y f with Some _ => true | None => false end) fields).
Proof. intros fields. split; [intros s; apply species_finder_spec | apply species_count]. Qed.
Print Assumptions C18_species.

Theorem C18_rows_of : forall (A : Type) (k : nat) (l : list A), (0 < k)%nat -> concat (rows_of k l) = l.
Proof. exact rows_of_concat. Qed.
Print Assumptions C18_rows_of.

Example C18_example :
  table_rows 5 = [(0, 3); (1, 4); (2, 5)]%nat /\ table_rows 4 = [(0, 2); (1, 3)]%nat /\
  species_finder [bs "temp"; bs "Y(H2)"; bs "Y(O2)"; bs "Y()"] = [bs "H2"; bs "O2"].
Proof. vm_compute. repeat split. Qed.
