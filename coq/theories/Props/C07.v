(* C07 - mandoline 3D slices interpolate the right samples at every pixel.
   Statements only.

   Model: Mandoline.Slice3D.slice3d = compute_mpinput_3d (with the half-cell
   margin of the fix: commit), blades.slice_box and the two canvases of
   reducemp_data_ortho including the domain-face rules, on the dx/8 lattice
   along the normal.  The floating-point interpolation of the two samples is
   evaluated by numpy on the model's samples in the correspondence (bit for
   bit with the returned arrays); its algebraic properties are proved over
   the rationals. *)
From AK Require Import Base.Prelude Bytes.FabHeader Bytes.BinFile Array.Paint Mandoline.Plate
  Mandoline.Slice3D Mandoline.Slice3DProofs.
From Coq Require Import QArith.

(* slice_box: the four position cases are exhaustive and the chosen cells are
   the last cell centre at or below the plane (left) and the first at or
   above it (right) - one cell apart, or the same cell when the plane is on a
   centre. *)
Theorem C07_slice_box_cases : forall L cn P lv b,
  let lo := nthZ (sb_lo b) cn in let hi := nthZ (sb_hi b) cn in
  (lo <= hi)%Z ->
  match slice_idx L cn P lv b with
  | (Some i, None) => (i = hi - lo /\ centre L lv hi < P)%Z
  | (None, Some j) => (j = 0 /\ P < centre L lv lo)%Z
  | (Some i, Some j) =>
      (0 <= i <= hi - lo /\ 0 <= j <= hi - lo /\
       centre L lv (lo + i) <= P <= centre L lv (lo + j) /\
       ((i = j /\ centre L lv (lo + i) = P) \/ (j = i + 1 /\ centre L lv (lo + i) < P < centre L lv (lo + j))))%Z
  | (None, None) => False
  end.
Proof. exact slice_idx_spec. Qed.
Print Assumptions C07_slice_box_cases.

(* Each side of the bracket, at every pixel, is what the FINEST selected level
   painting that side there painted (levels are reduced in order, finer data
   overwrite coarser): side = true for the left canvas, false for the right. *)
Theorem C07_side_finest : forall L cn cx cy P dom_lo dom_hi (side : bool) lvls ncomp p lv bs v,
  (lv <= L)%nat -> nth_error lvls lv = Some bs ->
  (exists pt, In pt (pick2 side (level_paints L cn cx cy P dom_lo dom_hi ncomp (lv, bs))) /\ covers pt p = true) ->
  (forall pt, In pt (pick2 side (level_paints L cn cx cy P dom_lo dom_hi ncomp (lv, bs))) -> covers pt p = true -> p_val pt p = v) ->
  (forall j bs' pt, (lv < j <= L)%nat -> nth_error lvls j = Some bs' ->
                    In pt (pick2 side (level_paints L cn cx cy P dom_lo dom_hi ncomp (j, bs'))) -> covers pt p = false) ->
  pick2 side (slice3d L cn cx cy P dom_lo dom_hi lvls ncomp) p = Some v.
Proof. exact slice_side_finest. Qed.
Print Assumptions C07_side_finest.

(* What a level paints on the left: for each box within half a cell of the
   plane, the plane slice_box returned on the left - or its right plane when
   that is the first cell centre of the domain (the single nearest sample
   beyond the outermost centres).  Symmetrically on the right. *)
Theorem C07_left_patches : forall L cn cx cy P dom_lo dom_hi lv ncomp b pt,
  In pt (fst (box_paints L cn cx cy P dom_lo dom_hi lv ncomp b)) ->
  selected L cn P lv b = true /\
  exists i, pt = side_patch L cn cx cy lv b i ncomp /\
    (fst (slice_idx L cn P lv b) = Some i \/
     (snd (slice_idx L cn P lv b) = Some i /\ centre L lv (nthZ (sb_lo b) cn + i) = (dom_lo * 8 + 4 * fz L lv)%Z)).
Proof. exact box_paints_left. Qed.
Print Assumptions C07_left_patches.

Theorem C07_right_patches : forall L cn cx cy P dom_lo dom_hi lv ncomp b pt,
  In pt (snd (box_paints L cn cx cy P dom_lo dom_hi lv ncomp b)) ->
  selected L cn P lv b = true /\
  exists i, pt = side_patch L cn cx cy lv b i ncomp /\
    (snd (slice_idx L cn P lv b) = Some i \/
     (fst (slice_idx L cn P lv b) = Some i /\ centre L lv (nthZ (sb_lo b) cn + i) = (dom_hi * 8 - 4 * fz L lv)%Z)).
Proof. exact box_paints_right. Qed.
Print Assumptions C07_right_patches.

(* a box's patch covers exactly the pixels over its in-plane footprint *)
Theorem C07_footprint : forall L cn cx cy lv b i ncomp x y,
  covers (side_patch L cn cx cy lv b i ncomp) [x; y]
  = cell_in [nthZ (sb_lo b) cx; nthZ (sb_lo b) cy] [nthZ (sb_hi b) cx; nthZ (sb_hi b) cy]
            (coarsen (fz L lv) [x; y]).
Proof. exact side_patch_covers. Qed.
Print Assumptions C07_footprint.

(* Consequences for the interpolated value (exact arithmetic): a field affine
   along the normal is reproduced exactly by ANY two distinct bracketing
   samples (same level or mixed levels); a field constant along the normal is
   reproduced exactly; on a sample's own centre the sample is returned. *)
Theorem C07_affine_exact : forall a b ln rn p : Q, ~ rn - ln == 0 ->
  lerp (a * ln + b) (a * rn + b) ln rn p == a * p + b.
Proof. exact lerp_affine. Qed.
Print Assumptions C07_affine_exact.

Theorem C07_constant_normal : forall v ln rn p : Q, ~ rn - ln == 0 -> lerp v v ln rn p == v.
Proof. exact lerp_const. Qed.
Print Assumptions C07_constant_normal.

Theorem C07_on_sample : forall l r ln rn : Q, ~ rn - ln == 0 ->
  lerp l r ln rn ln == l /\ lerp l r ln rn rn == r.
Proof. intros l r ln rn H. split; [apply lerp_at_left | apply lerp_at_right]; exact H. Qed.
Print Assumptions C07_on_sample.

(* non-vacuity: a two-box level 0 (boxes meeting at z = 2) and a plane a
   quarter cell above the common face: the left sample comes from the box
   below (its last plane), the right one from the box above *)
Open Scope Z_scope.
Example C07_example :
  let w (x : Z) := [ascii_of_nat (Z.to_nat x); "000"; "000"; "000"; "000"; "000"; "000"; "000"]%char in
  let ws l := concat (map w l) in
  let b0 := {| sb_lo := [0;0;0]; sb_hi := [0;0;1]; sb_comps := [ws [10;11]] |} in
  let b1 := {| sb_lo := [0;0;2]; sb_hi := [0;0;3]; sb_comps := [ws [12;13]] |} in
  let r := slice3d 0 2 0 1 18 0 4 [[b0; b1]] 1 in
  (fst r [0;0], snd r [0;0]) = (Some ([w 11], 12, 0), Some ([w 12], 20, 0)).
Proof. vm_compute. reflexivity. Qed.
