(* C20 - whatever taste accepts, the reader can read completely and
   consistently.  Statements only. *)
From AK Require Import Base.Prelude Bytes.Text Bytes.FabHeader Bytes.BinFile
  Reader.Select Reader.BoxRead Reader.Level Plotfile.TextHeader
  Taste.Taste Taste.TasteSpec Taste.SoundProofs.

(* If the header line at the recorded offset names the level header's index
   range and field count and the file holds the announced payload after it,
   reading all fields returns exactly those bytes with the declared shape. *)
Theorem C20_box_readable : forall nf f (b : boxrec) h shp,
  0 <= nf -> 0 <= br_off b -> parse_hdr (readline f (br_off b)) = Some h ->
  h_lo h = br_lo b -> h_hi h = br_hi b -> h_nc h = nf -> hdr_shape h = Some shp ->
  Forall (fun d => 0 <= d) shp ->
  br_off b + blen (readline f (br_off b)) + 8 * zprod shp * nf <= blen f ->
  read_box f (br_off b) all_fields =
    Some {| a_shape := shp ++ [nf];
            a_data := sub (br_off b + blen (readline f (br_off b))) (8 * zprod shp * nf) f |}.
Proof. exact accepted_box_readable. Qed.
Print Assumptions C20_box_readable.

(* End to end on an ARBITRARY file the shape check accepts: there is a tiling
   of the file such that every box whose recorded offset is a tile start and
   whose header check passed reads back as exactly that tile's payload with
   the shape the level header declares.
   PROVISO (forced by the proof; evaluated by the harness on every accepted
   image): [br_off b = tile_off tiles k].  The validator never compares
   recorded offsets with the positions found by its sequential walk, so an
   offset pointing at header-shaped text elsewhere is outside this theorem. *)
Theorem C20_accepted_file_readable : forall nf ld c name f,
  lookup name (ld_files ld) = Some f -> file_boxes c name <> [] -> shape_ok_file nf ld c name = true ->
  0 <= nf -> Forall box_valid (tl (file_boxes c name)) -> payload_nonneg (readline f 0) ->
  exists tiles, length tiles = length (file_boxes c name) /\ f = concat (map tile_bytes tiles) /\
    forall k b, nth_error (file_boxes c name) k = Some b -> br_off b = tile_off tiles k ->
      header_ok nf ld b = true -> box_valid b ->
      read_box f (br_off b) all_fields =
        Some {| a_shape := box_shape (br_lo b) (br_hi b) ++ [nf]; a_data := snd (nth k tiles ([], [])) |}.
Proof. exact accepted_file_readable. Qed.
Print Assumptions C20_accepted_file_readable.

(* every box of a validated level belongs to a file the walk accepted *)
Theorem C20_every_box_covered : forall nf ld c b, check_shape nf ld c = true -> In b (cell_boxes c) ->
  In b (file_boxes c (br_file b)) /\ shape_ok_file nf ld c (br_file b) = true /\
  exists f, lookup (br_file b) (ld_files ld) = Some f.
Proof. exact check_shape_box. Qed.
Print Assumptions C20_every_box_covered.
