(* C19 - point queries at interior cell centres return the stored cell value.
   Statements only.

   Model: Point.PointQuery.point_query = the box matching, CASE decision,
   assertions and point-to-index conversion of LevelDataSelector.__call__, on
   the half-cell lattice measured from the domain origin (the origin term was
   missing in the pinned code: fix: commit in KNOWN_FINDINGS.txt).  The value
   returned is scipy's map_coordinates of the selected box at the local index;
   at an integral in-range index that is the node value (trusted, checked
   numerically by the correspondence). *)
From AK Require Import Base.Prelude Bytes.FabHeader Array.Paint Point.PointQuery Point.PointProofs.

(* At the centre of a cell c of box B (level lv), at least one cell away from
   B's faces, where no other box of the level and no box of a finer selected
   level comes within half a cell: CASE 1 is taken, all its assertions hold,
   the box read is B and the local index is the integral offset c - lo of the
   cell in B - for every level count, every limit L, any number of boxes. *)
Theorem C19_case1 : forall lvls L lv bs bid B l0 l1 l2 h0 h1 h2 c0 c1 c2,
  (lv <= L)%nat -> nth_error lvls lv = Some bs -> nth_error bs bid = Some B ->
  q_lo B = [l0; l1; l2] -> q_hi B = [h0; h1; h2] ->
  l0 + 1 <= c0 <= h0 - 1 -> l1 + 1 <= c1 <= h1 - 1 -> l2 + 1 <= c2 <= h2 - 1 ->
  let f := pow2 (L - lv) in
  let P := [(2 * c0 + 1) * f; (2 * c1 + 1) * f; (2 * c2 + 1) * f] in
  (forall i B', i <> bid -> nth_error bs i = Some B' -> within f (-1) (q_lo B') (q_hi B') P = false) ->
  (forall j bs' B', (lv < j <= L)%nat -> nth_error lvls j = Some bs' -> In B' bs' ->
                    within (pow2 (L - j)) (-1) (q_lo B') (q_hi B') P = false) ->
  point_query lvls L P = PCase1 lv bid [(c0 - l0) * (2 * f); (c1 - l1) * (2 * f); (c2 - l2) * (2 * f)] (2 * f).
Proof. exact point_case1. Qed.
Print Assumptions C19_case1.

(* The first side condition holds for every other box of the level, because
   boxes of one level never overlap. *)
Theorem C19_same_level : forall f l0 l1 l2 h0 h1 h2 c0 c1 c2 l0' l1' l2' h0' h1' h2',
  0 < f ->
  l0 + 1 <= c0 <= h0 - 1 -> l1 + 1 <= c1 <= h1 - 1 -> l2 + 1 <= c2 <= h2 - 1 ->
  (h0' < l0 \/ h0 < l0' \/ h1' < l1 \/ h1 < l1' \/ h2' < l2 \/ h2 < l2') ->
  within f (-1) [l0'; l1'; l2'] [h0'; h1'; h2'] [(2 * c0 + 1) * f; (2 * c1 + 1) * f; (2 * c2 + 1) * f] = false.
Proof. exact same_level_far. Qed.
Print Assumptions C19_same_level.

(* The second holds for every box of a finer level that does not contain the
   cell (c is in the finest level covering it), because finer boxes are made
   of whole coarse cells (even blocking factor). *)
Theorem C19_finer_level : forall fj g c0 c1 c2 l0' l1' l2' h0' h1' h2',
  0 < fj -> 2 <= g ->
  (g | l0') -> (g | l1') -> (g | l2') -> (g | h0' + 1) -> (g | h1' + 1) -> (g | h2' + 1) ->
  (h0' < c0 * g \/ c0 * g < l0' \/ h1' < c1 * g \/ c1 * g < l1' \/ h2' < c2 * g \/ c2 * g < l2') ->
  within fj (-1) [l0'; l1'; l2'] [h0'; h1'; h2']
         [(2 * c0 + 1) * (g * fj); (2 * c1 + 1) * (g * fj); (2 * c2 + 1) * (g * fj)] = false.
Proof. exact finer_far. Qed.
Print Assumptions C19_finer_level.

(* A point that lies in no box of any selected level (outside the domain) is
   refused: the query raises instead of answering. *)
Theorem C19_outside_refused : forall lvls L P,
  (forall j bs B, nth_error lvls j = Some bs -> (j <= L)%nat -> In B bs ->
                  within (pow2 (L - j)) 0 (q_lo B) (q_hi B) P = false) ->
  point_query lvls L P = PRaises.
Proof. exact point_outside. Qed.
Print Assumptions C19_outside_refused.

(* non-vacuity: two levels; the centre of fine cell (5,4,4) of the fine box *)
Example C19_example :
  let l0 := [{| q_lo := [0;0;0]; q_hi := [3;3;3] |}; {| q_lo := [4;0;0]; q_hi := [7;3;3] |}] in
  let l1 := [{| q_lo := [2;2;2]; q_hi := [7;7;7] |}] in
  point_query [l0; l1] 1 [11; 9; 9] = PCase1 1 0 [6; 4; 4] 2 /\
  point_query [l0; l1] 1 [2; 6; 2] = PCase1 0 0 [0; 4; 0] 4 /\
  point_query [l0; l1] 1 [-1; 3; 3] = PRaises.
Proof. vm_compute. repeat split. Qed.
