(* C14 - tool outputs are valid tool inputs: pipelines equal the composed pure
   operations.  Statements only.

   The per-tool models (Writers.Colander / Combine / Chef) map directory
   images to directory images, so they compose; the correspondence runs the
   composition of the extracted models against the real tool chain and
   compares the directory after EVERY hop byte for byte, next to an
   independent numpy composition of the pure operations and taste verdicts.
   Proved here: the induction that lifts per-operation preservation /
   refinement to every finite sequence and every intermediate state, and the
   two identities the property names, on box contents. *)
From AK Require Import Base.Prelude Bytes.Text Bytes.FabHeader Bytes.BinFile
  Reader.Select Reader.BoxRead Reader.Level Reader.ReadSpec
  Writers.Colander Writers.ColanderSpec Writers.CombineProofs Writers.Chef Writers.ChefProofs Writers.Pipeline
  Plotfile.TextHeader Plotfile.HeaderSpec Taste.Taste Plotfile.Abstract Writers.ColanderToolProofs Writers.ColanderPipeline Writers.Combine Writers.CombineSpec Writers.CombineToolProofs Writers.CombinePipeline Writers.ChefToolProofs Writers.ChefPipeline Writers.FullPipeline Writers.ReadBack Reader.GetItemProofs Props.C05 Props.C06 Props.C11
  Writers.ChkHeader Writers.Chk2pltTool Writers.Chk2pltToolProofs Writers.Chk2pltPipeline.

(* Any finite sequence of operations, each of which preserves well-formedness
   and refines its pure counterpart, ends in a well-formed state whose
   contents are those of the composed pure operations, and every intermediate
   state is well-formed (hence accepted by the validator, C03). *)
Theorem C14_pipeline : forall (D C Op : Type) (wf : D -> Prop) (abs : D -> C)
    (run1 : Op -> D -> option D) (pure1 : Op -> C -> option C),
  (forall o d d', wf d -> run1 o d = Some d' -> wf d') ->
  (forall o d d', wf d -> run1 o d = Some d' -> pure1 o (abs d) = Some (abs d')) ->
  forall ops d d', wf d -> run D Op run1 ops d = Some d' ->
    wf d' /\ pure C Op pure1 ops (abs d) = Some (abs d') /\ Forall wf (states D Op run1 ops d).
Proof. intros D C Op wf abs run1 pure1 H1 H2. exact (pipeline_refines D C Op wf abs run1 pure1 H1 H2). Qed.
Print Assumptions C14_pipeline.

(* Straining with all fields is the identity on every box. *)
Theorem C14_strain_all_identity : forall fb, fab_ok fb = true -> keep_fab (all_comps (fab_nc fb)) fb = fb.
Proof. exact strain_all_identity. Qed.
Print Assumptions C14_strain_all_identity.

(* Cooking new fields from a box and combining them back into the original
   gives the original components unchanged followed by the new ones. *)
Theorem C14_cook_combine : forall fb new,
  fab_ok fb = true -> Forall (fun c => blen c = 8 * fab_cells fb) new ->
  let ck := cooked [] new fb in
  merge_fab (all_comps (fab_nc fb)) (all_comps (fab_nc ck)) fb ck = cooked (all_comps (fab_nc fb)) new fb
  /\ fab_data (cooked (all_comps (fab_nc fb)) new fb) = fab_data fb ++ concat new.
Proof. exact cook_then_combine. Qed.
Print Assumptions C14_cook_combine.

(* The hypotheses of C14_pipeline discharged for colander: EVERY finite
   sequence of colander runs (variable lists, level limits) whose pure
   counterpart is defined - each run names an existing field and an admissible
   limit - succeeds on the directory image of a good plotfile, ends on the
   image of the composed pure operations, and every intermediate directory is
   the image of a good plotfile. *)
Theorem C14_colander_chain : forall ops pf pf',
  good pf -> spec_run ops pf = Some pf' ->
  run pdisk col_op tool_step ops (pf_disk pf) = Some (pf_disk pf') /\ good pf' /\
  Forall (fun d => exists p, good p /\ d = pf_disk p) (states pdisk col_op tool_step ops (pf_disk pf)).
Proof. exact colander_pipeline. Qed.

(* ... and the validator accepts each of them (option sets not reaching the
   binary-data check, any admissible limit): tool outputs are valid inputs. *)
Theorem C14_colander_outputs_accepted : forall close ops pf pf' o limit lim,
  good pf -> spec_run ops pf = Some pf' ->
  eff_limit (g_max_level (pf_g pf')) limit = Some lim -> 0 <= lim ->
  (t_data o && negb (t_headers o && t_shape o)) = false ->
  taste_good close o limit (pf_disk pf') = true.
Proof. exact colander_outputs_taste_good. Qed.

(* ... and for chains MIXING colander and combine runs (each combine with a
   good plotfile on the current boxes): the chain succeeds, ends on the image of
   the composed pure operations, every intermediate directory is the image of
   a good plotfile - hence (C14_outputs_accepted) accepted by the validator. *)
Theorem C14_strain_combine_chain : forall ops pf pf',
  good pf -> Forall kop_ok ops -> kpure ops pf = Some pf' ->
  run pdisk kop kop_tool ops (pf_disk pf) = Some (pf_disk pf') /\ good pf' /\
  Forall (fun d => exists p, good p /\ d = pf_disk p) (states pdisk kop kop_tool ops (pf_disk pf)).
Proof. exact strain_combine_pipeline. Qed.

(* ... and a chef run (user recipe) at the END of such a chain: the chain
   succeeds, every intermediate directory is the image of a good plotfile, and
   the cooked directory is the image of the cooked plotfile of the composed pure
   operations.  (A cooked plotfile carries the model's bit-pattern min/max
   tokens and is not a 'good' plotfile of the model: chef closes a chain here;
   chains continuing after chef are covered by the correspondence.) *)
Theorem C14_chain_then_chef : forall ops pf pf' recipe keep outnames,
  good pf -> Forall kop_ok ops -> kpure ops pf = Some pf' ->
  g_ndims (pf_g pf') = 3 -> 0 <= g_max_level (pf_g pf') ->
  Forall (fun i => 0 <= i < pf_nfields pf') keep ->
  (forall k pl, nth_error (pf_levels pf') k = Some pl -> recipe_fits recipe keep outnames k pl) ->
  (do d <- run pdisk kop kop_tool ops (pf_disk pf); chef recipe keep outnames d)
  = Some (pf_disk (chef_spec recipe keep outnames pf')) /\
  Forall (fun d => exists p, good p /\ d = pf_disk p) (states pdisk kop kop_tool ops (pf_disk pf)).
Proof. exact strain_combine_then_chef. Qed.
Print Assumptions C14_chain_then_chef.

(* ALL THREE WRITERS.  Every finite sequence of colander, combine and chef (user
   recipe) runs - in any order, chef anywhere in the chain - whose pure
   counterpart is defined succeeds on the directory image of a good plotfile,
   ends on the image of the composed pure operations (fop_pure: spec_step,
   combine_pure, chef_spec), and every intermediate directory is the image of a
   good plotfile.  A cooked plotfile is good because the model's stand-ins for
   the printed minima / maxima are float literals without commas
   (ChefTokenProofs); cooking is defined (cook_defined) on 3D plotfiles when the
   kept indices are in range and the recipe answers on every box with components
   of the box's size, as many, with the kept ones, as the output names. *)
Theorem C14_full_chain : forall ops pf pf',
  good pf -> Forall fop_ok ops -> fpure ops pf = Some pf' ->
  run pdisk fop fop_tool ops (pf_disk pf) = Some (pf_disk pf') /\ good pf' /\
  Forall (fun d => exists p, good p /\ d = pf_disk p) (states pdisk fop fop_tool ops (pf_disk pf)).
Proof. exact full_pipeline. Qed.
Print Assumptions C14_full_chain.

(* ... each of which the validator accepts: tool outputs are valid inputs, chef's included *)
Theorem C14_full_outputs_accepted : forall close ops pf pf' o limit lim,
  good pf -> Forall fop_ok ops -> fpure ops pf = Some pf' ->
  eff_limit (g_max_level (pf_g pf')) limit = Some lim -> 0 <= lim ->
  (t_data o && negb (t_headers o && t_shape o)) = false ->
  taste_good close o limit (pf_disk pf') = true.
Proof. exact full_outputs_taste_good. Qed.
Print Assumptions C14_full_outputs_accepted.

(* ... and what a user READS from them: every level of the plotfile a chain
   ends on lies in its directory as the binary files and the printed (file,
   offset) table of the abstract level, and the indexing interface (C01) returns
   on them, for every accepted field selection and every box selector, exactly
   the contents of the composed pure operations - the strained / merged / cooked
   boxes, in the order requested. *)
Theorem C14_outputs_read_back : forall ops pf pf' pl a s,
  good pf -> Forall fop_ok ops -> fpure ops pf = Some pf' ->
  In pl (pf_levels pf') ->
  (forall fb, In fb (lv_fabs (pl_level pl)) -> exists r, spec_read fb a = Some r) ->
  run pdisk fop fop_tool ops (pf_disk pf) = Some (pf_disk pf') /\
  In (lb_cell_dir (pl_boxes pl),
      {| ld_cellh := Some (print_cellh (pf_nfields pf') (pl_cellh pl)); ld_files := lv_disk (pl_level pl) |})
     (pd_dirs (pf_disk pf')) /\
  stream_getitem (lv_disk (pl_level pl)) (cells_or_nil (pl_level pl)) a s = spec_getitem (pl_level pl) a s.
Proof. exact chain_output_readable. Qed.
Print Assumptions C14_outputs_read_back.

(* ... and iterating a field selection over such a level (C15) yields every box
   exactly once with the contents of the composed pure operations. *)
Theorem C14_outputs_iterate : forall ops pf pf' pl a rs,
  good pf -> Forall fop_ok ops -> fpure ops pf = Some pf' ->
  In pl (pf_levels pf') ->
  omap_all (fun fb => spec_read fb a) (lv_fabs (pl_level pl)) = Some rs ->
  exists out, stream_iter_all (lv_disk (pl_level pl)) (cells_or_nil (pl_level pl)) a = Some out /\ Permutation.Permutation out rs.
Proof. exact chain_output_iterable. Qed.
Print Assumptions C14_outputs_iterate.

(* non-vacuity: cook (keeping field 1), combine the cooked plotfile with the
   original, strain two fields - on the two-level plotfile of C11, level 1 in
   on-disk order (1, 0) *)
Definition ex14_ops : list fop :=
  [FCook ex11_recipe [1] [bs "b"; bs "half"]; FCombine [bs "half"] [bs "a"; bs "b"] ex11_pf; FStrain [bs "b"; bs "half"] (Some 0)].
Example C14_full_example :
  good ex11_pf /\ Forall fop_ok ex14_ops /\
  (exists pf', fpure ex14_ops ex11_pf = Some pf' /\
               run pdisk fop fop_tool ex14_ops (pf_disk ex11_pf) = Some (pf_disk pf') /\
               g_names (pf_g pf') = [bs "b"; bs "half"] /\ g_max_level (pf_g pf') = 0).
Proof.
  assert (Hg : good ex11_pf).
  { unfold good, wf_plotfile, std_dirs, wf_counts, wf_rows, wf_gheader, wf_plevel, wf_lvboxes, no_char. cbn.
    repeat solve_good_step. }
  split; [exact Hg|]. split.
  - constructor; [exact I|]. constructor; [exact Hg|]. constructor; [exact I | constructor].
  - destruct (fpure ex14_ops ex11_pf) as [pf'|] eqn:E; [|vm_compute in E; discriminate].
    exists pf'. split; [reflexivity|].
    assert (Hok : Forall fop_ok ex14_ops) by (constructor; [exact I|]; constructor; [exact Hg|]; constructor; [exact I | constructor]).
    destruct (full_pipeline ex14_ops ex11_pf pf' Hg Hok E) as (Hrun & _ & _).
    split; [exact Hrun|]. vm_compute in E. injection E as <-. split; reflexivity.
Qed.

Theorem C14_outputs_accepted : forall close ops pf pf' o limit lim,
  good pf -> Forall kop_ok ops -> kpure ops pf = Some pf' ->
  eff_limit (g_max_level (pf_g pf')) limit = Some lim -> 0 <= lim ->
  (t_data o && negb (t_headers o && t_shape o)) = false ->
  taste_good close o limit (pf_disk pf') = true.
Proof.
  intros close ops pf pf' o limit lim Hg Hok H Heff Hlim Ho.
  destruct (strain_combine_pipeline ops pf pf' Hg Hok H) as (_ & ((Hwf & _) & _)).
  apply (Taste.DataProofs.taste_complete_nodata close pf' o limit lim Hwf Heff Hlim Ho).
Qed.

(* non-vacuity: combine the two example plotfiles of C06, strain the result, combine again *)
Example C14_ex_mixed_chain :
  exists pf', kpure [KCombine [bs "b"] [bs "c"] AK.Props.C06.ex3_B; KStrain [bs "c"; bs "b"] (Some 0);
                     KCombine [bs "c"] [bs "c"] (colander_spec [bs "c"] 0 AK.Props.C06.ex3_B)] AK.Props.C06.ex3_A = Some pf'
              /\ g_names (pf_g pf') = [bs "c"; bs "c"].
Proof. eexists. split; vm_compute; reflexivity. Qed.

Print Assumptions C14_strain_combine_chain.
Print Assumptions C14_outputs_accepted.

(* non-vacuity: two runs on the example plotfile of C05 *)
Example C14_ex_chain :
  spec_run [([bs "b"; bs "zz"; bs "a"], None); ([bs "a"], Some 0)] AK.Props.C05.ex_pf
  = Some (colander_spec [bs "a"] 0 (colander_spec [bs "b"; bs "zz"; bs "a"] 1 AK.Props.C05.ex_pf)).
Proof. vm_compute. reflexivity. Qed.

Print Assumptions C14_colander_chain.
Print Assumptions C14_colander_outputs_accepted.

(* chk2plt AS THE SOURCE of a chain: for every convertible abstract checkpoint
   (Chk2pltPipeline.convertible: the hypotheses of C17_tool and
   C17_tool_output_good) the directory chk2plt writes is a valid input of every
   chain of colander / combine / chef runs whose pure counterpart is defined on
   the pure conversion conv_pf c: the chain succeeds, ends on the image of the
   composed pure operations, and every intermediate directory is the image of a
   good plotfile. *)
Theorem C14_chain_from_checkpoint : forall whole to_int frepr dx_row bounds species do_gradp do_ir floored y_start nspecies
    n_state n_gradp n_ir c ops pf',
  convertible whole to_int frepr dx_row bounds species do_gradp do_ir floored y_start nspecies n_state n_gradp n_ir c ->
  Forall fop_ok ops -> fpure ops (conv_pf frepr dx_row bounds species do_gradp do_ir c) = Some pf' ->
  exists d, chk2plt_tool whole to_int frepr dx_row bounds species do_gradp do_ir floored y_start nspecies n_state n_gradp n_ir (achk_disk c) = Some d /\
            run pdisk fop fop_tool ops d = Some (pf_disk pf') /\ good pf' /\
            Forall (fun d' => exists p, good p /\ d' = pf_disk p) (states pdisk fop fop_tool ops d).
Proof.
  intros whole to_int frepr dx_row bounds species dg di fl ys ns n1 n2 n3 c ops pf' Hc Hok Hp.
  exact (chain_from_checkpoint whole to_int frepr dx_row bounds species dg di fl ys ns n1 n2 n3 c ops pf' Hc Hok Hp).
Qed.
Print Assumptions C14_chain_from_checkpoint.
