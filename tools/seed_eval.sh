#!/bin/bash
# usage: tools/seed_eval.sh <PID> <src dir with patch.diff demo.py notes.md> <seed-id> [extra check PIDs...]
# 1. confirms the seeded change in a scratch worktree of /repo (outside /repo
#    and /verif): demo passes on the clean tree, fails with the patch, the
#    baseline test-suite keeps its 40 passes;
# 2. applies the patch to /repo, runs ./check <PID> --tier quick (and the extra
#    checks), and undoes it straight afterwards;
# 3. stores patch, demo and meta.json under /verif/seeded/<seed-id>/.
pid="$1"; src="$2"; sid="$3"; shift 3
extra="$@"
V=/verif
wt=$(mktemp -d /tmp/seedwt.XXXXXX)
rmdir "$wt"
git -C /repo worktree add --detach "$wt" ${SEED_BASE:-HEAD} >/dev/null 2>&1 || { echo "worktree failed"; exit 2; }
cleanup() { git -C /repo worktree remove --force "$wt" >/dev/null 2>&1; rm -rf "$wt"; }
trap cleanup EXIT
export PYTHONHASHSEED=0 MPLBACKEND=Agg PYTHONDONTWRITEBYTECODE=1
cd "$wt"
PYTHONPATH="$wt" timeout 900 /venv/bin/python "$src/demo.py" "$wt" >/tmp/seed_demo_clean_$sid.log 2>&1; d0=$?
git apply "$src/patch.diff" || { echo "patch does not apply"; exit 2; }
PYTHONPATH="$wt" timeout 900 /venv/bin/python "$src/demo.py" "$wt" >/tmp/seed_demo_mut_$sid.log 2>&1; d1=$?
if [ -z "$SEED_SKIP_TESTS" ]; then
  PYTHONPATH="$wt" timeout 1500 /venv/bin/python -m pytest -q -p no:cacheprovider --timeout=900 --continue-on-collection-errors >/tmp/seed_tests_$sid.log 2>&1
  tests=$(tail -1 /tmp/seed_tests_$sid.log)
else
  tests="skipped"
fi
echo "demo clean exit=$d0  demo mutated exit=$d1  tests: $tests"
cd "$V"
# run the checks on /repo with the patch applied, then undo
if [ -n "$SEED_INPLACE" ]; then
  git -C /repo apply "$src/patch.diff" || { echo "patch does not apply to /repo"; exit 2; }
else
  export VERIF_REPO="$wt"     # the patched scratch worktree (lets several evaluations run side by side)
fi
results=""
for c in $pid $extra; do
  ./check $c --tier quick >/tmp/seed_check_${sid}_$c.log 2>&1; rc=$?
  line=$(grep -m1 '^VIOLATION' /tmp/seed_check_${sid}_$c.log)
  echo "check $c exit=$rc  $line"
  results="$results{\"check\":\"$c\",\"exit\":$rc,\"line\":\"$line\"},"
  if [ $rc -ne 0 ]; then
    rp=$(echo "$line" | sed -n 's/.*replay=\([^ ]*\).*/\1/p')
    [ -n "$rp" ] && [ -f "$rp" ] && python3 -c "import json,sys; d=json.load(open('$rp')); print('   what:', str(d.get('what'))[:300])"
  fi
done
if [ -n "$SEED_INPLACE" ]; then git -C /repo checkout -- . ; git -C /repo status --short | grep -v '^??'; fi
mkdir -p "$V/seeded/$sid"
cp "$src/patch.diff" "$src/demo.py" "$V/seeded/$sid/"
[ -f "$src/notes.md" ] && cp "$src/notes.md" "$V/seeded/$sid/"
python3 - "$pid" "$sid" "$d0" "$d1" "$tests" "[${results%,}]" <<'EOF'
import json, sys, os
pid, sid, d0, d1, tests, results = sys.argv[1:7]
notes = ''
p = f'/verif/seeded/{sid}/notes.md'
if os.path.exists(p):
    notes = open(p).read()
meta = {
 'property': pid, 'seed_id': sid,
 'needs_to_manifest': notes[:1500],
 'confirmed': {'demo_exit_clean_tree': int(d0), 'demo_exit_with_patch': int(d1), 'baseline_tests_with_patch': tests},
 'ran': ['scratch worktree of /repo HEAD: demo.py on clean tree, git apply patch.diff, demo.py again, baseline pytest command',
         ('git -C /repo apply patch.diff; ./check <pid> --tier quick; git -C /repo checkout -- .' if os.environ.get('SEED_INPLACE') else 'VERIF_REPO=<patched scratch worktree> ./check <pid> --tier quick')],
 'checks': json.loads(results),
 'detected': any(r['exit'] != 0 for r in json.loads(results)),
}
json.dump(meta, open(f'/verif/seeded/{sid}/meta.json', 'w'), indent=1)
print('detected' if meta['detected'] else 'MISSED', sid)
EOF
