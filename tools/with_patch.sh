#!/bin/bash
# usage: tools/with_patch.sh <patch.diff | -e 'sed-expr file'> -- <command...>
# Runs <command> with VERIF_REPO pointing at a scratch copy of /repo's
# amr_kitchen package (working tree) with the patch applied.  The copy lives
# outside /repo and /verif and is removed afterwards.
set -e
patch="$1"; shift
[ "$1" = "--" ] && shift
d=$(mktemp -d /tmp/akmut.XXXXXX)
trap 'rm -rf "$d"' EXIT
cp -r /repo/amr_kitchen "$d/amr_kitchen"
ln -s /repo/test_assets "$d/test_assets"
find "$d" -name __pycache__ -prune -exec rm -rf {} + 2>/dev/null || true
(cd "$d" && patch -p1 -s < "$patch")
VERIF_REPO="$d" "$@"
