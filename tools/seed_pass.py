#!/usr/bin/env python3
"""Re-runs every stored seeded change against the current checks.

For each /verif/seeded/<id>: scratch worktree of /repo (outside /repo and
/verif) at HEAD - or, when the patch no longer applies there because a later
fix: commit rewrote the same lines, at the newest commit where it applies -,
git apply, run the checks named in meta.json with VERIF_REPO=<worktree>,
remove the worktree.  The case seeds of the replays the checks write go to
corpus/<PID>.json (they run first on every later run); meta.json gets a
'final_pass' record.  Nothing is written into /repo.

usage: tools/seed_pass.py [seed-id ...]
"""
import glob
import json
import os
import shutil
import subprocess
import sys
import tempfile

V = '/verif'


def sh(cmd, **kw):
    return subprocess.run(cmd, shell=True, capture_output=True, text=True, **kw)


def applies(wt, patch, rev):
    sh(f'git -C {wt} checkout -q --detach {rev} && git -C {wt} checkout -q -- .')
    return sh(f'git -C {wt} apply --check {patch}').returncode == 0


def main():
    ids = sys.argv[1:] or sorted(os.path.basename(os.path.dirname(p)) for p in glob.glob(f'{V}/seeded/*/meta.json'))
    revs = sh('git -C /repo log --format=%h -n 60').stdout.split()
    summary = []
    for sid in ids:
        d = f'{V}/seeded/{sid}'
        meta = json.load(open(f'{d}/meta.json'))
        patch = f'{d}/patch.diff'
        wt = tempfile.mkdtemp(prefix='seedwt.', dir='/tmp')
        os.rmdir(wt)
        if sh(f'git -C /repo worktree add --detach {wt} HEAD').returncode:
            print(sid, 'worktree failed')
            continue
        try:
            base = next((r for r in revs if applies(wt, patch, r)), None)
            if base is None:
                print(sid, 'patch applies nowhere')
                summary.append((sid, 'no-base', []))
                continue
            sh(f'git -C {wt} apply {patch}')
            env = dict(os.environ, VERIF_REPO=wt, PYTHONHASHSEED='0', MPLBACKEND='Agg', PYTHONDONTWRITEBYTECODE='1')
            res = []
            for c in [x['check'] for x in meta['checks']]:
                shutil.rmtree(f'{V}/scratch/alt/replay', ignore_errors=True)
                r = sh(f'cd {V} && ./check {c} --tier quick', env=env)
                lines = [l for l in r.stdout.splitlines() if l.startswith('VIOLATION')]
                seeds, whats = [], []
                for l in lines:
                    rp = l.split('replay=')[1].split()[0]
                    if os.path.exists(rp):
                        doc = json.load(open(rp))
                        if isinstance(doc.get('seed'), int):
                            seeds.append(doc['seed'])
                        whats.append(str(doc.get('what'))[:200])
                res.append(dict(check=c, exit=r.returncode, violations=len(lines), nofail=sum('no-failing-input-found' in l for l in lines),
                                seeds=seeds, what=whats[:2]))
                if seeds and c == meta['property']:
                    cp = f'{V}/corpus/{c}.json'
                    doc = json.load(open(cp)) if os.path.exists(cp) else dict(seeds=[], why={})
                    for s in seeds[:2]:
                        if s not in doc['seeds']:
                            doc['seeds'].append(s)
                            doc['why'][str(s)] = f'distinguishes seeded change {sid}'
                    json.dump(doc, open(cp, 'w'), indent=1)
            meta['final_pass'] = dict(base=base, head=revs[0], applies_to_head=(base == revs[0]), checks=res)
            meta['detected'] = any(x['exit'] != 0 for x in res)
            json.dump(meta, open(f'{d}/meta.json', 'w'), indent=1)
            summary.append((sid, base, [(x['check'], x['exit'], x['nofail']) for x in res]))
            print(sid, 'base', base, [(x['check'], x['exit'], x['violations'], x['nofail']) for x in res], flush=True)
        finally:
            sh(f'git -C /repo worktree remove --force {wt}')
            shutil.rmtree(wt, ignore_errors=True)
    missed = [s for s in summary if not any(e for _, e, _ in s[2])]
    print('MISSED:', missed)


if __name__ == '__main__':
    main()
